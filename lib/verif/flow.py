"""The decision procedure shared by every property check (DESIGN.md section 1):
proof stage, build of model driver / harness / capy, correspondence bookkeeping,
and the final verdict."""
import json
import os

from . import common as C
from . import coqtools, cargotools

KERNEL_TB = [
    "Coq 8.16.1 kernel (coqc; vm_compute used in witness lemmas; native_compute not used)",
    "Coq extraction to OCaml with ExtrOcamlBasic only (no Extract Constant / Extract Inductive of our own)",
    "OCaml glue (ocaml/common/conv.ml, per-property driver.ml): parsing and printing only",
    "Rust harness crates under harness/ and the Python orchestrator (generation, diffing, evidence)",
    "hand-written Gallina models of the anchored Rust code, tied to /repo by the correspondence streams of this run",
]


class Flow:
    def __init__(self, prop, tier, seed, level="proof"):
        self.prop = prop
        self.tier = tier
        self.seed = seed
        self.v = C.Verdict(prop, tier, seed, level)
        self.rng = C.Rng(seed).fork(prop)
        self.proof_ok = True
        self.broken = []          # descriptions of broken proof obligations / correspondence streams
        self.streams = {}         # name -> dict(cases, diffs)
        self.v.coverage.update({"obligations": 0, "discharged": 0, "checker_cmd": "", "trusted_base": list(KERNEL_TB)})

    # -- proof stage -----------------------------------------------------------
    def proof_stage(self, extra_targets=()):
        res = coqtools.audit_property(self.prop, extra_targets)
        cov = self.v.coverage
        n = len(res["theorems"])
        cov["obligations"] = n
        cov["theorems"] = res["theorems"]
        cov["print_assumptions"] = res["axioms"]
        cov["checker_cmd"] = ("cd coq && coq_makefile -f _CoqProject <all .v> -o Makefile && "
                              "make -j Properties/%s.vo  (fresh recompilation of Properties/%s.v; "
                              "forbidden-construct scan; Print Assumptions allow-list)" % (self.prop, self.prop))
        used_axioms = sorted({a for axs in res["axioms"].values() for a in axs})
        cov["trusted_base"].append("axioms reported by Print Assumptions for Properties/%s.v: %s"
                                   % (self.prop, ", ".join(used_axioms) if used_axioms else "none (closed under the global context)"))
        if res["ok"]:
            cov["discharged"] = n
        else:
            self.proof_ok = False
            cov["discharged"] = 0
            for f in res["failures"]:
                self.broken.append({"what": "proof obligation", **f})
        if self.tier == "thorough" and res["ok"]:
            ok, out = coqtools.coqchk(self.prop)
            cov["coqchk"] = out[-1500:]
            cov["checker_cmd"] += " ; coqchk -silent -o -Q . Capy Capy.Properties.%s" % self.prop
            if not ok:
                self.proof_ok = False
                cov["discharged"] = 0
                self.broken.append({"what": "coqchk", "output": out[-1500:]})
        return res["ok"]

    # -- builds ------------------------------------------------------------------
    def driver(self, use_z=None):
        if use_z is None:
            use_z = os.path.exists(os.path.join(C.OCAML, self.prop, "USE_Z"))
        ok, out, path = coqtools.build_driver(self.prop, use_z)
        if not ok:
            self.broken.append({"what": "model extraction/driver build", "output": out[-2000:]})
            return None
        return path

    def harness(self, pkg):
        ok, out, path = cargotools.build_harness(pkg)
        if not ok:
            self.broken.append({"what": "harness build against /repo (API or hook changed?)", "package": pkg,
                                "output": out[-3000:]})
            return None
        return path

    def capy(self):
        ok, out, path = cargotools.build_capy()
        if not ok:
            self.broken.append({"what": "capy build", "output": out[-3000:]})
            return None
        return path

    # -- correspondence ------------------------------------------------------------
    def stream(self, name, cases, diffs, first_diff=None):
        s = self.streams.setdefault(name, {"cases": 0, "diffs": 0})
        s["cases"] += cases
        s["diffs"] += diffs
        if diffs and first_diff is not None and "first_diff" not in s:
            s["first_diff"] = first_diff
            self.broken.append({"what": "correspondence stream '%s': model and implementation differ" % name,
                                "first_diverging_input": first_diff})

    # -- verdict -------------------------------------------------------------------
    def finish(self):
        self.v.coverage["streams"] = self.streams
        self.v.coverage["traces_validated_against_impl"] = sum(s["cases"] for s in self.streams.values())
        if self.broken and not self.v.violations:
            # property no longer shown; no concrete failing input was found
            self.v.violation({"key": "not-shown", "no_failing_input_found": True, "broken": self.broken,
                              "explanation": "a proof obligation or a model/implementation correspondence no longer "
                                             "checks; the search found no input on which the property itself fails"},
                             no_input=True)
        elif self.broken:
            self.v.notes.append({"also_broken": self.broken})
        return self.v.finish()
