"""C02 end-to-end guard-byte programs (stdlib only).

A *block* is one independent experiment compiled into its own Capy function
`b<i>`: an object of type T sits in a container, exactly ONE write of a given
kind is performed on it, and then every guard and the written value are printed
(each line starts with `@<block> <TAG>`).  `build_program` also produces the
transcript a memory-safe compiler must print (`expected_clean`).

Containers:
  field  struct { p0..p3: u8, obj: T, g0..g15: u8 }; the write is `c.obj = rhs`
         (guard g_i is the byte at offset size(T)+i behind the object start)
  lit    same struct, but the write is the store of `obj` inside a container literal that
         lists the guards FIRST (`C.{ p.., g.., obj = rhs }`) -- stack-slot store path
  elem   `a : [3]T`, the write is `a[1] = rhs`; neighbours a[0], a[2] are read back
  local  `x : T` followed by `g0, g1 : u64` locals (Cranelift lays stack slots out in creation
         order, 8-aligned: byte i of (g0,g1) is at offset roundup(size(T),8)+i behind x)
Write kinds (block["kind"]; block["src"] says where the right-hand side comes from:
literal | payload_var | local | field | call | cast | ptr | self | default):
  scalar_store struct_assign array_assign variant_to_enum enum_assign payload_to_opt nil_to_opt
  opt_assign ok_to_eu err_to_eu eu_assign struct_cast array_cast ret_store (struct sizes 1..64)
  default (`x : T;`)  arg (by-value argument while the callee overwrites the caller's object
  through a pointer)  alias_ret  alias_assign (`y := x; mutate y; mutate x`)
  self_ref_literal (`x = T.{ f0 = x.f1, f1 = x.f0 }`)
Transcript tags: P pre-guards, G guards, V written value, N0/N2 array neighbours, PL/GL guard
locals (decimal u64, decoded to bytes), SG/SV source container guards/value, A parameter value
seen by the callee, R returned copy, AA/AB original/copy of alias_assign.

API (all generators are pure functions of `rng`, which only needs
below(n), range(lo, hi) [lo <= x < hi], choice(seq), chance(num, den)):

    gen_blocks(rng, n, kinds=None)     -> [block, ...]           (JSON-serialisable)
    gen_block(rng, kind=None)          -> block
    build_program(blocks)              -> {"capy", "expected_clean", "sites", "blocks"}
                                          sites: line index of expected_clean -> {"block", "what"}
    run_program(capy_exe, prog, workdir, timeout=60)
        -> {"status": "ok"|"mismatch"|"capy-failed"|"run-failed", "stdout", "detail",
            "changed": [{"block", "region", "guard_index", "expected", "got"}, ...]}
           region: pre | post | src_post (u8 guards) | pre_local | post_local (bytes of the u64
           guard locals) | value:<TAG> (a read-back line differs; guard_index None) | missing:<TAG>
    compare_transcripts(expected, got) -> the `changed` list
    layout(ty) / stride(ty) / struct_offsets(ty) / tag_offset(ty)   mirror of codegen/src/layout.rs
    predict_clobber(block)             -> footprint of the UNCHANGED compiler (defects D1/D2, see there)
    describe(block)                    -> "shape size=.. align=.. stride=.."
    Rng(seed)                          a small splitmix64 with the rng interface (for CLI use)

Type descriptions (JSON):
    {"k":"int","t":"u8|i8|u16|i16|u32|i32|u64|i64"} {"k":"bool"} {"k":"float","t":"f32|f64"}
    {"k":"str"}                                  (only used as an error type)
    {"k":"struct","fields":[ty..],"names":[..]?} {"k":"array","n":N,"elem":ty}
    {"k":"enum","variants":[ty|null..]}          {"k":"opt","sub":ty}  {"k":"eu","err":ty,"ok":ty}
Values: int/bool/float/str literal; struct/array -> list; enum -> [idx, payload|null];
opt -> null | {"some": v}; eu -> {"ok": v} | {"err": v}.

A crashing block (the 8-byte enum tag store of the unchanged compiler can reach the saved frame
pointer) loses the rest of the transcript: re-run the blocks one per program to attribute it.
"""
import json
import os
import shutil
import subprocess

MOD_DIR = "/repo"
N_POST = 16          # u8 guards after the object (field container)
N_PRE = 4            # u8 guards before the object
POST0, PRE0, SPOST0, SPRE0 = 0xA1, 0x51, 0xC1, 0x61

INT_INFO = {"u8": (1, False), "i8": (1, True), "u16": (2, False), "i16": (2, True),
            "u32": (4, False), "i32": (4, True), "u64": (8, False), "i64": (8, True)}


# --------------------------------------------------------------------------- types
def t_int(t):
    return {"k": "int", "t": t}


def t_struct(fields, names=None):
    d = {"k": "struct", "fields": list(fields)}
    if names:
        d["names"] = list(names)
    return d


def t_array(n, elem):
    return {"k": "array", "n": n, "elem": elem}


def t_enum(variants):
    return {"k": "enum", "variants": list(variants)}


def t_opt(sub):
    return {"k": "opt", "sub": sub}


def t_eu(err, ok):
    return {"k": "eu", "err": err, "ok": ok}


T_BOOL = {"k": "bool"}
T_STR = {"k": "str"}


def field_names(ty):
    return ty.get("names") or ["f%d" % i for i in range(len(ty["fields"]))]


def _pad(off, align):
    return (align - off % align) % align


def layout(ty):
    """(size, align) exactly as crates/codegen/src/layout.rs computes them (64-bit target)."""
    k = ty["k"]
    if k == "int":
        s = INT_INFO[ty["t"]][0]
        return s, min(s, 8)
    if k == "bool":
        return 1, 1
    if k == "float":
        s = 4 if ty["t"] == "f32" else 8
        return s, s
    if k == "str":
        return 8, 8
    if k == "struct":
        off, al = 0, 1
        for f in ty["fields"]:
            fs, fa = layout(f)
            al = max(al, fa)
            off += _pad(off, fa)
            off += fs
        return off, al
    if k == "array":
        es, ea = layout(ty["elem"])
        return stride(ty["elem"]) * ty["n"], ea
    if k == "enum":
        ms, ma = 0, 1
        for v in ty["variants"]:
            if v is not None:
                vs, va = layout(v)
                ms, ma = max(ms, vs), max(ma, va)
        return ms + 1, ma
    if k == "opt":
        s, a = layout(ty["sub"])
        return s + 1, a
    if k == "eu":
        es, ea = layout(ty["err"])
        os_, oa = layout(ty["ok"])
        return max(es, os_) + 1, max(ea, oa)
    raise ValueError(k)


def size_of(ty):
    return layout(ty)[0]


def align_of(ty):
    return layout(ty)[1]


def stride(ty):
    s, a = layout(ty)
    return (s + a - 1) // a * a


def struct_offsets(ty):
    off, res = 0, []
    for f in ty["fields"]:
        fs, fa = layout(f)
        off += _pad(off, fa)
        res.append(off)
        off += fs
    return res


def tag_offset(ty):
    """Offset of the 1-byte discriminant of enum / optional / error union."""
    return size_of(ty) - 1


def is_aggregate(ty):
    return ty["k"] in ("struct", "array", "enum", "opt", "eu")


# --------------------------------------------------------------------------- values
def _int_from_bytes(rng, t):
    """Every byte non-zero.  Negative literals whose magnitude needs more than 31 bits are
    mis-compiled by the unchanged compiler (a C09 matter: `x : i64 = -462541832674059014`
    yields -2655757062), so signed values are positive or small negatives."""
    size, signed = INT_INFO[t]
    v = 0
    for i in range(size):
        hi = 128 if (signed and i == size - 1) else 256
        v |= rng.range(1, hi) << (8 * i)
    if signed and rng.chance(1, 3):
        v = -(v & ((1 << (min(8 * size, 32) - 1)) - 1)) or -1
    return v


def gen_value(rng, ty, small=False):
    k = ty["k"]
    if k == "int":
        if small:
            return rng.range(1, 100)
        return _int_from_bytes(rng, ty["t"])
    if k == "bool":
        return bool(rng.below(2))
    if k == "float":
        return rng.range(1, 200) * 0.5
    if k == "str":
        return "e%d" % rng.range(10, 99)
    if k == "struct":
        return [gen_value(rng, f, small) for f in ty["fields"]]
    if k == "array":
        return [gen_value(rng, ty["elem"], small) for _ in range(ty["n"])]
    if k == "enum":
        i = rng.below(len(ty["variants"]))
        v = ty["variants"][i]
        return [i, None if v is None else gen_value(rng, v, small)]
    if k == "opt":
        if rng.chance(1, 4):
            return None
        return {"some": gen_value(rng, ty["sub"], small)}
    if k == "eu":
        if rng.chance(1, 3):
            return {"err": gen_value(rng, ty["err"], small)}
        return {"ok": gen_value(rng, ty["ok"], small)}
    raise ValueError(k)


def fmt_value(ty, v):
    """How core.println renders a value of this type."""
    k = ty["k"]
    if k == "int":
        return str(v)
    if k == "bool":
        return "true" if v else "false"
    if k == "float":
        return "%.3f" % v
    if k == "str":
        return v
    if k == "struct":
        return "{ " + ", ".join("%s = %s" % (n, fmt_value(f, x))
                                for n, f, x in zip(field_names(ty), ty["fields"], v)) + " }"
    if k == "array":
        return "[ " + ", ".join(fmt_value(ty["elem"], x) for x in v) + " ]"
    if k == "enum":
        i, p = v
        return "()" if ty["variants"][i] is None else fmt_value(ty["variants"][i], p)
    if k == "opt":
        return "nil" if v is None else fmt_value(ty["sub"], v["some"])
    if k == "eu":
        return fmt_value(ty["err"], v["err"]) if "err" in v else fmt_value(ty["ok"], v["ok"])
    raise ValueError(k)


# --------------------------------------------------------------------------- emission
class _Names:
    """Per-block registry of named struct/enum declarations."""

    def __init__(self, prefix):
        self.prefix = prefix
        self.decls = []
        self.seen = {}

    def texpr(self, ty):
        k = ty["k"]
        if k in ("int", "float"):
            return ty["t"]
        if k == "bool":
            return "bool"
        if k == "str":
            return "str"
        if k == "array":
            return "[%d]%s" % (ty["n"], self.texpr(ty["elem"]))
        if k == "opt":
            return "?" + self.texpr(ty["sub"])
        if k == "eu":
            return "%s!%s" % (self.texpr(ty["err"]), self.texpr(ty["ok"]))
        key = json.dumps(ty, sort_keys=True)
        if key in self.seen:
            return self.seen[key]
        name = "%s_%s%d" % (self.prefix, "S" if k == "struct" else "E", len(self.seen))
        self.seen[key] = name
        if k == "struct":
            body = ", ".join("%s: %s" % (n, self.texpr(f)) for n, f in zip(field_names(ty), ty["fields"]))
            self.decls.append("%s :: struct { %s };" % (name, body))
        else:
            parts = []
            for i, v in enumerate(ty["variants"]):
                parts.append("V%d" % i if v is None else "V%d: %s" % (i, self.texpr(v)))
            self.decls.append("%s :: enum { %s };" % (name, ", ".join(parts)))
        return name

    def expr(self, ty, v):
        k = ty["k"]
        if k == "int":
            return str(v)
        if k == "bool":
            return "true" if v else "false"
        if k == "float":
            return repr(float(v))
        if k == "str":
            return '"%s"' % v
        if k == "struct":
            return "%s.{ %s }" % (self.texpr(ty), ", ".join(
                "%s = %s" % (n, self.expr(f, x)) for n, f, x in zip(field_names(ty), ty["fields"], v)))
        if k == "array":
            return ".[" + ", ".join(self.expr(ty["elem"], x) for x in v) + "]"
        if k == "enum":
            i, p = v
            vt = ty["variants"][i]
            if vt is None:
                return "%s.V%d" % (self.texpr(ty), i)
            return "%s.V%d.(%s)" % (self.texpr(ty), i, self.expr(vt, p))
        if k == "opt":
            return "nil" if v is None else self.expr(ty["sub"], v["some"])
        if k == "eu":
            return self.expr(ty["err"], v["err"]) if "err" in v else self.expr(ty["ok"], v["ok"])
        raise ValueError(k)


def _readback(names, ty, lv, val, tag):
    """Statements printing exactly one line `<tag> ...` for lvalue `lv`, and that line."""
    if ty["k"] == "enum":
        arms = []
        for i, vt in enumerate(ty["variants"]):
            if vt is None:
                arms.append('.V%d => core.println("%s V%d"),' % (i, tag, i))
            else:
                arms.append('.V%d => core.println("%s V%d ", v),' % (i, tag, i))
        stmts = ["switch v in %s {" % lv] + ["    " + a for a in arms] + ["}"]
        i, p = val
        exp = "%s V%d" % (tag, i)
        if ty["variants"][i] is not None:
            exp += " " + fmt_value(ty["variants"][i], p)
        return stmts, exp
    return ['core.println("%s ", %s);' % (tag, lv)], "%s %s" % (tag, fmt_value(ty, val))


def _guard_print(tag, exprs):
    return 'core.println("%s", %s);' % (tag, ", ".join('" ", %s' % e for e in exprs))


def _u64_of(bytes_le):
    v = 0
    for i, b in enumerate(bytes_le):
        v |= b << (8 * i)
    return v


def _container_literal(names, cname, ty, val, pre0, post0):
    parts = ["p%d = %d" % (i, pre0 + i) for i in range(N_PRE)]
    parts.append("obj = " + names.expr(ty, val))
    parts += ["g%d = %d" % (i, post0 + i) for i in range(N_POST)]
    return "%s.{ %s }" % (cname, ", ".join(parts))


def _partial_mutation(ty, lv, names, newval, oldval):
    """A statement changing `lv` (of type ty) to a value != oldval; returns (stmt, resulting value)."""
    return "%s = %s;" % (lv, names.expr(ty, newval)), newval


NO_SRC_KINDS = ("struct_cast", "array_cast", "arg", "alias_ret", "default", "self_ref_literal", "alias_assign")


def _block_code(idx, b):
    """-> (decls, fn_lines, expected_lines, site_descrs)"""
    names = _Names("B%d" % idx)
    ty = b["ty"]
    T = names.texpr(ty)
    tagp = "@%d" % idx
    body, exp, sites, helpers = [], [], [], []
    cont = b["container"]
    kind = b["kind"]
    src = b.get("src", "literal")
    lead = b.get("lead", 0)
    lead_params = "".join("x%d: u64, " % i for i in range(lead))
    lead_args = "".join("%d, " % (i + 1) for i in range(lead))

    def emit_exp(line, what):
        exp.append(line)
        sites.append({"block": idx, "what": what})

    # ---- container set-up ---------------------------------------------------
    cname = None
    if cont == "field":
        cname = "%s_C" % names.prefix
        fields = ["p%d: u8" % i for i in range(N_PRE)] + ["obj: " + T] + ["g%d: u8" % i for i in range(N_POST)]
        names.decls.append("%s :: struct { %s };" % (cname, ", ".join(fields)))
        body.append("c := %s;" % _container_literal(names, cname, ty, b["init"], PRE0, POST0))
        dest = "c.obj"
    elif cont == "elem":
        # elements go through typed locals: an anonymous array literal mixing e.g. the error and
        # the payload of an error union does not type-check
        body.append("n0 : %s = %s;" % (T, names.expr(ty, b["n0"])))
        body.append("i0 : %s = %s;" % (T, names.expr(ty, b["init"])))
        body.append("n2 : %s = %s;" % (T, names.expr(ty, b["n2"])))
        body.append("a : [3]%s = .[n0, i0, n2];" % T)
        dest = "a[1]"
    elif cont == "lit":
        # the ONE write is the store of `obj` inside a container literal that lists the guards first
        cname = "%s_C" % names.prefix
        fields = ["p%d: u8" % i for i in range(N_PRE)] + ["obj: " + T] + ["g%d: u8" % i for i in range(N_POST)]
        names.decls.append("%s :: struct { %s };" % (cname, ", ".join(fields)))
        dest = "c.obj"
    elif cont == "local":
        body.append("p : u64 = %d;" % _u64_of([PRE0 + i for i in range(8)]))
        if kind in ("self_ref_literal", "alias_assign"):
            body.append("x : %s = %s;" % (T, names.expr(ty, b["init"])))
        elif kind == "default":
            body.append("x : %s;" % T)
        else:
            body.append("i0 : %s = %s;" % (T, names.expr(ty, b["init"])))
            body.append("x : %s = i0;" % T)
            body.append("g0 : u64 = %d;" % _u64_of([POST0 + i for i in range(8)]))
            body.append("g1 : u64 = %d;" % _u64_of([POST0 + 8 + i for i in range(8)]))
        dest = "x"
    else:
        raise ValueError(cont)

    # ---- the write ------------------------------------------------------------
    new = b.get("new")
    final = new
    post_src = []

    def assign(rhs):
        if cont == "lit":
            parts = ["p%d = %d" % (i, PRE0 + i) for i in range(N_PRE)]
            parts += ["g%d = %d" % (i, POST0 + i) for i in range(N_POST)]
            parts.append("obj = " + rhs)
            body.append("c := %s.{ %s };" % (cname, ", ".join(parts)))
        else:
            body.append("%s = %s;" % (dest, rhs))

    if kind == "default":
        final = b["new"]
    elif kind == "alias_assign":
        # b := a; mutate b; a must be unchanged -- then mutate a; b must keep its value
        body.append("y : %s = x;" % T)
        path, pty, pv_b, pv_a = b["path"], b["path_ty"], b["path_new_b"], b["path_new_a"]
        body.append("y%s = %s;" % (path, names.expr(pty, pv_b)))
        rb, line = _readback(names, ty, "x", b["init"], tagp + " AA")
        body += rb
        emit_exp(line, "original_after_copy_mutated")
        body.append("x%s = %s;" % (path, names.expr(pty, pv_a)))
        rb, line = _readback(names, ty, "y", b["val_b"], tagp + " AB")
        body += rb
        emit_exp(line, "copy_after_original_mutated")
        final = b["val_a"]
    elif kind == "self_ref_literal":
        perm = b["perm"]
        if ty["k"] == "struct":
            fn_ = field_names(ty)
            rhs = "%s.{ %s }" % (T, ", ".join("%s = x.%s" % (fn_[i], fn_[perm[i]]) for i in range(len(perm))))
        else:
            rhs = ".[" + ", ".join("x[%d]" % perm[i] for i in range(len(perm))) + "]"
        body.append("x = %s;" % rhs)
        final = [b["init"][perm[i]] for i in range(len(perm))]
    elif kind in ("struct_cast", "array_cast"):
        fty = b["from_ty"]
        FT = names.texpr(fty)
        body.append("s : %s = %s;" % (FT, names.expr(fty, b["from_val"])))
        assign("%s.(s)" % T)
    elif kind == "arg":
        # by-value argument: the callee mutates the caller's object through a pointer and
        # must still see the old value in its parameter
        fn = "%s_f" % names.prefix.lower()
        rb, line = _readback(names, ty, "p", b["init"], tagp + " A")
        helpers.append("%s :: (%sp: %s, q: ^mut %s) {" % (fn, lead_params, T, T))
        helpers.append("    q^ = %s;" % names.expr(ty, new))
        helpers += ["    " + s for s in rb]
        helpers.append("}")
        body.append("%s(%s%s, ^mut %s);" % (fn, lead_args, dest, dest))
        emit_exp(line, "param_value")
    elif kind == "alias_ret":
        fn = "%s_f" % names.prefix.lower()
        helpers.append("%s :: (%sq: ^%s) -> %s { q^ }" % (fn, lead_params, T, T))
        body.append("r : %s = %s(%s^%s);" % (T, fn, lead_args, dest))
        body.append("%s = %s;" % (dest, names.expr(ty, new)))
        rb, line = _readback(names, ty, "r", b["init"], tagp + " R")
        post_src = (rb, line, "returned_copy")
    else:
        # same-type store; where does the right-hand side come from?
        if src == "literal":
            assign(names.expr(ty, new))
        elif src == "local":
            body.append("s : %s = %s;" % (T, names.expr(ty, new)))
            assign("s")
            if b.get("mutate_src_after"):
                body.append("s = %s;" % names.expr(ty, b["init"]))
        elif src == "field":
            if cname is None:
                cname = "%s_C" % names.prefix
                fields = (["p%d: u8" % i for i in range(N_PRE)] + ["obj: " + T] +
                          ["g%d: u8" % i for i in range(N_POST)])
                names.decls.append("%s :: struct { %s };" % (cname, ", ".join(fields)))
            body.append("sc := %s;" % _container_literal(names, cname, ty, new, SPRE0, SPOST0))
            assign("sc.obj")
            if b.get("mutate_src_after"):
                body.append("sc.obj = %s;" % names.expr(ty, b["init"]))
        elif src == "call":
            fn = "%s_mk" % names.prefix.lower()
            helpers.append("%s :: (%s) -> %s {" % (fn, lead_params.rstrip(", "), T))
            # zpad absorbs an over-wide store behind the preceding stack slot; without it the
            # unchanged compiler's 8-byte enum tag store reaches the saved frame pointer and the
            # program dies on return (still possible for the temporary of the direct form)
            if b.get("ret_via_local"):
                helpers.append("    r : %s = %s;" % (T, names.expr(ty, new)))
                helpers.append("    zpad : u64 = 0;")
                helpers.append("    r")
            else:
                helpers.append("    zpad : u64 = 0;")
                helpers.append("    " + names.expr(ty, new))
            helpers.append("}")
            assign("%s(%s)" % (fn, lead_args.rstrip(", ")))
        elif src == "payload_var":
            k = ty["k"]
            if k == "enum":
                i, p = new
                vt = ty["variants"][i]
                body.append("s : %s.V%d = %s;" % (T, i, names.expr(ty, new)))
            elif k == "opt":
                body.append("s : %s = %s;" % (names.texpr(ty["sub"]), names.expr(ty["sub"], new["some"])))
            else:
                which = "err" if "err" in new else "ok"
                body.append("s : %s = %s;" % (names.texpr(ty[which]), names.expr(ty[which], new[which])))
            assign("s")
        else:
            raise ValueError(src)

    # ---- observation ----------------------------------------------------------
    if cont in ("field", "lit"):
        body.append(_guard_print(tagp + " P", ["c.p%d" % i for i in range(N_PRE)]))
        emit_exp(tagp + " P " + " ".join(str(PRE0 + i) for i in range(N_PRE)), "pre_guards")
        body.append(_guard_print(tagp + " G", ["c.g%d" % i for i in range(N_POST)]))
        emit_exp(tagp + " G " + " ".join(str(POST0 + i) for i in range(N_POST)), "guards")
        rb, line = _readback(names, ty, "c.obj", final, tagp + " V")
        body += rb
        emit_exp(line, "value")
    elif cont == "elem":
        for j, key in ((0, "n0"), (2, "n2")):
            rb, line = _readback(names, ty, "a[%d]" % j, b[key], "%s N%d" % (tagp, j))
            body += rb
            emit_exp(line, "neighbor%d" % j)
        rb, line = _readback(names, ty, "a[1]", final, tagp + " V")
        body += rb
        emit_exp(line, "value")
    else:
        body.append(_guard_print(tagp + " PL", ["p"]))
        emit_exp("%s PL %d" % (tagp, _u64_of([PRE0 + i for i in range(8)])), "pre_local")
        if kind not in ("default", "self_ref_literal", "alias_assign"):
            body.append(_guard_print(tagp + " GL", ["g0", "g1"]))
            emit_exp("%s GL %d %d" % (tagp, _u64_of([POST0 + i for i in range(8)]),
                                      _u64_of([POST0 + 8 + i for i in range(8)])), "guard_locals")
        rb, line = _readback(names, ty, "x", final, tagp + " V")
        body += rb
        emit_exp(line, "value")
    if src == "field" and kind not in NO_SRC_KINDS:
        body.append(_guard_print(tagp + " SG", ["sc.g%d" % i for i in range(N_POST)]))
        emit_exp(tagp + " SG " + " ".join(str(SPOST0 + i) for i in range(N_POST)), "src_guards")
        sval = b["init"] if b.get("mutate_src_after") else new
        rb, line = _readback(names, ty, "sc.obj", sval, tagp + " SV")
        body += rb
        emit_exp(line, "src_value")
    if src == "local" and kind not in NO_SRC_KINDS:
        sval = b["init"] if b.get("mutate_src_after") else new
        rb, line = _readback(names, ty, "s", sval, tagp + " SV")
        body += rb
        emit_exp(line, "src_value")
    if post_src:
        rb, line, what = post_src
        body += rb
        emit_exp(line, what)

    # the callee's line (kind arg) is printed before the caller's lines: it was emitted first above.
    fn_lines = helpers + ["b%d :: () {" % idx] + ["    " + s for s in body] + ["}"]
    return names.decls, fn_lines, exp, sites


def build_program(blocks):
    decls, fns, exp, sites = [], [], [], {}
    for i, b in enumerate(blocks):
        d, f, e, s = _block_code(i, b)
        decls += d
        fns += f + [""]
        for line, site in zip(e, s):
            sites[len(exp)] = site
            exp.append(line)
    main = ["main :: () {"] + ["    b%d();" % i for i in range(len(blocks))] + ['    core.println("@end");', "}"]
    sites[len(exp)] = {"block": None, "what": "end"}
    exp.append("@end")
    src = ['core :: #mod("core");', ""] + decls + [""] + fns + main
    return {"capy": "\n".join(src) + "\n", "expected_clean": "\n".join(exp) + "\n",
            "sites": sites, "blocks": blocks}


# --------------------------------------------------------------------------- running
def _diff_line(block, tag, exp_fields, got_fields):
    out = []
    if tag in ("P", "G", "SG"):
        region = {"P": "pre", "G": "post", "SG": "src_post"}[tag]
        for i, e in enumerate(exp_fields):
            g = got_fields[i] if i < len(got_fields) else None
            if g != e:
                out.append({"block": block, "region": region, "guard_index": i,
                            "expected": int(e), "got": None if g is None else _to_int(g)})
    elif tag in ("PL", "GL"):
        region = {"PL": "pre_local", "GL": "post_local"}[tag]
        for w, e in enumerate(exp_fields):
            g = got_fields[w] if w < len(got_fields) else None
            if g == e:
                continue
            ev = int(e)
            gv = _to_int(g) if g is not None else None
            for byte in range(8):
                eb = (ev >> (8 * byte)) & 0xFF
                gb = None if gv is None else (gv >> (8 * byte)) & 0xFF
                if eb != gb:
                    out.append({"block": block, "region": region, "guard_index": 8 * w + byte,
                                "expected": eb, "got": gb})
    else:
        out.append({"block": block, "region": "value:" + tag, "guard_index": None,
                    "expected": " ".join(exp_fields), "got": " ".join(got_fields)})
    return out


def _to_int(s):
    try:
        return int(s)
    except (TypeError, ValueError):
        return s


def compare_transcripts(expected, got):
    """-> list of changed entries (see run_program)."""
    def index(text):
        d = {}
        for line in text.splitlines():
            parts = line.split(" ")
            if len(parts) >= 2 and parts[0].startswith("@") and parts[0][1:].isdigit():
                d.setdefault((int(parts[0][1:]), parts[1]), parts[2:])
        return d
    e, g = index(expected), index(got)
    changed = []
    for (blk, tag), ef in e.items():
        gf = g.get((blk, tag))
        if gf is None:
            changed.append({"block": blk, "region": "missing:" + tag, "guard_index": None,
                            "expected": " ".join(ef), "got": None})
        elif gf != ef:
            changed += _diff_line(blk, tag, ef, gf)
    return changed


def run_program(capy_exe, prog, workdir, timeout=60):
    os.makedirs(workdir, exist_ok=True)
    src = os.path.join(workdir, "p.capy")
    with open(src, "w") as fh:
        fh.write(prog["capy"])
    exe = os.path.join(workdir, "out", "p")
    if os.path.exists(exe):
        os.remove(exe)
    try:
        cp = subprocess.run([capy_exe, "build", "p.capy", "--mod-dir", MOD_DIR], cwd=workdir,
                            stdout=subprocess.PIPE, stderr=subprocess.STDOUT, timeout=timeout)
    except subprocess.TimeoutExpired:
        return {"status": "capy-failed", "stdout": "", "changed": [], "detail": "capy timeout"}
    if cp.returncode != 0 or not os.path.exists(exe):
        tail = cp.stdout.decode("utf-8", "replace")
        tail = "\n".join(l for l in tail.splitlines() if not l.startswith("split_aggregate"))[-3000:]
        return {"status": "capy-failed", "stdout": "", "changed": [],
                "detail": "capy rc=%s\n%s" % (cp.returncode, tail)}
    cmd = [exe]
    if shutil.which("stdbuf"):
        cmd = ["stdbuf", "-o0"] + cmd      # keep the partial transcript if the program dies
    try:
        rp = subprocess.run(cmd, cwd=workdir, stdout=subprocess.PIPE, stderr=subprocess.PIPE, timeout=timeout)
    except subprocess.TimeoutExpired:
        return {"status": "run-failed", "stdout": "", "changed": [], "detail": "program timeout"}
    out = rp.stdout.decode("utf-8", "replace")
    changed = compare_transcripts(prog["expected_clean"], out)
    if rp.returncode != 0:
        return {"status": "run-failed", "stdout": out, "changed": changed,
                "detail": "program rc=%s" % rp.returncode}
    if out == prog["expected_clean"]:
        return {"status": "ok", "stdout": out, "changed": [], "detail": ""}
    return {"status": "mismatch", "stdout": out, "changed": changed, "detail": ""}


# --------------------------------------------------------------------------- generators
I8, U8, I16, U16, I32, U32, I64, U64 = (t_int(t) for t in ("i8", "u8", "i16", "u16", "i32", "u32", "i64", "u64"))
SCALARS = [U8, I8, U16, I16, U32, I32, U64, I64, T_BOOL]
ODD_STRUCTS = [  # size != stride
    t_struct([I64, I8]), t_struct([I32, I8]), t_struct([I16, I8]), t_struct([I64, I16]),
    t_struct([I64, I32, I8]), t_struct([I32, I16, I8]), t_struct([I64, I64, I8]), t_struct([U64, U32]),
    t_struct([U32, U16]), t_struct([I64, U8, U8, U8]),
]
EVEN_STRUCTS = [t_struct([U8]), t_struct([U8, U8, U8]), t_struct([U32, U32]), t_struct([U64, U64]),
                t_struct([U16, U16, U16]), t_struct([U64]), t_struct([U8, U16]), t_struct([I64, I64, I64])]
PAYLOADS = [  # enum payloads by size: 0,1,2,3,4,5,7,8,9,12,16
    None, U8, U16, t_array(3, U8), U32, t_struct([I32, I8]), t_array(7, U8), U64,
    t_struct([I64, I8]), t_struct([U64, U32]), t_struct([U64, U64]), t_array(5, U8), t_struct([U16, U8]),
]


def struct_of_size(n, flavor):
    """A struct type whose size is exactly n bytes (1 <= n <= 64)."""
    if flavor == "bytes":
        return t_struct([U8] * n) if n <= 8 else t_struct([t_array(n, U8)])
    fields = []
    rest = n
    if flavor == "float":
        fields += [{"k": "float", "t": "f64"}] * (rest // 8)
        rest %= 8
        if rest >= 4:
            fields.append({"k": "float", "t": "f32"})
            rest -= 4
    for t, s in ((U64, 8), (U32, 4), (U16, 2), (U8, 1)):
        while rest >= s:
            fields.append(t)
            rest -= s
    return t_struct(fields)


def gen_small_struct(rng):
    if rng.chance(3, 5):
        return rng.choice(ODD_STRUCTS)
    if rng.chance(1, 2):
        return rng.choice(EVEN_STRUCTS)
    n = rng.range(1, 5)
    fields = []
    for _ in range(n):
        if rng.chance(1, 6):
            fields.append(rng.choice(ODD_STRUCTS))
        elif rng.chance(1, 6):
            fields.append(t_array(rng.range(1, 4), rng.choice([U8, U16, U32])))
        else:
            fields.append(rng.choice(SCALARS))
    return t_struct(fields)


def gen_array(rng):
    if rng.chance(1, 3):
        return t_array(rng.range(1, 4), gen_small_struct(rng))
    return t_array(rng.range(1, 8), rng.choice([U8, U16, U32, U64, I8, I16, I32, I64, T_BOOL]))


def gen_enum(rng):
    nv = rng.range(2, 5)
    vs = [rng.choice(PAYLOADS) for _ in range(nv)]
    if all(v is None for v in vs):
        vs[rng.below(nv)] = rng.choice(PAYLOADS[1:])
    return t_enum(vs)


def gen_opt(rng):
    return t_opt(rng.choice([I32, U8, U16, U64, T_BOOL, t_struct([I64, I8]), t_struct([I32, I32]),
                             t_array(3, U8), t_struct([I32, I8]), t_array(6, U16), t_struct([U8]),
                             t_array(7, U8), t_struct([U64, U64])]))


ERR_STRUCT = t_struct([U8], names=["code"])


def gen_eu(rng):
    if rng.chance(1, 2):
        return t_eu(T_STR, rng.choice([U8, U16, I32, U64, t_struct([I64, I8]), t_array(3, U8),
                                       t_struct([U64, U64]), t_struct([I32, I8])]))
    return t_eu(ERR_STRUCT, rng.choice([U16, I32, U64, t_array(3, U16), t_array(9, U8)]))


def _distinct_value(rng, ty, other, small=False):
    for _ in range(20):
        v = gen_value(rng, ty, small)
        if v != other:
            return v
    return v


CONTAINERS = ["field", "field", "lit", "elem", "local"]
KINDS = ["self_ref_literal", "alias_assign", "scalar_store", "struct_assign", "array_assign", "variant_to_enum", "enum_assign",
         "payload_to_opt", "nil_to_opt", "opt_assign", "ok_to_eu", "err_to_eu", "eu_assign",
         "struct_cast", "array_cast", "default", "arg", "ret_store", "alias_ret"]


def _store_block(rng, kind, ty, src, container=None):
    b = {"kind": kind, "container": container or rng.choice(CONTAINERS), "ty": ty, "src": src}
    b["init"] = gen_value(rng, ty)
    b["new"] = _distinct_value(rng, ty, b["init"])
    if b["container"] == "elem":
        b["n0"] = gen_value(rng, ty)
        b["n2"] = gen_value(rng, ty)
    if src in ("local", "field") and rng.chance(1, 2):
        b["mutate_src_after"] = True
    if src == "call":
        b["lead"] = rng.choice([0, 0, 1, 5, 6])
        b["ret_via_local"] = bool(rng.below(2))
    return b


def gen_block(rng, kind=None):
    kind = kind or rng.choice(KINDS)
    agg_src = ["literal", "local", "field", "call"]
    if kind == "scalar_store":
        return _store_block(rng, kind, rng.choice(SCALARS), rng.choice(["literal", "local"]))
    if kind == "struct_assign":
        return _store_block(rng, kind, gen_small_struct(rng), rng.choice(agg_src))
    if kind == "array_assign":
        return _store_block(rng, kind, gen_array(rng), rng.choice(agg_src))
    if kind == "variant_to_enum":
        ty = gen_enum(rng)
        b = _store_block(rng, kind, ty, rng.choice(["literal", "literal", "payload_var"]))
        if b["src"] == "payload_var" and ty["variants"][b["new"][0]] is None:
            b["src"] = "literal"
        return b
    if kind == "enum_assign":
        return _store_block(rng, kind, gen_enum(rng), rng.choice(["local", "field", "call"]))
    if kind in ("payload_to_opt", "nil_to_opt", "opt_assign"):
        ty = gen_opt(rng)
        if kind == "opt_assign":
            return _store_block(rng, kind, ty, rng.choice(["local", "field", "call"]))
        b = _store_block(rng, kind, ty, "literal")
        if kind == "nil_to_opt":
            b["init"] = {"some": gen_value(rng, ty["sub"])}
            b["new"] = None
        else:
            b["init"] = None if rng.chance(1, 2) else {"some": gen_value(rng, ty["sub"])}
            b["new"] = {"some": _distinct_value(rng, ty["sub"], (b["init"] or {}).get("some"))}
            b["src"] = rng.choice(["literal", "payload_var"])
        return b
    if kind in ("ok_to_eu", "err_to_eu", "eu_assign"):
        ty = gen_eu(rng)
        if kind == "eu_assign":
            return _store_block(rng, kind, ty, rng.choice(["local", "field", "call"]))
        b = _store_block(rng, kind, ty, rng.choice(["literal", "payload_var"]))
        which = "ok" if kind == "ok_to_eu" else "err"
        other = "err" if which == "ok" else "ok"
        b["init"] = {other: gen_value(rng, ty[other])} if rng.chance(1, 2) else {which: gen_value(rng, ty[which])}
        b["new"] = {which: _distinct_value(rng, ty[which], b["init"].get(which))}
        return b
    if kind == "struct_cast":
        n = rng.range(1, 5)
        ints = [U8, I16, U16, I32, U32, I64, U64]
        to_f = [rng.choice(ints) for _ in range(n)]
        perm = list(range(n))
        for i in range(n - 1, 0, -1):
            j = rng.below(i + 1)
            perm[i], perm[j] = perm[j], perm[i]
        to_names = ["m%d" % i for i in range(n)]
        from_f = [rng.choice(ints) for _ in range(n)]
        ty = t_struct(to_f, to_names)
        fty = t_struct(from_f, [to_names[p] for p in perm])
        if json.dumps(ty, sort_keys=True) == json.dumps(fty, sort_keys=True):
            fty["fields"][0] = I64 if fty["fields"][0] != I64 else I32
        fval = [rng.range(1, 100) for _ in range(n)]
        new = [None] * n
        for pos, p in enumerate(perm):
            new[p] = fval[pos]
        b = {"kind": kind, "container": rng.choice(CONTAINERS), "ty": ty, "src": "cast",
             "from_ty": fty, "from_val": fval, "init": gen_value(rng, ty, True), "new": new}
        if b["container"] == "elem":
            b["n0"], b["n2"] = gen_value(rng, ty, True), gen_value(rng, ty, True)
        return b
    if kind == "array_cast":
        ints = [U8, I16, U16, I32, U32, I64, U64]
        n = rng.range(1, 6)
        a, c = rng.choice(ints), rng.choice(ints)
        if a == c:
            c = U64 if a != U64 else U8
        ty, fty = t_array(n, c), t_array(n, a)
        fval = [rng.range(1, 100) for _ in range(n)]
        b = {"kind": kind, "container": rng.choice(CONTAINERS), "ty": ty, "src": "cast",
             "from_ty": fty, "from_val": fval, "init": gen_value(rng, ty, True), "new": list(fval)}
        if b["container"] == "elem":
            b["n0"], b["n2"] = gen_value(rng, ty, True), gen_value(rng, ty, True)
        return b
    if kind == "alias_assign":
        ty = rng.choice([gen_small_struct(rng), gen_array(rng), gen_enum(rng), gen_opt(rng), gen_eu(rng),
                         struct_of_size(rng.range(1, 65), "desc")])
        init = gen_value(rng, ty)
        path, pty, idx = "", ty, None
        if ty["k"] == "struct":
            idx = rng.below(len(ty["fields"]))
            path, pty = "." + field_names(ty)[idx], ty["fields"][idx]
        elif ty["k"] == "array":
            idx = rng.below(ty["n"])
            path, pty = "[%d]" % idx, ty["elem"]
        cur = init if idx is None else init[idx]
        nb = _distinct_value(rng, pty, cur)
        na = _distinct_value(rng, pty, nb)
        if idx is None:
            val_b, val_a = nb, na
        else:
            val_b, val_a = list(init), list(init)
            val_b[idx], val_a[idx] = nb, na
        return {"kind": kind, "container": "local", "ty": ty, "src": "self", "init": init, "path": path,
                "path_ty": pty, "path_new_b": nb, "path_new_a": na, "val_b": val_b, "val_a": val_a}
    if kind == "self_ref_literal":
        n = rng.range(2, 5)
        et = rng.choice([U8, U16, I32, U64, t_struct([U16, U8])])
        ty = t_struct([et] * n) if rng.chance(1, 2) else t_array(n, et)
        perm = list(range(1, n)) + [0] if rng.chance(1, 2) else list(reversed(range(n)))
        return {"kind": kind, "container": "local", "ty": ty, "src": "self", "perm": perm,
                "init": [gen_value(rng, et) for _ in range(n)]}
    if kind == "default":
        ty = rng.choice([gen_small_struct(rng), gen_array(rng), rng.choice(SCALARS), gen_opt(rng),
                         t_array(3, gen_opt(rng)), t_struct([U8, gen_opt(rng)])])
        return {"kind": kind, "container": "local", "ty": ty, "src": "default", "new": zero_value(ty)}
    if kind in ("arg", "alias_ret", "ret_store"):
        n = rng.range(1, 65)
        flavor = rng.choice(["desc", "desc", "bytes", "float"])
        ty = struct_of_size(n, flavor)
        if rng.chance(1, 5):
            ty = rng.choice([gen_enum(rng), gen_opt(rng), gen_array(rng), gen_small_struct(rng)])
        if kind == "ret_store":
            b = _store_block(rng, kind, ty, "call")
        else:
            b = _store_block(rng, kind, ty, "ptr", container="field")
            b["lead"] = rng.choice([0, 0, 1, 4, 5, 6])
        b["size_class"] = size_of(ty)
        return b
    raise ValueError(kind)


def zero_value(ty):
    k = ty["k"]
    if k == "int":
        return 0
    if k == "bool":
        return False
    if k == "float":
        return 0.0
    if k == "struct":
        return [zero_value(f) for f in ty["fields"]]
    if k == "array":
        return [zero_value(ty["elem"]) for _ in range(ty["n"])]
    if k == "opt":
        return None
    raise ValueError("no default for " + k)


def gen_blocks(rng, n, kinds=None):
    return [gen_block(rng, rng.choice(kinds) if kinds else None) for _ in range(n)]


def describe(block):
    """Short human-readable shape description used as table key."""
    ty = block["ty"]

    def d(t):
        if t is None:
            return "-"
        k = t["k"]
        if k in ("int", "float"):
            return t["t"]
        if k in ("bool", "str"):
            return k
        if k == "struct":
            return "{" + ",".join(d(f) for f in t["fields"]) + "}"
        if k == "array":
            return "[%d]%s" % (t["n"], d(t["elem"]))
        if k == "enum":
            return "enum(" + "|".join(d(v) for v in t["variants"]) + ")"
        if k == "opt":
            return "?" + d(t["sub"])
        return d(t["err"]) + "!" + d(t["ok"])
    s, a = layout(ty)
    return "%s size=%d align=%d stride=%d" % (d(ty), s, a, stride(ty))


def _literal_write_hi(ty, val, d1_fixed=False):
    """End (exclusive, relative to the object) of the bytes written when `val` is stored into an
    object of type ty from a literal expression, by the unchanged compiler; and the byte value
    (0 or None = unspecified stack bytes) of what lands beyond the object."""
    S = size_of(ty)
    k = ty["k"]
    if k == "enum":
        if not d1_fixed:
            return S + 7, 0                   # D1: 8-byte tag store at tag_offset = S - 1
        vt = ty["variants"][val[0]]           # with a 1-byte tag store only the payload copy remains
        if vt is not None and is_aggregate(vt):
            return max(S, stride(vt)), None
        return S, None
    if k == "opt" and val is not None and is_aggregate(ty["sub"]):
        return max(S, stride(ty["sub"])), None    # D2 on the payload copy
    if k == "eu":
        which = "err" if "err" in val else "ok"
        if is_aggregate(ty[which]):
            return max(S, stride(ty[which])), None
    return S, None


def predict_clobber(block, d1_fixed=False):
    """Footprint of the unchanged compiler (d1_fixed=True: with the enum tag stored as one byte),
    derived from the defects reproduced by hand:
    {"post": {guard_index: value|None}, "src_post": {...}, "n2": bool, "value_wrong": bool}.
    guard_index is relative to the first guard after the object: for the field/lit containers the
    guard g_i is the byte at offset size(T)+i of the object; for the local container byte i of
    (g0,g1) is at offset roundup(size(T),8)+i (Cranelift lays stack slots out 8-aligned)."""
    ty, kind, cont, src = block["ty"], block["kind"], block["container"], block.get("src")
    S, R = size_of(ty), stride(ty)
    res = {"post": {}, "pre": {}, "src_post": {}, "n2": False, "value_wrong": kind == "self_ref_literal"}
    if kind in ("default", "self_ref_literal", "alias_assign"):
        return res
    if kind in ("arg", "alias_ret") or src in ("literal", "payload_var"):
        hi, val = _literal_write_hi(ty, block["new"], d1_fixed)
        vals = {j: val for j in range(S, hi)}
    else:                                     # the value is copied from memory: stride bytes (D2)
        vals = {j: (SPOST0 + j - S if src == "field" else None) for j in range(S, R)}
    base = S if cont in ("field", "lit") else (S + 7) // 8 * 8
    if cont == "elem":
        res["n2"] = any(j >= R for j in vals)
    else:
        for j, v in vals.items():
            if j >= base and j - base < N_POST:
                res["post"][j - base] = v
    if block.get("mutate_src_after") and src == "local" and cont == "lit":
        # `s = <literal>` after the container literal: s's stack slot is directly followed by c's
        hi, val = _literal_write_hi(ty, block["init"], d1_fixed)
        for j in range((S + 7) // 8 * 8, hi):
            if j - (S + 7) // 8 * 8 < N_PRE:
                res["pre"][j - (S + 7) // 8 * 8] = val
    if block.get("mutate_src_after") and src == "field":
        hi, val = _literal_write_hi(ty, block["init"], d1_fixed)
        for j in range(S, hi):
            res["src_post"][j - S] = val
    return res


class Rng:
    """splitmix64 with the interface the generators need."""

    def __init__(self, seed):
        self.s = seed & 0xFFFFFFFFFFFFFFFF

    def next(self):
        self.s = (self.s + 0x9E3779B97F4A7C15) & 0xFFFFFFFFFFFFFFFF
        z = self.s
        z = ((z ^ (z >> 30)) * 0xBF58476D1CE4E5B9) & 0xFFFFFFFFFFFFFFFF
        z = ((z ^ (z >> 27)) * 0x94D049BB133111EB) & 0xFFFFFFFFFFFFFFFF
        return z ^ (z >> 31)

    def below(self, n):
        return self.next() % n

    def range(self, lo, hi):
        return lo + self.below(hi - lo)

    def choice(self, seq):
        return seq[self.below(len(seq))]

    def chance(self, num, den):
        return self.below(den) < num


if __name__ == "__main__":
    import sys
    import tempfile
    seed = int(sys.argv[1]) if len(sys.argv) > 1 else 1
    nblocks = int(sys.argv[2]) if len(sys.argv) > 2 else 8
    capy = sys.argv[3] if len(sys.argv) > 3 else "/verif/.cache/target/debug/capy"
    prog = build_program(gen_blocks(Rng(seed), nblocks))
    wd = tempfile.mkdtemp(prefix="c02-e2e-")
    try:
        res = run_program(capy, prog, wd)
        print(json.dumps({k: res[k] for k in ("status", "changed", "detail")}, indent=1))
    finally:
        shutil.rmtree(wd, ignore_errors=True)
