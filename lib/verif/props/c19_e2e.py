"""C19 end-to-end oracle: generated FFI programs, Capy <-> host gcc (x86-64 System V).

Self-contained (stdlib only).  For every generated signature both call directions are
exercised against functions compiled by the host gcc:

  to_c    Capy calls `extern` C function `c_f<i>`; C prints every received leaf value and
          returns a constant; Capy prints every leaf of the result.
  from_c  C (`c_call<i>`) calls the Capy function `cb<i>` through a function pointer; Capy
          prints every received leaf; C prints every leaf of the returned value.  When the
          return value is of class MEMORY the C side additionally calls the callback through a
          raw `void *(*)(R *, P...)` type and checks that %rax holds the sret pointer.

All printing goes through C helpers `p_<scalar>(tag, v)` ("tag=value\\n", flushed), so the
transcript does not depend on Capy's formatting or casts.  The expected transcript is computed
by the generator.

Public API
  gen_signature(rng)            random signature (rng: below/range/choice/chance only)
  gen_directed()                fixed corpus of hand-picked signatures
  build_program(sigs, values_seed, directions=("to_c","from_c"), sret_rax_check=True,
                styles=True, page_end=False) -> {"capy","c","expected","sigs",...}
  run_program(capy_exe, prog, workdir, cflags=("-O0",)) -> {"status","stdout","detail","diff"}
  describe_tag(prog, tag)       sig index / direction / phase / parameter / leaf of a tag
  shrink(capy_exe, prog_or_sigs, values_seed=None, cflags=("-O0",), root=None, minimise=True,
         opts=None)             minimal failing (signature, direction) items
  failure_class(item)           narrow syntactic class name of a shrunk item
  run_campaign(capy_exe, programs, cflag_sets, jobs, root, log, opts) -> (results, items)
  summarise(items)              distinct minimal failing signatures grouped by class
  classify(ty) / assign(sig) / overread(ty, where) / c_layout(ty) / leaves(ty)   reference ABI helpers
  python3 c19_e2e.py N SEED     directed corpus + N random programs, -O0 and -O2, then a
                                page_end pass over the first C19_PAGE_END (default 12, 0 = off) programs; CAPY_EXE overrides the compiler

Limits of what is expressed: integer values exclude each signed type's minimum (no Capy
literal), 64-bit values stay below 2^62 in magnitude, `char` values are printable ASCII
without ' and \\, floats are multiples of 1/8 in (-4096, 4096).

Type AST (JSON-serialisable)
  scalar : one of SCALARS
  field  : scalar | ["arr", n, scalar]
  struct : {"struct": [field, ...]}          1-5 fields, C sizeof 1..64
  ty     : scalar | struct | "void" (return only)
  sig    : {"params": [ty, ...], "ret": ty}  0-8 params

Tag layout:  tag = sig_index * 100000 + phase * 10000 + site
  phase 0  to_c   : argument leaf as received by C
  phase 1  to_c   : result leaf as received by Capy
  phase 2  from_c : argument leaf as received by Capy
  phase 3  from_c : result leaf as received by C
  phase 4  from_c : site 0 = "%rax == sret pointer" (1/0) after a raw call
  phase 5  (only on failure) "<tag>=misaligned-stack": a C function was entered from Capy with
           %rsp+8 not 16-byte aligned (site 0: c_f<i>, site 1: c_call<i>; the p_* helpers report
           it under the tag of their print site)
"""
import json
import os
import shutil
import subprocess
import sys
import tempfile
import time
from concurrent.futures import ThreadPoolExecutor

MASK = (1 << 64) - 1
RUN_TIMEOUT = 10      # seconds for one generated executable; the check raises it when it re-runs a suspect
REPO = os.environ.get("VERIF_REPO", "/repo")

# name -> (size, class, C type, Capy type)
SCALARS = {
    "i8": (1, "I", "int8_t", "i8"),
    "u8": (1, "I", "uint8_t", "u8"),
    "i16": (2, "I", "int16_t", "i16"),
    "u16": (2, "I", "uint16_t", "u16"),
    "i32": (4, "I", "int32_t", "i32"),
    "u32": (4, "I", "uint32_t", "u32"),
    "i64": (8, "I", "int64_t", "i64"),
    "u64": (8, "I", "uint64_t", "u64"),
    "isize": (8, "I", "long", "isize"),
    "usize": (8, "I", "unsigned long", "usize"),
    "f32": (4, "F", "float", "f32"),
    "f64": (8, "F", "double", "f64"),
    "bool": (1, "I", "_Bool", "bool"),
    "char": (1, "I", "unsigned char", "char"),
    "rawptr": (8, "I", "void *", "rawptr"),
    "optptr": (8, "I", "void *", "?rawptr"),
}
SCALAR_NAMES = list(SCALARS)
INT_SCALARS = [s for s in SCALAR_NAMES if SCALARS[s][1] == "I"]
FLOAT_SCALARS = ["f32", "f64"]
SMALL_INTS = ["i8", "u8", "i16", "u16", "bool", "char"]
PHASES = {0: ("to_c", "argument received by C"),
          1: ("to_c", "result received by Capy"),
          2: ("from_c", "argument received by Capy"),
          3: ("from_c", "result received by C"),
          4: ("from_c", "%rax == sret pointer after raw call"),
          5: ("to_c", "stack alignment at entry of a C function called from Capy")}


# --------------------------------------------------------------------------- types

def is_struct(ty):
    return isinstance(ty, dict)


def is_arr(f):
    return isinstance(f, (list, tuple))


def field_layout(f):
    if is_arr(f):
        sz = SCALARS[f[2]][0]
        return f[1] * sz, sz
    sz = SCALARS[f][0]
    return sz, sz


def c_layout(ty):
    """(size, align, [field offsets]) under the host C layout rules."""
    if not is_struct(ty):
        sz = SCALARS[ty][0]
        return sz, sz, []
    off, al, offs = 0, 1, []
    for f in ty["struct"]:
        s, a = field_layout(f)
        off = (off + a - 1) // a * a
        offs.append(off)
        off += s
        al = max(al, a)
    return (off + al - 1) // al * al, al, offs


def sizeof(ty):
    return 0 if ty == "void" else c_layout(ty)[0]


def valid_struct(ty):
    fs = ty["struct"]
    if not 1 <= len(fs) <= 5:
        return False
    for f in fs:
        if is_arr(f) and f[1] < 1:
            return False
    return 1 <= sizeof(ty) <= 64


def leaves(ty):
    """[(path, scalar)]; the path is valid both in C and in Capy (`.f0`, `.f1[2]`)."""
    if ty == "void":
        return []
    if not is_struct(ty):
        return [("", ty)]
    out = []
    for i, f in enumerate(ty["struct"]):
        if is_arr(f):
            for k in range(f[1]):
                out.append((".f%d[%d]" % (i, k), f[2]))
        else:
            out.append((".f%d" % i, f))
    return out


def classify(ty):
    """System V classification: "MEMORY" or a list of "INT"/"SSE" per eightbyte."""
    size, _, offs = c_layout(ty)
    if not is_struct(ty):
        return ["SSE" if SCALARS[ty][1] == "F" else "INT"]
    if size > 16:
        return "MEMORY"
    cls = [None] * ((size + 7) // 8)
    for f, off in zip(ty["struct"], offs):
        sc = f[2] if is_arr(f) else f
        n = f[1] if is_arr(f) else 1
        ssz = SCALARS[sc][0]
        for k in range(n):
            eb = (off + k * ssz) // 8
            c = "SSE" if SCALARS[sc][1] == "F" else "INT"
            cls[eb] = "INT" if "INT" in (cls[eb], c) else "SSE"
    return [c or "SSE" for c in cls]


def assign(sig):
    """Reference System V assignment: [(where, classes)] per param, where in reg/stack."""
    ints, sses = 6, 8
    if sig["ret"] != "void" and classify(sig["ret"]) == "MEMORY":
        ints -= 1
    out = []
    for p in sig["params"]:
        c = classify(p)
        if c == "MEMORY":
            out.append(("stack", c))
            continue
        ni, ns = c.count("INT"), c.count("SSE")
        if ni <= ints and ns <= sses:
            ints -= ni
            sses -= ns
            out.append(("reg", c))
        else:
            out.append(("stack", c))
    return out


def overread(ty, where):
    """Bytes read past the end of a struct argument by the marshalling in
    codegen/src/convert/abi (x86_64.rs reg_component / fn_ty_to_abi): register words are
    rounded up to a power of two, stack copies to a multiple of 8."""
    size = sizeof(ty)
    if where == "stack":
        return (size + 7) // 8 * 8 - size
    last = size - 8 if size > 8 else size
    cls = classify(ty)[-1]
    if cls == "SSE":
        w = 4 if last == 4 else 8
    else:
        w = 1
        while w < last:
            w *= 2
    return (size - last) + w - size


def ty_str(ty):
    if not is_struct(ty):
        return ty
    return "{" + ",".join(("[%d]%s" % (f[1], f[2])) if is_arr(f) else f for f in ty["struct"]) + "}"


def sig_str(sig):
    return "(" + ", ".join(ty_str(p) for p in sig["params"]) + ") -> " + ty_str(sig["ret"])


def S(*fields):
    return {"struct": [list(f) if is_arr(f) else f for f in fields]}


def A(n, sc):
    return ["arr", n, sc]


# --------------------------------------------------------------------------- generation

CURATED_STRUCTS = [
    # all-float
    S("f32"), S("f64"), S("f32", "f32"), S("f32", "f32", "f32"), S("f32", "f32", "f32", "f32"),
    S("f64", "f64"), S("f32", "f64"), S("f64", "f32"), S("f32", "f32", "f64"), S("f64", "f32", "f32"),
    S(A(1, "f32")), S(A(2, "f32")), S(A(3, "f32")), S(A(4, "f32")), S(A(2, "f64")), S(A(1, "f64")),
    # mixed per eightbyte
    S("i32", "f32"), S("f32", "i32"), S("f64", "i32"), S("i32", "f64"), S("i64", "f64"), S("f64", "i64"),
    S("f32", "i8"), S("i8", "f32"), S("f32", "f32", "i32"), S("i32", "f32", "f32"), S("f32", "i32", "f32"),
    S("f64", "i8"), S("u8", "f64"), S("f32", "f32", "i64"), S("i64", "f32", "f32"), S("f64", "rawptr"),
    S("optptr", "f32"), S("f32", "u16", "f32"), S(A(2, "f32"), "i32"), S("i16", A(3, "f32")),
    # odd sizes
    S("i8"), S("u8", "u8"), S("i8", "i8", "i8"), S(A(3, "u8")), S("u16", "u8"), S("i8", "i8", "i8", "i8", "i8"),
    S(A(5, "u8")), S("i16", "i16", "i16"), S(A(3, "u16")), S(A(6, "i8")), S(A(7, "u8")), S("u32", "u16"),
    S("i32", "i8"), S("i64", "i8"), S(A(9, "u8")), S("i64", "u8", "u8"), S(A(5, "u16")), S(A(10, "i8")),
    S(A(11, "u8")), S("i64", "i16", "i8"), S(A(3, "i32")), S("i32", "i32", "i32"), S(A(13, "u8")),
    S("i64", "i32", "i8"), S(A(7, "u16")), S(A(14, "i8")), S(A(15, "u8")), S("i64", "i32", "i16", "i8"),
    S("bool", "char"), S("bool", "char", "bool"), S(A(3, "bool")), S(A(5, "char")),
    # two INT eightbytes
    S("i64", "i64"), S("rawptr", "optptr"), S("i64", "i32"), S("i32", "i64"), S("u64", "u16"),
    S(A(2, "i64")), S(A(4, "i32")), S(A(16, "u8")), S("optptr"), S("rawptr"), S("optptr", "optptr"),
    # memory class
    S("i64", "i64", "i64"), S("f64", "f64", "f64"), S(A(3, "f64")), S(A(17, "u8")), S("i64", A(2, "f64")),
    S(A(5, "f32")), S("f32", "f32", "f32", "f32", "f32"), S("i64", "i64", "i8"), S(A(8, "i64")),
    S(A(64, "u8")), S(A(16, "f32")), S("f64", "i64", "f64", "i64"), S(A(3, "i64"), "f32"),
    S("i32", A(5, "f32")), S(A(24, "u8")), S("rawptr", "optptr", "i32"), S(A(33, "i8")),
    S("i8", "i64", "i8"), S("u16", A(9, "u16")), S(A(6, "i32")),
]


def gen_field(rng, pool):
    if rng.chance(1, 4):
        sc = rng.choice(pool)
        n = rng.range(1, max(1, min(9, 64 // SCALARS[sc][0])))
        if rng.chance(1, 8):
            n = rng.range(1, 64 // SCALARS[sc][0])
        return ["arr", n, sc]
    return rng.choice(pool)


def gen_struct(rng, kind=None):
    """kind: None|"curated"|"int"|"float"|"mixed"|"small"|"big"|"reg" (<=16 bytes)."""
    if kind is None:
        kind = rng.choice(["curated", "curated", "int", "float", "mixed", "mixed", "small", "big", "reg"])
    if kind == "curated":
        return json.loads(json.dumps(rng.choice(CURATED_STRUCTS)))
    for _ in range(200):
        if kind == "int":
            pool = INT_SCALARS
        elif kind == "float":
            pool = FLOAT_SCALARS
        elif kind == "small":
            pool = ["i8", "u8", "i16", "u16", "bool", "char", "i32", "f32"]
        else:
            pool = SCALAR_NAMES
        ty = {"struct": [gen_field(rng, pool) for _ in range(rng.range(1, 5))]}
        if not valid_struct(ty):
            continue
        sz = sizeof(ty)
        if kind in ("small", "reg") and sz > 16:
            continue
        if kind == "big" and sz <= 16:
            continue
        return ty
    return S("i64", "f64")


def gen_reg_struct(rng, want):
    """A <=16-byte struct whose classes are exactly `want` (e.g. ["INT","SSE"])."""
    for _ in range(400):
        ty = gen_struct(rng, rng.choice(["curated", "reg", "mixed", "small", "float", "int"]))
        if classify(ty) == want:
            return ty
    table = {("INT",): S("i32", "i16"), ("SSE",): S("f32", "f32"), ("INT", "INT"): S("i64", "i32"),
             ("INT", "SSE"): S("i64", "f64"), ("SSE", "INT"): S("f64", "i64"), ("SSE", "SSE"): S("f64", "f64")}
    return table[tuple(want)]


def gen_scalar(rng, cls=None):
    if cls == "I":
        return rng.choice(INT_SCALARS)
    if cls == "F":
        return rng.choice(FLOAT_SCALARS)
    return rng.choice(SCALAR_NAMES)


def gen_ret(rng):
    k = rng.below(10)
    if k == 0:
        return "void"
    if k <= 3:
        return gen_scalar(rng)
    if k <= 5:
        return gen_reg_struct(rng, rng.choice([["INT"], ["SSE"], ["INT", "INT"], ["INT", "SSE"],
                                               ["SSE", "INT"], ["SSE", "SSE"]]))
    if k <= 7:
        return gen_struct(rng, "big")
    return gen_struct(rng)


def gen_signature(rng):
    theme = rng.below(9)
    params = []
    ret = gen_ret(rng)
    if theme == 0:      # scalars only (includes 0 params, >6 ints, >8 floats impossible with 8 params)
        params = [gen_scalar(rng) for _ in range(rng.range(0, 8))]
    elif theme == 1:    # one or two structs
        params = [gen_struct(rng) for _ in range(rng.range(1, 2))]
    elif theme == 2:    # integer registers run out around a struct
        free = 6 - (1 if ret != "void" and classify(ret) == "MEMORY" else 0)
        left = rng.range(0, 1)                  # integer registers left when the struct arrives
        params = [gen_scalar(rng, "I") for _ in range(free - left)]
        want = [["INT", "INT"], ["INT", "SSE"], ["SSE", "INT"]] if left else \
            [["INT", "INT"], ["INT"], ["INT", "SSE"], ["SSE", "INT"]]
        params.append(gen_reg_struct(rng, rng.choice(want)))       # does not fit: whole struct on the stack
        params.append(gen_scalar(rng, "I"))                        # takes the last register / stack
        while len(params) < 8 and rng.chance(3, 4):
            params.append(gen_scalar(rng) if rng.chance(2, 3) else gen_struct(rng, "reg"))
    elif theme == 3:    # SSE registers run out
        used = 0
        while used < 6 and len(params) < 5:
            if rng.chance(1, 2):
                params.append(gen_reg_struct(rng, ["SSE", "SSE"]))
                used += 2
            else:
                params.append(gen_scalar(rng, "F"))
                used += 1
        while used < 7:
            params.append(gen_scalar(rng, "F"))
            used += 1
        if rng.chance(2, 3):                    # one SSE register left: struct goes to the stack
            params.append(gen_reg_struct(rng, rng.choice([["SSE", "SSE"], ["SSE", "SSE"], ["INT", "SSE"], ["SSE"]])))
        while len(params) < 8:
            params.append(gen_scalar(rng, "F") if rng.chance(2, 3) else gen_scalar(rng))
    elif theme == 4:    # anything
        for _ in range(rng.range(0, 8)):
            params.append(gen_struct(rng) if rng.chance(1, 2) else gen_scalar(rng))
    elif theme == 5:    # sret return + enough ints to notice the missing register
        ret = gen_struct(rng, "big")
        params = [gen_scalar(rng, "I") for _ in range(rng.range(4, 6))]
        while len(params) < 8 and rng.chance(3, 4):
            params.append(gen_struct(rng, "reg") if rng.chance(1, 2) else gen_scalar(rng))
    elif theme == 6:    # small odd-sized structs, several of them
        params = [gen_struct(rng, rng.choice(["small", "curated"])) for _ in range(rng.range(1, 8))]
    elif theme == 7:    # structs everywhere: stack structs followed by register scalars
        for _ in range(rng.range(4, 8)):
            params.append(gen_struct(rng, rng.choice(["reg", "reg", "big", "curated"])))
        j = rng.below(len(params))
        params[j] = gen_scalar(rng)
    else:               # small ints / bool / char, possibly on the stack
        for _ in range(rng.range(1, 8)):
            params.append(rng.choice(SMALL_INTS))
    sig = {"params": params[:8], "ret": ret}
    check_sig(sig)
    return sig


def check_sig(sig):
    assert 0 <= len(sig["params"]) <= 8
    for t in sig["params"] + [sig["ret"]]:
        if is_struct(t):
            assert valid_struct(t), t
        elif t == "void":
            assert t is sig["ret"] or t == sig["ret"]
        else:
            assert t in SCALARS, t


def gen_directed():
    """Hand-picked corpus covering every case named in the property statement."""
    I, F, D = "i64", "f32", "f64"
    big = S("i64", "i64", "i64")
    out = []

    def sig(params, ret):
        out.append({"params": list(params), "ret": ret})

    # zero parameters, every scalar return
    for sc in SCALAR_NAMES:
        sig([], sc)
    sig([], "void")
    # every scalar as single param and identity-like return
    for sc in SCALAR_NAMES:
        sig([sc], sc)
    # all scalars small ints in a row
    sig(["i8", "u8", "i16", "u16", "bool", "char", "i8", "u8"], "i8")
    sig(["bool", "bool", "bool", "bool", "bool", "bool", "bool", "bool"], "bool")
    sig(["i8"] * 8, "i16")
    sig(["u16"] * 8, "u8")
    sig(["char"] * 8, "char")
    # 7th/8th integer on the stack, 8 floats
    sig([I] * 8, I)
    sig(["i32"] * 8, "i32")
    sig([F] * 8, F)
    sig([D] * 8, D)
    sig([I, D, I, D, I, D, I, D], D)
    sig(["rawptr", "optptr", "rawptr", "optptr", "rawptr", "optptr", "rawptr", "optptr"], "optptr")
    # each curated struct: passed alone and returned
    for st in CURATED_STRUCTS:
        sig([st], st)
    # struct returns, all INT/SSE combinations, no params
    for st in (S("i64", "i64"), S("i64", "f64"), S("f64", "i64"), S("f64", "f64"), S("f32", "f32", "f32"),
               S("i32", "f32", "f32"), big, S(A(64, "u8"))):
        sig([], st)
    # integer registers exhausted: struct goes to the stack as a whole, later scalars take registers
    two = S("i64", "i64")
    sig([I, I, I, I, I, two, I], I)
    sig([I, I, I, I, I, two, I, I], two)
    sig([I, I, I, I, two, two, I], "void")
    sig([I, I, I, I, I, I, two, D], D)
    sig([I, I, I, I, I, S("i64", "f64"), I, D], "void")
    sig([I, I, I, I, I, I, S("i64", "f64"), D], "void")
    sig([I, I, I, I, I, I, S("f64", "i64"), I], "void")
    sig(["i32", "i32", "i32", "i32", "i32", S("i32", "i32", "i32"), "i32", "i32"], "i32")
    sig([I, I, I, I, I, S("i8", "i8", "i8"), S("i8", "i8", "i8"), I], "void")
    sig([two, two, two, two, I], two)
    sig([two, two, S("i64", "i32"), two, I, I], "void")
    # SSE registers exhausted
    dd = S("f64", "f64")
    sig([D, D, D, D, D, D, D, dd], D)
    sig([dd, dd, dd, dd, F, D, F], F)
    sig([dd, dd, dd, S("f32", "f32"), F, F, D], S("f32", "f32"))
    sig([I, I, I, I, I, I, "i8", "bool"], "bool")
    sig([I, I, I, I, I, I, "u16", "char"], "u16")
    sig([D, D, D, D, D, D, dd, D], dd)
    sig([dd, dd, dd, dd, D], dd)
    sig([dd, dd, dd, S("f32", "f32", "f32"), dd, F, D], "void")
    sig([F, F, F, F, F, F, F, S("f32", "f32", "f32")], F)
    sig([D, D, D, D, D, D, D, S("i64", "f64")], "void")
    sig([D, D, D, D, D, D, D, D], S("f32", "f64"))
    sig([D, D, D, D, D, D, D, S("f64", "i64")], "void")
    sig([D, D, D, D, D, D, D, D], I)
    # memory-class params mixed with scalars
    sig([big, I, D], "void")
    sig([I, big, D, big, I], big)
    sig([S(A(64, "u8")), "i8", S(A(17, "u8")), "u8"], "void")
    sig([big, big, big, big, big, big, big, big], big)
    # sret return: one fewer integer register
    sig([I, I, I, I, I], big)
    sig([I, I, I, I, I, I], big)
    sig([I, I, I, I, two], big)
    sig([I, I, I, I, two, I], big)
    sig([I, I, I, I, I, I, I, I], S(A(64, "u8")))
    sig([D, I, S("f64", "i64"), I, I, I, I], S("f64", "f64", "f64"))
    sig(["optptr", "rawptr", "optptr", "rawptr", "optptr", "rawptr"], S("rawptr", "optptr", "i32"))
    # odd-sized structs next to each other (over-wide register words)
    sig([S("i8", "i8", "i8"), S("i8", "i8", "i8"), S("i8", "i8", "i8")], S("i8", "i8", "i8"))
    sig([S(A(5, "u8")), S(A(6, "i8")), S(A(7, "u8")), S(A(3, "u8"))], S(A(5, "u8")))
    sig([S(A(11, "u8")), S(A(13, "u8")), S(A(9, "u8")), "u8"], S(A(11, "u8")))
    sig(["i8", S(A(3, "u8")), "i8", S(A(7, "u8")), "i16", S(A(15, "u8"))], S(A(15, "u8")))
    sig([S("i16", "i16", "i16"), S("u16", "u8"), "bool", S(A(5, "u16"))], S("i16", "i16", "i16"))
    # bool / char / optional pointers in structs
    sig([S("bool", "char"), S("optptr"), S("rawptr", "optptr"), "bool", "char"], S("bool", "char", "bool"))
    sig([S("optptr", "f32"), "optptr", S("f64", "rawptr")], S("optptr", "optptr"))
    for s_ in out:
        check_sig(s_)
    return out


# --------------------------------------------------------------------------- values

class _Vals:
    """splitmix64 stream of test values, distinct per site where the type allows."""

    def __init__(self, seed):
        self.s = seed & MASK

    def next(self):
        self.s = (self.s + 0x9E3779B97F4A7C15) & MASK
        z = self.s
        z = ((z ^ (z >> 30)) * 0xBF58476D1CE4E5B9) & MASK
        z = ((z ^ (z >> 27)) * 0x94D049BB133111EB) & MASK
        return z ^ (z >> 31)

    def below(self, n):
        return self.next() % n

    def raw(self, sc):
        bits = {"i8": 8, "u8": 8, "i16": 16, "u16": 16, "i32": 32, "u32": 32}.get(sc)
        if bits:
            top = self.below(2)
            lo = self.below(1 << (bits - 1))
            if sc[0] == "i":
                v = -(lo + 1) if top else lo
                if v == -(1 << (bits - 1)):     # the minimum has no literal in Capy
                    v += 1
                return v
            return lo + (top << (bits - 1))
        if sc in ("i64", "isize"):
            v = self.below(1 << 62)
            if self.below(4) == 0:
                v = self.below(1 << 20)
            return -v - 1 if self.below(2) else v
        if sc in ("u64", "usize"):
            return self.below(1 << 62) if self.below(4) else self.below(1 << 33)
        if sc in FLOAT_SCALARS:
            return self.below(65536) - 32768          # eighths
        if sc == "bool":
            return self.below(2)
        if sc == "char":
            while True:
                v = 33 + self.below(94)
                if v not in (39, 92):
                    return v
        if sc == "rawptr":
            return self.below(64)
        if sc == "optptr":
            return -1 if self.below(3) == 0 else self.below(64)
        raise ValueError(sc)

    def pick(self, sc, used):
        for _ in range(40):
            v = self.raw(sc)
            t = val_text(sc, v)
            if t not in used or sc == "bool":
                break
        used.add(t)
        return v


def val_text(sc, v):
    if sc in FLOAT_SCALARS:
        return "%.6f" % (v / 8.0)
    return "%d" % v


def capy_lit(sc, v):
    if sc in FLOAT_SCALARS:
        return "%.3f" % (v / 8.0)
    if sc == "bool":
        return "true" if v else "false"
    if sc == "char":
        return "'%s'" % chr(v)
    if sc == "rawptr":
        return "get_ptr(%d)" % v
    if sc == "optptr":
        return "nil" if v < 0 else "get_ptr(%d)" % v
    return "%d" % v


def c_lit(sc, v):
    if sc == "f32":
        return "%.3ff" % (v / 8.0)
    if sc == "f64":
        return "%.3f" % (v / 8.0)
    if sc in ("rawptr", "optptr"):
        return "(void *)0" if v < 0 else "(void *)(g_mem + %d)" % v
    if sc in ("u64", "usize"):
        return "%dUL" % v
    if sc in ("i64", "isize"):
        return "%dL" % v
    if sc == "u32":
        return "%dU" % v
    return "(%s)%d" % (SCALARS[sc][2], v)


def gen_vals(vs, ty, used):
    """Value tree: scalar -> v; struct -> [field values], array field -> [v...]."""
    if ty == "void":
        return None
    if not is_struct(ty):
        return vs.pick(ty, used)
    out = []
    for f in ty["struct"]:
        if is_arr(f):
            out.append([vs.pick(f[2], used) for _ in range(f[1])])
        else:
            out.append(vs.pick(f, used))
    return out


def flat_vals(ty, vals):
    if ty == "void":
        return []
    if not is_struct(ty):
        return [vals]
    out = []
    for f, v in zip(ty["struct"], vals):
        out.extend(v if is_arr(f) else [v])
    return out


# --------------------------------------------------------------------------- program text

PTR_FLAVOURS = ["rawptr", "mut rawptr", "^i32", "^mut u8"]


class _Names:
    def __init__(self, ptr="rawptr"):
        self.structs = {}
        self.order = []
        self.ptr = ptr

    def sc(self, sc):
        """Capy spelling of a scalar type (pointer flavour applied)."""
        if sc == "rawptr":
            return self.ptr
        if sc == "optptr":
            return "?" + self.ptr
        return SCALARS[sc][3]

    def name(self, ty):
        key = json.dumps(ty)
        if key not in self.structs:
            self.structs[key] = "S%d" % len(self.order)
            self.order.append(ty)
        return self.structs[key]

    def capy_ty(self, ty):
        if ty == "void":
            return "void"
        return self.name(ty) if is_struct(ty) else self.sc(ty)

    def c_ty(self, ty):
        if ty == "void":
            return "void"
        return self.name(ty) if is_struct(ty) else SCALARS[ty][2]

    def capy_expr(self, ty, vals):
        if not is_struct(ty):
            return capy_lit(ty, vals)
        parts = []
        for i, (f, v) in enumerate(zip(ty["struct"], vals)):
            if is_arr(f):
                et = self.sc(f[2])
                if not et.isalnum():
                    et = "(" + et + ")"
                parts.append("f%d = %s.[%s]" % (i, et, ", ".join(capy_lit(f[2], x) for x in v)))
            else:
                parts.append("f%d = %s" % (i, capy_lit(f, v)))
        return "%s.{ %s }" % (self.name(ty), ", ".join(parts))

    def c_init(self, ty, vals):
        if not is_struct(ty):
            return c_lit(ty, vals)
        parts = []
        for f, v in zip(ty["struct"], vals):
            if is_arr(f):
                parts.append("{ %s }" % ", ".join(c_lit(f[2], x) for x in v))
            else:
                parts.append(c_lit(f, v))
        return "{ %s }" % ", ".join(parts)

    def capy_defs(self):
        out = []
        for ty in self.order:
            fs = []
            for i, f in enumerate(ty["struct"]):
                if is_arr(f):
                    fs.append("f%d: [%d]%s" % (i, f[1], self.sc(f[2])))
                else:
                    fs.append("f%d: %s" % (i, self.sc(f)))
            out.append("%s :: struct { %s };" % (self.name(ty), ", ".join(fs)))
        return out

    def c_defs(self):
        out = []
        for ty in self.order:
            fs = []
            for i, f in enumerate(ty["struct"]):
                if is_arr(f):
                    fs.append("%s f%d[%d];" % (SCALARS[f[2]][2], i, f[1]))
                else:
                    fs.append("%s f%d;" % (SCALARS[f][2], i))
            out.append("typedef struct { %s } %s;" % (" ".join(fs), self.name(ty)))
            out.append("_Static_assert(sizeof(%s) == %d, \"size\");" % (self.name(ty), sizeof(ty)))
        return out


C_PRELUDE = r"""#include <stdio.h>
#include <stdint.h>
#include <stddef.h>
char g_mem[64];
/* System V: %rsp + 8 is 16-byte aligned at function entry, hence the frame address is too */
#define CHK_ALIGN(tag) do { if (((uintptr_t)__builtin_frame_address(0)) & 15) { \
    printf("%d=misaligned-stack\n", (int)(tag)); fflush(stdout); } } while (0)
static void out_i(int tag, long long v) { printf("%d=%lld\n", tag, v); fflush(stdout); }
static void out_u(int tag, unsigned long long v) { printf("%d=%llu\n", tag, v); fflush(stdout); }
static void out_f(int tag, double v) { printf("%d=%.6f\n", tag, v); fflush(stdout); }
void p_i8(int tag, int8_t v) { CHK_ALIGN(tag); out_i(tag, v); }
void p_u8(int tag, uint8_t v) { CHK_ALIGN(tag); out_u(tag, v); }
void p_i16(int tag, int16_t v) { CHK_ALIGN(tag); out_i(tag, v); }
void p_u16(int tag, uint16_t v) { CHK_ALIGN(tag); out_u(tag, v); }
void p_i32(int tag, int32_t v) { CHK_ALIGN(tag); out_i(tag, v); }
void p_u32(int tag, uint32_t v) { CHK_ALIGN(tag); out_u(tag, v); }
void p_i64(int tag, int64_t v) { CHK_ALIGN(tag); out_i(tag, v); }
void p_u64(int tag, uint64_t v) { CHK_ALIGN(tag); out_u(tag, v); }
void p_isize(int tag, long v) { CHK_ALIGN(tag); out_i(tag, v); }
void p_usize(int tag, unsigned long v) { CHK_ALIGN(tag); out_u(tag, v); }
void p_f32(int tag, float v) { CHK_ALIGN(tag); out_f(tag, v); }
void p_f64(int tag, double v) { CHK_ALIGN(tag); out_f(tag, v); }
void p_bool(int tag, _Bool v) { CHK_ALIGN(tag); out_i(tag, v); }
void p_char(int tag, unsigned char v) { CHK_ALIGN(tag); out_u(tag, v); }
void p_rawptr(int tag, void *v) {
    CHK_ALIGN(tag);
    if (!v) out_i(tag, -1);
    else if ((char *)v >= g_mem && (char *)v < g_mem + 64) out_i(tag, (char *)v - g_mem);
    else out_i(tag, -2);
}
void p_optptr(int tag, void *v) { p_rawptr(tag, v); }
void *get_ptr(int k) { return g_mem + k; }
#include <string.h>
#include <sys/mman.h>
/* a copy of the object whose last byte is the last byte of a mapped page */
void *page_end_obj(const void *src, size_t n) {
    char *p = mmap(0, 8192, PROT_READ | PROT_WRITE, MAP_PRIVATE | MAP_ANONYMOUS, -1, 0);
    if (p == MAP_FAILED || mprotect(p + 4096, 4096, PROT_NONE)) { printf("mmap failed\n"); fflush(stdout); }
    memcpy(p + 4096 - n, src, n);
    return p + 4096 - n;
}
"""


def capy_prelude(nm):
    out = []
    for sc in SCALAR_NAMES:
        out.append("p_%s :: (tag: i32, v: %s) extern;" % (sc, nm.sc(sc)))
    out.append("get_ptr :: (k: i32) -> %s extern;" % nm.ptr)
    return out


def mk_tag(idx, phase, site):
    return idx * 100000 + phase * 10000 + site


def split_tag(tag):
    return tag // 100000, (tag // 10000) % 10, tag % 10000


def _sites(params):
    """[(param index, path, scalar)] in print order."""
    out = []
    for pi, p in enumerate(params):
        for path, sc in leaves(p):
            out.append((pi, path, sc))
    return out


def build_program(sigs, values_seed, directions=("to_c", "from_c"), sret_rax_check=True, styles=True,
                  page_end=False):
    """page_end=True: in the to_c direction every struct argument is read by Capy (`p^`) from an
    object that C placed so that it ends exactly at the end of a mapped page (the next page is
    PROT_NONE): a caller that marshals the struct with over-wide loads crashes.
    styles=True also varies (from the value stream) how the Capy side spells things: pointer
    flavour (rawptr / mut rawptr / ^i32 / ^mut u8), arguments as literals or typed locals,
    callback results as literals, locals or an echoed parameter of the same type."""
    vs = _Vals(values_seed)
    nm = _Names(PTR_FLAVOURS[vs.below(len(PTR_FLAVOURS))] if styles else "rawptr")
    capy_decl, capy_fns, capy_main = [], [], []
    c_fns = []
    expected = []

    for idx, sig in enumerate(sigs):
        check_sig(sig)
        params, ret = sig["params"], sig["ret"]
        sites = _sites(params)
        rleaves = leaves(ret)
        capy_params = ", ".join("a%d: %s" % (i, nm.capy_ty(p)) for i, p in enumerate(params))
        c_params = ", ".join("%s a%d" % (nm.c_ty(p), i) for i, p in enumerate(params)) or "void"
        c_ptypes = ", ".join(nm.c_ty(p) for p in params) or "void"
        capy_ret = "" if ret == "void" else " -> %s" % nm.capy_ty(ret)

        if "to_c" in directions:
            used = set()
            avals = [gen_vals(vs, p, used) for p in params]
            rvals = gen_vals(vs, ret, used)
            capy_decl.append("c_f%d :: (%s)%s extern;" % (idx, capy_params, capy_ret))
            # C callee
            body = ["    CHK_ALIGN(%d);" % mk_tag(idx, 5, 0)]
            for k, (pi, path, sc) in enumerate(sites):
                body.append("    p_%s(%d, a%d%s);" % (sc, mk_tag(idx, 0, k), pi, path))
            if ret != "void":
                body.append("    %s r = %s;" % (nm.c_ty(ret), nm.c_init(ret, rvals)))
                body.append("    return r;")
            c_fns.append("%s c_f%d(%s) {\n%s\n}" % (nm.c_ty(ret), idx, c_params, "\n".join(body)))
            # Capy caller
            body, argl = [], []
            for i, (p, v) in enumerate(zip(params, avals)):
                if page_end and is_struct(p):
                    capy_decl.append("pe%d_%d :: () -> ^%s extern;" % (idx, i, nm.capy_ty(p)))
                    c_fns.append("%s *pe%d_%d(void) {\n    static const %s v = %s;\n    return page_end_obj(&v, sizeof v);\n}" % (
                        nm.c_ty(p), idx, i, nm.c_ty(p), nm.c_init(p, v)))
                    body.append("    q%d := pe%d_%d();" % (i, idx, i))
                    argl.append("q%d^" % i)
                elif styles and vs.below(2):
                    body.append("    v%d : %s = %s;" % (i, nm.capy_ty(p), nm.capy_expr(p, v)))
                    argl.append("v%d" % i)
                else:
                    argl.append(nm.capy_expr(p, v))
            args = ", ".join(argl)
            if ret == "void":
                body.append("    c_f%d(%s);" % (idx, args))
            else:
                body.append("    r := c_f%d(%s);" % (idx, args))
                for k, (path, sc) in enumerate(rleaves):
                    body.append("    p_%s(%d, r%s);" % (sc, mk_tag(idx, 1, k), path))
            capy_fns.append("t_to_c%d :: () {\n%s\n}" % (idx, "\n".join(body)))
            capy_main.append("    t_to_c%d();" % idx)
            flat = [x for p, v in zip(params, avals) for x in flat_vals(p, v)]
            for k, ((pi, path, sc), v) in enumerate(zip(sites, flat)):
                expected.append("%d=%s" % (mk_tag(idx, 0, k), val_text(sc, v)))
            for k, ((path, sc), v) in enumerate(zip(rleaves, flat_vals(ret, rvals))):
                expected.append("%d=%s" % (mk_tag(idx, 1, k), val_text(sc, v)))

        if "from_c" in directions:
            used = set()
            avals = [gen_vals(vs, p, used) for p in params]
            rvals = gen_vals(vs, ret, used)
            rstyle = vs.below(3) if styles and ret != "void" else 0
            echo = [i for i, p in enumerate(params) if p == ret]
            if rstyle == 2 and echo:
                echo = echo[vs.below(len(echo))]
                rvals = avals[echo]
            elif rstyle == 2:
                rstyle = 1
            capy_decl.append("Cb%d :: (%s) -> %s;" % (idx, capy_params, nm.capy_ty(ret)))
            capy_decl.append("c_call%d :: (cb: Cb%d) extern;" % (idx, idx))
            # Capy callee
            body = []
            for k, (pi, path, sc) in enumerate(sites):
                body.append("    p_%s(%d, a%d%s);" % (sc, mk_tag(idx, 2, k), pi, path))
            if ret != "void":
                if rstyle == 0:
                    body.append("    %s" % nm.capy_expr(ret, rvals))
                elif rstyle == 1:
                    body.append("    res : %s = %s;" % (nm.capy_ty(ret), nm.capy_expr(ret, rvals)))
                    body.append("    res")
                else:
                    body.append("    a%d" % echo)
            capy_fns.append("cb%d :: (%s)%s {\n%s\n}" % (idx, capy_params, capy_ret, "\n".join(body)))
            capy_main.append("    c_call%d(cb%d);" % (idx, idx))
            # C caller
            body = ["    CHK_ALIGN(%d);" % mk_tag(idx, 5, 1)]
            for i, (p, v) in enumerate(zip(params, avals)):
                body.append("    %s a%d = %s;" % (nm.c_ty(p), i, nm.c_init(p, v)))
            call_args = ", ".join("a%d" % i for i in range(len(params)))
            if ret == "void":
                body.append("    cb(%s);" % call_args)
            else:
                body.append("    %s r = cb(%s);" % (nm.c_ty(ret), call_args))
                for k, (path, sc) in enumerate(rleaves):
                    body.append("    p_%s(%d, r%s);" % (sc, mk_tag(idx, 3, k), path))
            raw = sret_rax_check and ret != "void" and classify(ret) == "MEMORY"
            if raw:
                rp = ", ".join(["%s *" % nm.c_ty(ret)] + [nm.c_ty(p) for p in params])
                body.append("    %s r2;" % nm.c_ty(ret))
                body.append("    void *q = ((void *(*)(%s))cb)(%s);" % (rp, ", ".join(["&r2"] + ["a%d" % i for i in range(len(params))])))
                body.append("    p_i32(%d, q == (void *)&r2);" % mk_tag(idx, 4, 0))
            c_fns.append("void c_call%d(%s (*cb)(%s)) {\n%s\n}" % (idx, nm.c_ty(ret), c_ptypes, "\n".join(body)))
            flat = [x for p, v in zip(params, avals) for x in flat_vals(p, v)]
            arg_lines = []
            for k, ((pi, path, sc), v) in enumerate(zip(sites, flat)):
                arg_lines.append("%d=%s" % (mk_tag(idx, 2, k), val_text(sc, v)))
            expected.extend(arg_lines)
            for k, ((path, sc), v) in enumerate(zip(rleaves, flat_vals(ret, rvals))):
                expected.append("%d=%s" % (mk_tag(idx, 3, k), val_text(sc, v)))
            if raw:
                expected.extend(arg_lines)
                expected.append("%d=1" % mk_tag(idx, 4, 0))

    capy = "\n".join(nm.capy_defs() + capy_prelude(nm) + capy_decl + [""] + capy_fns +
                     ["", "main :: () {"] + capy_main + ["}"]) + "\n"
    c = C_PRELUDE + "\n".join(nm.c_defs()) + "\n" + "\n".join(c_fns) + "\n"
    return {"capy": capy, "c": c, "expected": "".join(l + "\n" for l in expected),
            "sigs": json.loads(json.dumps(sigs)), "values_seed": values_seed,
            "directions": list(directions), "page_end": page_end}


def describe_tag(prog, tag):
    idx, phase, site = split_tag(tag)
    d = {"tag": tag, "sig_index": idx, "phase": phase, "site": site}
    if idx >= len(prog["sigs"]) or phase not in PHASES:
        d["what"] = "unknown tag"
        return d
    sig = prog["sigs"][idx]
    d["sig"] = sig
    d["direction"], d["what"] = PHASES[phase]
    if phase in (0, 2):
        st = _sites(sig["params"])
        if site < len(st):
            pi, path, sc = st[site]
            d.update(param=pi, path=path, scalar=sc, param_ty=ty_str(sig["params"][pi]),
                     where="param %d%s : %s of %s" % (pi, path, sc, ty_str(sig["params"][pi])))
    elif phase in (1, 3):
        rl = leaves(sig["ret"])
        if site < len(rl):
            path, sc = rl[site]
            d.update(param=None, path=path, scalar=sc, where="ret%s : %s of %s" % (path, sc, ty_str(sig["ret"])))
    elif phase == 4:
        d.update(param=None, where="sret pointer in %rax")
    else:
        d.update(param=None, where="entry of %s%d" % ("c_f" if site == 0 else "c_call", idx))
    return d


# --------------------------------------------------------------------------- running

def _first_diff(prog, got):
    exp = prog["expected"].split("\n")
    act = got.split("\n")
    if exp and exp[-1] == "":
        exp.pop()
    if act and act[-1] == "":
        act.pop()
    for i in range(max(len(exp), len(act))):
        e = exp[i] if i < len(exp) else "<end>"
        a = act[i] if i < len(act) else "<end>"
        if e != a:
            tag = None
            for s in (e, a):
                try:
                    tag = int(s.split("=")[0])
                    break
                except ValueError:
                    pass
            d = describe_tag(prog, tag) if tag is not None else {}
            return {"line": i, "expected": e, "got": a, "tag": tag, "site": d,
                    "text": "line %d: expected %r got %r  [%s %s; %s; sig %s]" % (
                        i, e, a, d.get("direction"), d.get("what"), d.get("where"),
                        sig_str(d["sig"]) if "sig" in d else "?")}
    return None


def run_program(capy_exe, prog, workdir, cflags=("-O0",)):
    os.makedirs(workdir, exist_ok=True)
    shutil.rmtree(os.path.join(workdir, "out"), ignore_errors=True)
    with open(os.path.join(workdir, "t.capy"), "w") as f:
        f.write(prog["capy"])
    with open(os.path.join(workdir, "c.c"), "w") as f:
        f.write(prog["c"])
    res = {"status": "ok", "stdout": "", "detail": ""}
    try:
        p = subprocess.run([capy_exe, "build", "t.capy", "--mod-dir", REPO, "--no-exec"], cwd=workdir,
                           stdout=subprocess.PIPE, stderr=subprocess.STDOUT, timeout=120)
        out, rc = p.stdout.decode("utf-8", "replace"), p.returncode
    except subprocess.TimeoutExpired:
        out, rc = "timeout", -1
    if rc != 0 or not os.path.exists(os.path.join(workdir, "out", "t.o")):
        res.update(status="capy-failed", detail="exit %s\n%s" % (rc, out[-2000:]))
        return res
    p = subprocess.run(["gcc"] + list(cflags) + ["-w", "out/t.o", "c.c", "-o", "t"], cwd=workdir,
                       stdout=subprocess.PIPE, stderr=subprocess.STDOUT)
    if p.returncode != 0:
        res.update(status="link-failed", detail=p.stdout.decode("utf-8", "replace")[-2000:])
        return res
    try:
        p = subprocess.run(["./t"], cwd=workdir, stdout=subprocess.PIPE, stderr=subprocess.PIPE,
                           timeout=RUN_TIMEOUT)
        got, rc = p.stdout.decode("utf-8", "replace"), p.returncode
    except subprocess.TimeoutExpired as e:
        got, rc = (e.stdout or b"").decode("utf-8", "replace"), "timeout"
    res["stdout"] = got
    if got == prog["expected"] and rc == 0:
        return res
    diff = _first_diff(prog, got)
    if got == prog["expected"]:
        # the transcript is complete but the process died afterwards
        res.update(status="run-failed", detail="exit %s after complete transcript" % rc, diff=None)
        return res
    res["diff"] = diff
    if rc != 0:
        res.update(status="run-failed", detail="exit %s; %s" % (rc, diff["text"] if diff else ""))
    else:
        res.update(status="mismatch", detail=diff["text"] if diff else "")
    return res


def _run_sigs(capy_exe, sigs, values_seed, directions, cflags, root, opts=None):
    prog = build_program(sigs, values_seed, directions=directions, **(opts or {}))
    wd = tempfile.mkdtemp(prefix="w", dir=root)
    try:
        r = run_program(capy_exe, prog, wd, cflags)
    finally:
        shutil.rmtree(wd, ignore_errors=True)
    return prog, r


def _fail_kind(r):
    """Coarse identity of a failure, kept stable while shrinking."""
    if r["status"] == "ok":
        return None
    if r["status"] in ("capy-failed", "link-failed"):
        return r["status"]
    return "bad-transcript"


def shrink(capy_exe, prog_or_sigs, values_seed=None, cflags=("-O0",), root=None, minimise=True, opts=None):
    """Isolate minimal failing (signature, direction)s: every signature alone, every direction
    alone, then drop parameters / the result / struct fields / array elements while the run
    still fails in the same way.  `opts`: extra build_program keywords (e.g. page_end=True).
    Returns a list of dicts {"sig", "orig_sig", "direction", "status", "detail", "diff",
    "cflags", "values_seed", "opts"}."""
    if isinstance(prog_or_sigs, dict):
        sigs = prog_or_sigs["sigs"]
        if opts is None and prog_or_sigs.get("page_end"):
            opts = {"page_end": True}
        if values_seed is None:
            values_seed = prog_or_sigs.get("values_seed", 1)
    else:
        sigs = prog_or_sigs
    if values_seed is None:
        values_seed = 1
    own = root is None
    if own:
        root = tempfile.mkdtemp(prefix="c19e2e-")
    found = []
    try:
        for sig in sigs:
            for d in ("to_c", "from_c"):
                prog, r = _run_sigs(capy_exe, [sig], values_seed, (d,), cflags, root, opts)
                kind = _fail_kind(r)
                if kind is None:
                    continue
                # every parameter on its own (with and without the result type): reports all
                # independent culprits of one signature instead of only the first one
                singles = []
                if minimise and len(sig["params"]) > 1:
                    seen = set()
                    for p in sig["params"]:
                        for rt in ("void", sig["ret"]):
                            cand = {"params": [p], "ret": rt}
                            key = json.dumps(cand)
                            if key in seen:
                                continue
                            seen.add(key)
                            _, r2 = _run_sigs(capy_exe, [cand], values_seed, (d,), cflags, root, opts)
                            if _fail_kind(r2) == kind:
                                singles.append((cand, r2))
                                break
                starts = singles or [(sig, r)]
                for cur, cur_r in starts:
                    while minimise:
                        progress = False
                        for cand in _smaller(cur):
                            _, r2 = _run_sigs(capy_exe, [cand], values_seed, (d,), cflags, root, opts)
                            if _fail_kind(r2) == kind:
                                cur, cur_r, progress = cand, r2, True
                                break
                        if not progress:
                            break
                    found.append({"sig": cur, "orig_sig": sig, "direction": d, "status": cur_r["status"],
                                  "detail": cur_r["detail"], "diff": cur_r.get("diff"),
                                  "cflags": list(cflags), "values_seed": values_seed, "opts": dict(opts or {})})
    finally:
        if own:
            shutil.rmtree(root, ignore_errors=True)
    return found


def _smaller(sig):
    """Candidate simplifications, most aggressive first."""
    ps, ret = sig["params"], sig["ret"]
    for i in range(len(ps)):
        yield {"params": ps[:i] + ps[i + 1:], "ret": ret}
    if ret != "void":
        yield {"params": ps, "ret": "void"}
    for i, p in enumerate(ps):
        for q in _smaller_ty(p):
            yield {"params": ps[:i] + [q] + ps[i + 1:], "ret": ret}
    if ret != "void":
        for q in _smaller_ty(ret):
            yield {"params": ps, "ret": q}


def _smaller_ty(ty):
    if not is_struct(ty):
        return
    fs = ty["struct"]
    if len(fs) > 1:
        for i in range(len(fs)):
            yield {"struct": fs[:i] + fs[i + 1:]}
    for i, f in enumerate(fs):
        if is_arr(f) and f[1] > 1:
            yield {"struct": fs[:i] + [["arr", f[1] - 1, f[2]]] + fs[i + 1:]}


def failure_class(item):
    """Narrow syntactic class of a minimal failing signature."""
    sig, d = item["sig"], item["direction"]
    diff = item.get("diff") or {}
    site = diff.get("site") or {}
    ph = site.get("phase")
    if item["status"] in ("capy-failed", "link-failed"):
        return "c19:%s:%s" % (d, item["status"])
    if ph == 4:
        return "c19:from_c:struct-ret-memory-rax"
    if ph == 5 or "misaligned-stack" in str(diff.get("got")):
        return "c19:%s:stack-misaligned" % d
    if ph in (1, 3):
        r = sig["ret"]
        if is_struct(r):
            c = classify(r)
            return "c19:%s:struct-ret-%s-size%d" % (d, "memory" if c == "MEMORY" else "-".join(c).lower(), sizeof(r))
        return "c19:%s:scalar-ret-%s" % (d, r)
    if ph == 0 and (item.get("opts") or {}).get("page_end") and item["status"] == "run-failed" \
            and diff.get("got") == "<end>":
        # crashed before the C callee printed anything: over-wide read of a page-end struct;
        # the tag cannot tell which parameter, so name the first struct whose marshalled
        # width differs from its size
        for p, (where, c) in zip(sig["params"], assign(sig)):
            if is_struct(p) and overread(p, where):
                if where == "reg":
                    return "c19:to_c:struct-arg-reg-size%d-chunk-not-pow2:oob-read-at-page-end" % sizeof(p)
                return "c19:to_c:struct-arg-stack-size%d-not-multiple-of-8:oob-read-at-page-end" % sizeof(p)
        return "c19:to_c:crash-before-callee"
    if ph in (0, 2) and site.get("param") is not None:
        pi = site["param"]
        p = sig["params"][pi]
        where, c = assign(sig)[pi]
        if is_struct(p):
            return "c19:%s:struct-arg-%s-%s-size%d" % (d, "memory" if c == "MEMORY" else "-".join(c).lower(), where, sizeof(p))
        return "c19:%s:scalar-arg-%s-%s" % (d, p, where)
    return "c19:%s:unclassified" % d


# --------------------------------------------------------------------------- driver

class _Rng:
    """Local copy of verif.common.Rng's interface (used only by __main__)."""

    def __init__(self, seed):
        self.v = _Vals(seed)

    def below(self, n):
        return self.v.next() % n if n > 0 else 0

    def range(self, lo, hi):
        return lo + self.below(hi - lo + 1)

    def choice(self, seq):
        return seq[self.below(len(seq))]

    def chance(self, num, den):
        return self.below(den) < num


def run_campaign(capy_exe, programs, cflag_sets=(("-O0",), ("-O2",)), jobs=None, root=None, log=None,
                 opts=None):
    """programs: [(sigs, values_seed)].  Returns (results, failures) where failures are the
    shrunk minimal items (deduplicated by class + signature)."""
    jobs = jobs or (os.cpu_count() or 4)
    own = root is None
    if own:
        root = tempfile.mkdtemp(prefix="c19e2e-")
    results = []
    try:
        def one(job):
            sigs, seed, cflags = job
            dirs = ("to_c",) if (opts or {}).get("page_end") else ("to_c", "from_c")
            prog, r = _run_sigs(capy_exe, sigs, seed, dirs, cflags, root, opts)
            return job, r

        jobs_l = [(s, seed, cf) for (s, seed) in programs for cf in cflag_sets]
        with ThreadPoolExecutor(max_workers=jobs) as ex:
            results = list(ex.map(one, jobs_l))
        bad = [(job, r) for job, r in results if r["status"] != "ok"]
        if log:
            log("%d program runs, %d not ok" % (len(results), len(bad)))

        def sh(jr):
            (sigs, seed, cflags), r = jr
            return shrink(capy_exe, sigs, seed, cflags, root, opts=opts)

        items = []
        with ThreadPoolExecutor(max_workers=jobs) as ex:
            for (jr, found) in zip(bad, ex.map(sh, bad)):
                if not found:
                    (sigs, seed, cflags), r = jr
                    items.append({"sig": None, "orig_sigs": sigs, "direction": "?", "status": r["status"],
                                  "detail": "only fails in combination: " + r["detail"], "diff": r.get("diff"),
                                  "cflags": list(cflags), "values_seed": seed, "opts": dict(opts or {})})
                items.extend(found)
        return results, items
    finally:
        if own:
            shutil.rmtree(root, ignore_errors=True)


def summarise(items):
    by = {}
    for it in items:
        cls = failure_class(it) if it["sig"] is not None else "c19:combination-only"
        key = (cls, json.dumps(it["sig"]), it["direction"])
        e = by.setdefault(key, {"class": cls, "sig": it["sig"], "direction": it["direction"],
                                "cflags": set(), "detail": it["detail"], "status": it["status"], "count": 0})
        e["cflags"].add(" ".join(it["cflags"]))
        e["count"] += 1
    return sorted(by.values(), key=lambda e: (e["class"], len(json.dumps(e["sig"]))))


def main(argv):
    n = int(argv[1]) if len(argv) > 1 else 50
    seed = int(argv[2]) if len(argv) > 2 else 1
    capy_exe = os.environ.get("CAPY_EXE", "/verif/.cache/target/debug/capy")
    batch = 6
    rng = _Rng(seed)
    directed = gen_directed()
    programs = [(directed[i:i + batch], 1000 + i) for i in range(0, len(directed), batch)]
    for k in range(n):
        programs.append(([gen_signature(rng) for _ in range(batch)], seed * 100003 + k))
    t0 = time.time()
    results, items = run_campaign(capy_exe, programs, log=lambda s: print(s, flush=True))
    t1 = time.time()
    print("%d programs x 2 cflag sets in %.1fs (%.1f program runs/s incl. shrinking)" % (
        len(programs), t1 - t0, len(results) / (t1 - t0)))
    st = {}
    for _, r in results:
        st[r["status"]] = st.get(r["status"], 0) + 1
    print("status counts:", st)
    t2 = time.time()
    pe_programs = programs[:int(os.environ.get("C19_PAGE_END", "12"))]     # shrinking crashes is slow
    pe_results, pe_items = run_campaign(capy_exe, pe_programs, cflag_sets=(("-O0",),), opts={"page_end": True},
                                        log=lambda s: print("[page_end] " + s, flush=True))
    print("[page_end] %d programs in %.1fs" % (len(pe_programs), time.time() - t2))
    summ = summarise(items + pe_items)
    classes = {}
    for e in summ:
        classes.setdefault(e["class"], []).append(e)
    print("%d distinct minimal failing signatures in %d classes" % (len(summ), len(classes)))
    for cls in sorted(classes):
        es = classes[cls]
        print("== %s  (%d minimal signatures)" % (cls, len(es)))
        for e in es[:4]:
            print("   %s %s [%s] x%d" % (e["direction"], sig_str(e["sig"]) if e["sig"] else "?",
                                         ",".join(sorted(e["cflags"])), e["count"]))
            print("      %s: %s" % (e["status"], e["detail"][:400].replace("\n", " | ")))
    return 0


if __name__ == "__main__":
    sys.exit(main(sys.argv))
