"""C18 — Runtime reflection and type values describe the code actually generated (DESIGN.md C18).

Streams:
  A. `to_type_id` (hook codegen::verif_layout::type_ids_of, fresh MetaTyData per
     sequence of <= 30 types) vs the extracted model Model/TypeId.v; direct oracle on
     the implementation's ids: meta.capy's bit-field readers (extracted) applied to the
     real id must give the specified size/align (C17 spec), and two different run-time
     types of one sequence must not share an id.
  B. end to end with the real `capy`: generated programs (<= 30 type definitions each)
     print meta.size_of/align_of/stride_of, get_type_info details (member names, offsets,
     member type ids, array length, int width/sign, pointer mutability, variants, tag
     offsets), address arithmetic on real values (field address - base, array element
     distance), the full `==` matrix of the type values, and `any` round trips; compared
     with the C17 specification and with nominal/structural type identity."""
import json
import os

from .. import common as C
from ..flow import Flow
from . import c17 as L

# ------------------------------------------------------------------ stream A
RUNTIME_PRIMS = [p for p in L.PRIMS if p[0] != "prim" or p[1] not in
                 ("I0", "U0", "F0", "unknown", "nyr", "polyfn 1", "never")]


def decode(i):
    return {"discr": i >> 26, "size": i & 31, "align": (i >> 5) & 15, "flag": (i >> 9) & 1,
            "index": i & ~(63 << 26) & 0xFFFFFFFF}


def known_pair(a, b, pw):
    if a[0] == "prim" and b[0] == "prim" and a[1][0] == b[1][0] and a[1][0] in "IU":
        wa, wb = int(a[1][1:]), int(b[1][1:])
        return (wa == 255 and wb == pw) or (wb == 255 and wa == pw)
    return False


def gen_sequence(rng, pool, n):
    seq = []
    for _ in range(n):
        k = rng.below(10)
        if k < 3:
            seq.append(rng.choice(RUNTIME_PRIMS))
        elif k < 7:
            seq.append(rng.choice(pool))
        elif k < 9:
            seq.append(L.random_type(rng, 2, pool))
        elif seq:
            seq.append(rng.choice(seq))      # ask again for a type already in the table
    return [t for t in seq if is_runtime(t)]


def is_runtime(t):
    if t[0] == "prim":
        return t in RUNTIME_PRIMS
    if t[0] in ("ptr", "slice"):
        return is_runtime(t[-1])
    if t[0] in ("fn", "fnptr"):
        return True
    return all(is_runtime(c) for c in L.children(t))


def stream_ids(fl, v, drv, har, tier):
    rng = fl.rng.fork("ids")
    d1 = [t for t in L.depth1() if is_runtime(t)]
    nseq = 400 if tier == "quick" else 6000
    seqs = [[L.P("I64"), L.P("I255"), L.P("U64"), L.P("U255"), L.P("I32"), L.P("U32")]]
    seqs += [[p] for p in RUNTIME_PRIMS]
    seqs += [gen_sequence(rng, d1, rng.range(2, 30)) for _ in range(nseq)]
    seqs = [s for s in seqs if s]
    counts = v.coverage.setdefault("failing_inputs_by_class", {})
    for pw in (64, 32):
        lines = [" ; ".join(L.render(t) for t in s) for s in seqs]
        impl = C.run_lines([har, "ids", str(pw)], lines, case_timeout=10)
        model = C.run_lines([drv], ["I %d %s" % (pw, l) for l in lines], indexed=False)
        name = "to_type_id sequences, pointer width %d" % pw
        if len(impl) != len(lines) or len(model) != len(lines):
            fl.broken.append({"what": "stream '%s': tool output length mismatch" % name})
            continue
        diffs = 0
        first = None
        nt = 0
        for s, l, i, m in zip(seqs, lines, impl, model):
            iv = i.split()
            mg = m.split()
            mv = [g.split(":")[0] for g in mg]
            mv = ["PANIC" if x.startswith("CRASH") else x for x in mv]
            if iv != mv:
                diffs += 1
                if first is None:
                    first = {"types": l, "pointer_bits": pw, "implementation": i, "model_ids": " ".join(mv)}
            if len(iv) != len(s) or len(mg) != len(s):
                continue
            nt += len(s)
            seen = {}
            for t, x, g in zip(s, iv, mg):
                if x == "PANIC":
                    L.report(v, counts, "to_type_id-panics", {"key": "idpanic:%d:%s" % (pw, L.render(t)),
                             "type": L.render(t), "pointer_bits": pw, "sequence": l})
                    continue
                idv = int(x)
                parts = g.split(":")
                spec = [int(z, 0) for z in parts[3].split(",")] if len(parts) >= 4 else None
                if len(parts) >= 4 and parts[2] != parts[3] and not any("model tables" in b.get("what", "") for b in fl.broken):
                    # the model's own tables (layout arrays indexed by the id) disagree with the layout specification
                    fl.broken.append({"what": "model tables: meta_layout of the model differs from the C17 specification",
                                      "type": L.render(t), "pointer_bits": pw, "model_reads": parts[2], "spec": parts[3]})
                d = decode(idv)
                if d["discr"] < 16 and spec is not None and (d["size"], d["align"]) != (spec[0], spec[1]):
                    L.report(v, counts, "simple-id-wrong-layout", {"key": "idlay:%d:%s" % (pw, L.render(t)),
                             "type": L.render(t), "pointer_bits": pw, "id": idv, "decoded": d,
                             "spec_size_align": spec[:2]})
                r = L.render(t)
                if idv in seen and seen[idv][0] != r:
                    o = seen[idv][1]
                    cls = "isize-usize-share-id-with-fixed-width-int" if known_pair(t, o, pw) else "type-id-collision"
                    L.report(v, counts, cls, {"key": "idcol:%d:%s:%s" % (pw, seen[idv][0], r), "pointer_bits": pw,
                             "type_a": seen[idv][0], "type_b": r, "id": idv, "sequence": l})
                seen.setdefault(idv, (r, t))
        fl.stream(name, len(lines), diffs, first)
        v.coverage["evaluations"] += nt
        v.coverage["distinct_nontrivial"] += sum(1 for s in seqs if len(s) > 1)


# ------------------------------------------------------------------ stream B (end to end)
CAPY_PRIM = {"I8": "i8", "I16": "i16", "I32": "i32", "I64": "i64", "I128": "i128", "I255": "isize",
             "U8": "u8", "U16": "u16", "U32": "u32", "U64": "u64", "U128": "u128", "U255": "usize",
             "F32": "f32", "F64": "f64", "bool": "bool", "char": "char", "str": "str", "type": "type",
             "any": "any", "rawptr0": "rawptr", "rawptr1": "mut rawptr", "rawslice": "rawslice", "void": "void"}
DEFAULTABLE_PRIM = {"I8", "I16", "I32", "I64", "I128", "I255", "U8", "U16", "U32", "U64", "U128", "U255",
                    "F32", "F64", "bool", "char"}

# a definition: dict(kind=..., args=...), referring to earlier definitions by index
#   prim tok | arr n i | slice i | ptr mut i | dist i | struct [i..] | enum [i or None ..] | opt i | eu i j | fnptr


def gen_defs(rng, n):
    defs = []
    toks = list(CAPY_PRIM.keys())
    for k in range(n):
        r = rng.below(16) if k >= 3 else rng.below(4)
        pick = lambda: rng.below(len(defs))
        if r < 4 or not defs:
            # favour the interesting collisions
            tok = rng.choice(["I64", "I255", "U64", "U255"]) if rng.chance(1, 5) else rng.choice(toks)
            defs.append({"k": "prim", "tok": tok})
        elif r < 6:
            defs.append({"k": "arr", "n": rng.choice([0, 1, 2, 3, 5]), "a": pick()})
        elif r == 6:
            defs.append({"k": "slice", "a": pick()})
        elif r == 7:
            defs.append({"k": "ptr", "mut": rng.below(2), "a": pick()})
        elif r == 8:
            defs.append({"k": "dist", "a": pick()})
        elif r < 12:
            defs.append({"k": "struct", "ms": [pick() for _ in range(rng.range(1, 4))]})
        elif r == 12:
            defs.append({"k": "enum", "vs": [(pick() if rng.chance(2, 3) else None) for _ in range(rng.range(1, 4))]})
        elif r == 13:
            defs.append({"k": "opt", "a": pick()})
        elif r == 14:
            # the checker rejects error unions whose sides "share autocasts": keep the groups apart
            e, p = pick(), pick()
            if group(defs, e) != group(defs, p) and "other" not in (group(defs, e), group(defs, p)):
                defs.append({"k": "eu", "e": e, "p": p})
            else:
                defs.append({"k": "opt", "a": p})
        else:
            defs.append({"k": "fnptr", "ps": [pick() for _ in range(rng.below(3))]})
    return defs


def group(defs, i):
    d = defs[i]
    k = d["k"]
    if k == "prim":
        t = d["tok"]
        if t[0] in "IUF" and t[1:].isdigit():
            return "num"
        if t.startswith("rawptr"):
            return "ptr"
        if t == "rawslice":
            return "seq"
        return t if t in ("str", "bool", "char", "void") else "other"
    if k == "ptr":
        return "ptr"
    if k in ("arr", "slice"):
        return "seq"
    if k == "dist":
        return group(defs, d["a"])
    if k in ("struct", "enum"):
        return "nominal%d" % i
    return "other"


def usable(defs, i, what):
    """restrictions of the language / of this generator: no void/type/any members where values are needed"""
    d = defs[i]
    return True


def lty_of(defs, i):
    """the C17 AST of definition i (uids/names irrelevant for layout)"""
    d = defs[i]
    k = d["k"]
    if k == "prim":
        return L.P(d["tok"])
    if k == "arr":
        return ("arr", d["n"], lty_of(defs, d["a"]))
    if k == "slice":
        return ("slice", lty_of(defs, d["a"]))
    if k == "ptr":
        return ("ptr", d["mut"], lty_of(defs, d["a"]))
    if k == "dist":
        return ("dist", i, lty_of(defs, d["a"]))
    if k == "struct":
        return ("struct", i, [(j, lty_of(defs, m)) for j, m in enumerate(d["ms"])])
    if k == "enum":
        return ("enum", i, [("var", i, j, 1000 + j, j, lty_of(defs, m) if m is not None else L.P("void"))
                            for j, m in enumerate(d["vs"])])
    if k == "opt":
        return ("opt", lty_of(defs, d["a"]))
    if k == "eu":
        return ("eu", lty_of(defs, d["e"]), lty_of(defs, d["p"]))
    if k == "fnptr":
        return ("fnptr", [lty_of(defs, p) for p in d["ps"]], L.P("void"))
    raise ValueError(k)


def canon(defs, i):
    """type identity: struct/enum/distinct definitions are nominal, the rest structural"""
    d = defs[i]
    k = d["k"]
    if k == "prim":
        return ("prim", d["tok"])
    if k in ("dist", "struct", "enum"):
        return ("nominal", i)
    if k == "arr":
        return ("arr", d["n"], canon(defs, d["a"]))
    if k == "slice":
        return ("slice", canon(defs, d["a"]))
    if k == "ptr":
        return ("ptr", d["mut"], canon(defs, d["a"]))
    if k == "opt":
        return ("opt", canon(defs, d["a"]))
    if k == "eu":
        return ("eu", canon(defs, d["e"]), canon(defs, d["p"]))
    if k == "fnptr":
        return ("fnptr", tuple(canon(defs, p) for p in d["ps"]))


def defaultable(defs, i):
    d = defs[i]
    k = d["k"]
    if k == "prim":
        return d["tok"] in DEFAULTABLE_PRIM
    if k in ("arr", "dist"):
        return defaultable(defs, d["a"])
    if k == "struct":
        return all(defaultable(defs, m) for m in d["ms"])
    if k == "opt":
        return True
    return False


def expr_of(defs, i):
    d = defs[i]
    k = d["k"]
    if k == "prim":
        return CAPY_PRIM[d["tok"]]
    if k == "arr":
        return "[%d] T%d" % (d["n"], d["a"])
    if k == "slice":
        return "[] T%d" % d["a"]
    if k == "ptr":
        return ("^mut T%d" if d["mut"] else "^T%d") % d["a"]
    if k == "dist":
        return "distinct T%d" % d["a"]
    if k == "struct":
        return "struct { %s }" % ", ".join("f%d: T%d" % (j, m) for j, m in enumerate(d["ms"]))
    if k == "enum":
        return "enum { %s }" % ", ".join(("V%d: T%d" % (j, m)) if m is not None else "V%d" % j
                                          for j, m in enumerate(d["vs"]))
    if k == "opt":
        return "?T%d" % d["a"]
    if k == "eu":
        return "T%d!T%d" % (d["e"], d["p"])
    if k == "fnptr":
        return "(%s) -> void" % ", ".join("p%d: T%d" % (j, p) for j, p in enumerate(d["ps"]))


PRELUDE = r'''core :: #mod("core");
meta :: core.meta;

addr :: (p: rawptr) -> usize { q := p; ^usize.(rawptr.(^q))^ }
b :: (x: bool) -> u8 { if x { 1 } else { 0 } }

dump :: (idx: usize, ty: type) {
    core.println("L ", idx, " ", meta.size_of(ty), " ", meta.align_of(ty), " ", meta.stride_of(ty), " ", meta.meta_to_raw(ty));
    switch info in meta.get_type_info(ty) {
        .Int => core.println("I ", idx, " int ", info.bit_width, " ", b(info.signed)),
        .Float => core.println("I ", idx, " float ", info.bit_width),
        .Bool => core.println("I ", idx, " bool"),
        .String => core.println("I ", idx, " str"),
        .Char => core.println("I ", idx, " char"),
        .Array => core.println("I ", idx, " arr ", info.len, " ", meta.meta_to_raw(info.sub_ty)),
        .Slice => core.println("I ", idx, " slice ", meta.meta_to_raw(info.sub_ty)),
        .Pointer => core.println("I ", idx, " ptr ", meta.meta_to_raw(info.sub_ty), " ", b(info.mutable)),
        .Distinct => core.println("I ", idx, " dist ", meta.meta_to_raw(info.sub_ty)),
        .Struct => {
            core.print("I ", idx, " struct ", info.members.len);
            i := 0;
            while i < info.members.len {
                m := info.members[i];
                core.print(" ", m.name, ":", m.offset, ":", meta.meta_to_raw(m.ty));
                i += 1;
            }
            core.println();
        },
        .Enum => {
            core.print("I ", idx, " enum ", info.discriminant_offset, " ", info.variants.len);
            i := 0;
            while i < info.variants.len {
                vt := info.variants[i];
                core.print(" ", meta.meta_to_raw(vt));
                switch vinfo in meta.get_type_info(vt) {
                    .Variant => core.print(":", meta.meta_to_raw(vinfo.sub_ty), ":", vinfo.discriminant, ":", meta.size_of(vt), ":", meta.align_of(vt)),
                    _ => core.print(":notvariant"),
                }
                i += 1;
            }
            core.println();
        },
        .Variant => core.println("I ", idx, " var ", meta.meta_to_raw(info.sub_ty), " ", info.discriminant),
        .Nil => core.println("I ", idx, " nil"),
        .Optional => core.println("I ", idx, " opt ", meta.meta_to_raw(info.sub_ty), " ", b(info.is_non_zero), " ", info.discriminant_offset),
        .Error_Union => core.println("I ", idx, " eu ", meta.meta_to_raw(info.error_ty), " ", meta.meta_to_raw(info.payload_ty), " ", info.discriminant_offset),
        .Function => core.println("I ", idx, " fn"),
        .File => core.println("I ", idx, " file"),
        .Meta_Type => core.println("I ", idx, " type"),
        .Any => core.println("I ", idx, " any"),
        .Raw_Ptr => core.println("I ", idx, " rawptr ", b(info.mutable)),
        .Raw_Slice => core.println("I ", idx, " rawslice"),
        .Void => core.println("I ", idx, " void"),
    }
}
'''


def program(defs):
    n = len(defs)
    out = [PRELUDE]
    for i in range(n):
        out.append("T%d :: %s;" % (i, expr_of(defs, i)))
    out.append("main :: () {")
    for i in range(n):
        out.append("    dump(%d, T%d);" % (i, i))
    # address arithmetic on real values
    for i in range(n):
        if defaultable(defs, i):
            out.append("    v%d : T%d;" % (i, i))
            out.append("    w%d : [2] T%d;" % (i, i))
            out.append('    core.println("S ", %d, " ", addr(rawptr.(^w%d[1])) - addr(rawptr.(^w%d[0])));' % (i, i, i))
            if defs[i]["k"] == "struct":
                fs = ", ".join('" ", addr(rawptr.(^v%d.f%d)) - addr(rawptr.(^v%d))' % (i, j, i)
                               for j in range(len(defs[i]["ms"])))
                out.append('    core.println("O ", %d, %s);' % (i, fs))
            out.append("    a%d : any = v%d;" % (i, i))
            row = ", ".join("b(a%d.ty == T%d)" % (i, j) for j in range(n))
            out.append('    core.println("A ", %d, " ", %s);' % (i, row.replace(", ", ', "", ')))
    for i in range(n):
        row = ', "", '.join("b(T%d == T%d)" % (i, j) for j in range(n))
        out.append('    core.println("E ", %d, " ", %s);' % (i, row))
    out.append("}")
    return "\n".join(out) + "\n"


def run_program(capy, src, tag):
    with C.scratch("verif-c18-") as d:
        open(os.path.join(d, "p.capy"), "w").write(src)
        rc, out = C.run([capy, "build", "p.capy", "--mod-dir", C.REPO], cwd=d, timeout=120)
        exe = os.path.join(d, "out", "p")
        if rc != 0 or not os.path.exists(exe):
            msg = [l for l in out.split("\n") if not l.startswith("split_aggregate")]
            return None, "build failed (%d): %s" % (rc, "\n".join(msg)[-1500:])
        rc, out = C.run([exe], cwd=d, timeout=60)
        return (rc, out), ""


def spec_layouts(drv17, defs):
    lines = ["L 64 " + L.render(lty_of(defs, i)) for i in range(len(defs))]
    res = C.run_lines([drv17], lines, indexed=False, workers=1)
    out = []
    for r in res:
        parts = [x.strip() for x in r.split(" / ")]
        out.append(L.parse_info(parts[1]) if len(parts) == 3 else None)
    return out


def check_program(v, counts, defs, output, spec, src):
    """compare the program's output with the expectation; returns number of checks"""
    n = len(defs)
    lay, info, strides, offs, anyrows, eqrows = {}, {}, {}, {}, {}, {}
    for line in output.split("\n"):
        f = line.split()
        if len(f) < 2:
            continue
        try:
            i = int(f[1])
        except ValueError:
            continue
        if f[0] == "L":
            lay[i] = [int(x) for x in f[2:6]]
        elif f[0] == "I":
            info[i] = f[2:]
        elif f[0] == "S":
            strides[i] = int(f[2])
        elif f[0] == "O":
            offs[i] = [int(x) for x in f[2:]]
        elif f[0] == "A":
            anyrows[i] = f[2]
        elif f[0] == "E":
            eqrows[i] = f[2]
    checks = 0

    def fail(cls, i, what, **kw):
        L.report(v, counts, cls, dict({"key": "%s:%s" % (cls, C.sha(src + str(i) + what)), "definition": "T%d :: %s" % (i, expr_of(defs, i)),
                                       "what": what, "program": src}, **kw))

    raw = {i: lay[i][3] for i in lay}
    for i in range(n):
        d = defs[i]
        sp = spec[i]
        if i not in lay or i not in info or i not in eqrows:
            fail("program-output-incomplete", i, "missing output lines", output=output[-2000:])
            continue
        checks += 1
        if sp is not None and lay[i][:3] != [sp["size"], sp["align"], sp["stride"]]:
            fail("reflected-layout-wrong", i, "size/align/stride", reflected=lay[i][:3], spec=sp)
        if i in strides and sp is not None and strides[i] != sp["stride"]:
            fail("array-element-distance-differs-from-stride", i, "stride vs addresses", measured=strides[i], spec=sp)
        k = d["k"]
        inf = info[i]
        exp = None
        if k == "prim":
            tok = d["tok"]
            if tok[0] in "IU" and tok[1:].isdigit():
                w = 64 if tok[1:] == "255" else int(tok[1:])
                exp = ["int", str(w), "1" if tok[0] == "I" else "0"]
            elif tok[0] == "F":
                exp = ["float", tok[1:]]
            else:
                exp = {"bool": ["bool"], "char": ["char"], "str": ["str"], "type": ["type"], "any": ["any"],
                       "rawptr0": ["rawptr", "0"], "rawptr1": ["rawptr", "1"], "rawslice": ["rawslice"],
                       "void": ["void"]}[tok]
        elif k == "arr":
            exp = ["arr", str(d["n"]), str(raw.get(d["a"]))]
        elif k == "slice":
            exp = ["slice", str(raw.get(d["a"]))]
        elif k == "ptr":
            exp = ["ptr", str(raw.get(d["a"])), str(d["mut"])]
        elif k == "dist":
            exp = ["dist", str(raw.get(d["a"]))]
        elif k == "struct":
            exp = ["struct", str(len(d["ms"]))] + ["f%d:%d:%s" % (j, sp["offs"][j] if sp and sp["offs"] else -1, raw.get(m))
                                                   for j, m in enumerate(d["ms"])]
            if i in offs and sp is not None and sp["offs"] is not None and len(offs[i]) == len(sp["offs"]):
                # the address of a zero-sized field is not meaningful (nothing is stored): skip those
                bad = [j for j, m in enumerate(d["ms"]) if spec[m] is not None and spec[m]["size"] > 0
                       and offs[i][j] != sp["offs"][j]]
                if bad:
                    fail("field-address-differs-from-reflected-offset", i, "field addresses", measured=offs[i],
                         spec=sp, fields=bad)
        elif k == "enum":
            exp = inf[:]   # checked field by field below
            if sp is not None and (len(inf) < 3 or inf[0] != "enum" or int(inf[1]) != sp["discr"] or int(inf[2]) != len(d["vs"])):
                fail("reflected-info-wrong", i, "enum tag offset / variant count", reflected=inf, spec=sp)
            for j, vtxt in enumerate(inf[3:]):
                vf = vtxt.split(":")
                m = d["vs"][j] if j < len(d["vs"]) else None
                if len(vf) != 5:
                    fail("reflected-info-wrong", i, "variant entry malformed", reflected=inf)
                    continue
                if m is not None and int(vf[1]) != raw.get(m):
                    fail("reflected-info-wrong", i, "variant payload type id", reflected=inf, expected=raw.get(m))
                if int(vf[2]) != j:
                    fail("reflected-info-wrong", i, "variant discriminant", reflected=inf, expected=j)
                if m is not None and m in lay and [int(vf[3]), int(vf[4])] != lay[m][:2]:
                    fail("reflected-layout-wrong", i, "variant size/align differs from payload", reflected=inf,
                         payload_layout=lay[m][:2])
        elif k == "opt":
            nz = 1 if L.is_pointer(lty_of(defs, d["a"])) else 0
            exp = ["opt", str(raw.get(d["a"])), str(nz), inf[3] if nz else str(sp["discr"] if sp else -1)]
        elif k == "eu":
            exp = ["eu", str(raw.get(d["e"])), str(raw.get(d["p"])), str(sp["discr"] if sp else -1)]
        elif k == "fnptr":
            exp = ["fn"]
        if exp is not None and inf != exp:
            fail("reflected-info-wrong", i, "get_type_info", reflected=inf, expected=exp)
        # type-value equality
        row = eqrows[i]
        for j in range(n):
            checks += 1
            want = "1" if canon(defs, i) == canon(defs, j) else "0"
            if j < len(row) and row[j] != want:
                a, bb = lty_of(defs, i), lty_of(defs, j)
                cls = "isize-usize-share-id-with-fixed-width-int" if known_pair(a, bb, 64) else "type-value-equality-wrong"
                fail(cls, i, "T%d == T%d is %s, expected %s" % (i, j, row[j], want),
                     other="T%d :: %s" % (j, expr_of(defs, j)))
        if i in anyrows:
            row = anyrows[i]
            for j in range(n):
                want = "1" if canon(defs, i) == canon(defs, j) else "0"
                if j < len(row) and row[j] != want:
                    a, bb = lty_of(defs, i), lty_of(defs, j)
                    cls = "isize-usize-share-id-with-fixed-width-int" if known_pair(a, bb, 64) else "any-carries-wrong-type"
                    fail(cls, i, "(any of T%d).ty == T%d is %s, expected %s" % (i, j, row[j], want),
                         other="T%d :: %s" % (j, expr_of(defs, j)))
    return checks


def stream_e2e(fl, v, capy, drv17, tier):
    rng = fl.rng.fork("e2e")
    nprog = 24 if tier == "quick" else 300
    progs = []
    for k in range(nprog):
        defs = gen_defs(rng, rng.range(8, 30) if k else 30)
        progs.append((defs, program(defs)))
    counts = v.coverage.setdefault("failing_inputs_by_class", {})
    results = C.parallel_map(lambda p: run_program(capy, p[1], ""), progs)
    ok = 0
    rejected = 0
    checks = 0
    first_rej = None
    for (defs, src), (res, err) in zip(progs, results):
        if res is None:
            rejected += 1
            if first_rej is None:
                first_rej = {"error": err, "program": src}
            continue
        rc, out = res
        if rc != 0:
            L.report(v, counts, "reflection-program-aborts", {"key": "abort:" + C.sha(src), "exit": rc,
                     "output": out[-1500:], "program": src})
            continue
        ok += 1
        spec = spec_layouts(drv17, defs)
        checks += check_program(v, counts, defs, out, spec, src)
    v.coverage["e2e_programs"] = {"generated": len(progs), "built_and_run": ok, "rejected_by_compiler": rejected}
    if first_rej is not None:
        v.coverage["e2e_first_rejected"] = first_rej
    if ok < max(1, len(progs) // 2):
        fl.broken.append({"what": "end-to-end stream: most generated programs are rejected by the compiler",
                          "first": first_rej})
    fl.stream("end-to-end reflection programs (real capy, 64-bit host)", ok, 0, None)
    v.coverage["evaluations"] += checks
    v.coverage["distinct_nontrivial"] += ok


def run(tier, seed):
    fl = Flow("C18", tier, seed, "proof")
    v = fl.v
    fl.proof_stage()
    drv = fl.driver()
    har = fl.harness("h_c18")
    if drv and har:
        stream_ids(fl, v, drv, har, tier)
    ok17, out17, drv17 = __import__("verif.coqtools", fromlist=["x"]).build_driver("C17")
    capy = fl.capy()
    if capy and ok17:
        stream_e2e(fl, v, capy, drv17, tier)
    elif not ok17:
        fl.broken.append({"what": "C17 model driver (layout specification) did not build", "output": out17[-1500:]})
    v.coverage["rule"] = (
        "stream A: sequences of <= 30 run-time types (C17's leaf types, depth-1 pool, random depth 2, repeats) through the "
        "real to_type_id with a fresh table, both pointer widths; non-trivial = sequence of >= 2 types. "
        "stream B: generated capy programs with <= 30 type definitions (prims, arrays, slices, pointers, distinct, structs, "
        "enums, optionals, error unions, function types over earlier definitions), built and run with the real capy; every "
        "reflected number, every pair T_i == T_j and every any.ty == T_j is one evaluation.")
    v.assumptions = [
        "proved: bit packing/unpacking of simple ids, asserts never fire, simple ids carry the specified size/align/width/sign/"
        "mutability, injectivity of simple ids except the known class, arithmetic of compound ids (kind, counter < 2^26), and the "
        "table invariant of the modelled to_type_id walk for any request sequence (a type keeps its id; different compound types "
        "never share an id; id equality = type equality outside the isize/i64 class, final counters <= 2^26 as hypothesis)",
        "modelled and compared on every run, not proved: that the layout/info arrays emitted by ty_info.rs are in per-kind counter "
        "order (index i of a kind's array describes the type numbered i)",
        "not modelled, end to end only: ty_info.rs table emission (layout arrays, info arrays, member/variant tables, relocations), "
        "cast_into_memory (_, Any)/(_, Type); 64-bit host only for stream B",
        "type identity oracle in stream B: struct/enum/distinct definitions are nominal per definition, all other constructors structural",
    ]
    return fl.finish()


def replay(path):
    r = json.load(open(path))
    print(json.dumps({k: v for k, v in r.items() if k != "program"}, indent=1))
    if "program" in r:
        fl = Flow("C18", "quick", 0, "proof")
        capy = fl.capy()
        if capy:
            res, err = run_program(capy, r["program"], "")
            print(err if res is None else "exit %d\n%s" % res)
    return 0
