"""C10 — Out-of-range indexing and wrong #unwrap always abort before touching memory (DESIGN.md C10).

End-to-end streams through the real `capy` executable (programs read their indices / variant
numbers from stdin at run time, so nothing is folded or rejected at compile time):

  index       generated programs holding 1-, 2- and 3-dimensional arrays with sentinels between them;
              eleven access shapes (fixed array, slice, ^array, ^^array, ^slice, nested 2/3 levels, slice of
              arrays, array of slices, array of pointers to arrays, pointer to nested array) x read / write x
              boundary-biased index tuples; every index expression prints a marker when it is evaluated, a
              marker is printed after the access and all arrays and sentinels are dumped before and after.
              real behaviour  vs  extracted model (Model/IndexCheck.v: generated-code trace over a fake memory)
                              vs  extracted spec (Spec/IndexCheckSpec.v lookup: value-level semantics).
  unwrap      random enums (manual discriminants, payloads), ?u64, ?^u64, str!u64: every (held, wanted) pair.
  literal     literal indexes on fixed arrays / pointers to arrays / slices: capy rejects iff model says so.
  index-types every integer type as index type: accepted iff model `idx_ty_accepted`.
  known       inputs of the known-finding classes (u128 index, zero-sized elements, 8-bit tag overflow,
              compiler panic on a zero-length inner array); classified by the extracted `known_class`.
"""
import json
import os
import re
import subprocess

from .. import common as C
from ..flow import Flow

K_WIDE = "index-type-wider-than-64-bits-truncated"
K_ZST = "zero-sized-element-index-unchecked"
K_TAG = "enum-discriminant-above-255-wraps-in-8-bit-tag"
K_PANIC = "nested-index-through-zero-length-inner-array-panics-compiler"

ELEMS = [("u8", 1), ("u16", 2), ("i32", 4), ("u64", 8)]
# every index type the checker accepts (the index-types stream checks that these are exactly the accepted ones)
ITYS = [("u8", 8), ("u16", 16), ("u32", 32), ("u64", 64), ("usize", 64), ("u128", 128)]
WVAL = 199

PRELUDE = """putchar :: (c: char) extern;
getchar :: () -> i32 extern;
pd :: (n: u64) {
    if n >= 10 { pd(n / 10); }
    putchar(char.(u8.(48 + n % 10)));
}
rd :: () -> u64 {
    n : u64 = 0;
    loop {
        c := getchar();
        if c < 48 || c > 57 { break; }
        n = n * 10 + u64.(c - 48);
    }
    n
}
"""

SHAPES = ["arr1", "slice", "parr", "pparr", "pslice", "nest2", "nest3", "slarr", "arrsl", "arrptr", "parr2"]
NIDX = {"arr1": 1, "slice": 1, "parr": 1, "pparr": 1, "pslice": 1, "nest2": 2, "nest3": 3, "slarr": 2,
        "arrsl": 2, "arrptr": 2, "parr2": 2}
SRC = {"arr1": "s.a1", "slice": "sl1", "parr": "p1", "pparr": "pp1", "pslice": "ps1", "nest2": "s.a2",
       "nest3": "s.a3", "slarr": "sl2", "arrsl": "ys", "arrptr": "xs", "parr2": "p2"}

# fake addresses used only by the model's memory
A_S = 0x10000
H1, PC1, H2, B1, B2 = 0x2000, 0x3000, 0x2100, 0x4000, 0x5000


class Scn:
    """One generated program: element type, index type, dimensions."""

    def __init__(self, T, IT, n1, n, m, d3):
        self.T, self.tb = T
        self.IT, self.ib = IT
        self.n1, self.n, self.m, self.d3 = n1, n, m, d3
        st = self.tb
        self.A1 = A_S + 8
        self.A2 = self.A1 + n1 * st + 8
        self.A3 = self.A2 + n * m * st + 8
        self.v1 = [1 + i for i in range(n1)]
        self.v2 = [[20 + i * m + j for j in range(m)] for i in range(n)]
        a, b, c = d3
        self.v3 = [[[80 + (i * b + j) * c + k for k in range(c)] for j in range(b)] for i in range(a)]

    def key(self):
        return "%s/%s/%d/%d/%d/%s" % (self.T, self.IT, self.n1, self.n, self.m, "x".join(map(str, self.d3)))

    def to_json(self):
        return {"T": [self.T, self.tb], "IT": [self.IT, self.ib], "n1": self.n1, "n": self.n, "m": self.m,
                "d3": list(self.d3)}

    @staticmethod
    def from_json(j):
        return Scn(tuple(j["T"]), tuple(j["IT"]), j["n1"], j["n"], j["m"], tuple(j["d3"]))

    # ---- capy source -------------------------------------------------------------------
    def source(self):
        T, IT, n1, n, m = self.T, self.IT, self.n1, self.n, self.m
        a, b, c = self.d3
        L = [PRELUDE]
        KT = "u64" if IT == "u128" else IT
        for lv, ch in enumerate("abc"):
            L.append("k%d :: (v: %s) -> %s { putchar('%s'); v }" % (lv, KT, KT, ch))
        L.append("S :: struct { g0: u64, a1: [%d]%s, g1: u64, a2: [%d][%d]%s, g2: u64, a3: [%d][%d][%d]%s, g3: u64 };"
                 % (n1, T, n, m, T, a, b, c, T))
        L.append("dump :: (s: ^S) {")
        L.append("    pd(s.g0);")
        L.append("    i : usize = 0; while i < %d { putchar(' '); pd(u64.(s.a1[i])); i += 1; }" % n1)
        L.append("    putchar(' '); pd(s.g1);")
        L.append("    i = 0; while i < %d { j : usize = 0; while j < %d { putchar(' '); pd(u64.(s.a2[i][j])); j += 1; } i += 1; }" % (n, m))
        L.append("    putchar(' '); pd(s.g2);")
        L.append("    i = 0; while i < %d { j : usize = 0; while j < %d { k : usize = 0; while k < %d { putchar(' '); "
                 "pd(u64.(s.a3[i][j][k])); k += 1; } j += 1; } i += 1; }" % (a, b, c))
        L.append("    putchar(' '); pd(s.g3); putchar('\\n');")
        L.append("}")

        def lit(x):
            if isinstance(x, list):
                return ".[" + ", ".join(lit(y) for y in x) + "]"
            return str(x)
        L.append("main :: () { loop { if one() { break; } } }")
        L.append("one :: () -> bool {")
        L.append("    mode := rd(); i0 := rd(); i1 := rd(); i2 := rd(); h0 := rd(); h1 := rd(); h2 := rd();")
        L.append("    if mode == 99 { return true; }")
        if IT == "u128":
            for lv in range(3):
                # w = h * 2^64, computed in u128 at run time
                L.append("    w%d : u128 = u128.(h%d); w%d = w%d * 18446744073709551615 + w%d;" % (lv, lv, lv, lv, lv))
        L.append("    s := S.{ g0 = 1111, a1 = %s, g1 = 2222, a2 = %s, g2 = 3333, a3 = %s, g3 = 4444 };"
                 % (lit(self.v1), lit(self.v2), lit(self.v3)))
        L.append("    dump(^s);")
        L.append("    sl1 : []%s = s.a1;" % T)
        L.append("    p1 := ^mut s.a1;")
        L.append("    pp1 := ^mut p1;")
        L.append("    ps1 := ^mut sl1;")
        L.append("    sl2 : [][%d]%s = s.a2;" % (m, T))
        L.append("    ys : [%d][]%s = .[%s];" % (n, T, ", ".join("s.a2[%d]" % i for i in range(n))))
        L.append("    xs : [%d]^mut [%d]%s = .[%s];" % (n, m, T, ", ".join("^mut s.a2[%d]" % i for i in range(n))))
        L.append("    p2 := ^mut s.a2;")
        L.append("    putchar('A'); putchar('\\n');")
        first = True
        for si, sh in enumerate(SHAPES):
            if IT == "u128":
                ix = "".join("[u128.(k%d(i%d)) + w%d]" % (lv, lv, lv) for lv in range(NIDX[sh]))
            else:
                ix = "".join("[k%d(%s.(i%d))]" % (lv, IT, lv) for lv in range(NIDX[sh]))
            for rw in (0, 1):
                L.append("    %sif mode == %d {" % ("" if first else "else ", si * 2 + rw))
                first = False
                if rw == 0:
                    L.append("        v := %s%s;" % (SRC[sh], ix))
                    L.append("        putchar('='); pd(u64.(v)); putchar('\\n');")
                else:
                    L.append("        %s%s = %d;" % (SRC[sh], ix, WVAL))
                    L.append("        putchar('\\n');")
                L.append("    }")
        L.append("    putchar('Z'); putchar('\\n');")
        L.append("    dump(^s);")
        L.append("    false")
        L.append("}")
        return "\n".join(L) + "\n"

    # ---- model side ----------------------------------------------------------------------
    def ty_tokens(self, sh):
        T = "i%x" % self.tb
        n1, n, m = self.n1, self.n, self.m
        a, b, c = self.d3
        return {
            "arr1": "a %x %s" % (n1, T), "slice": "s %s" % T, "parr": "p a %x %s" % (n1, T),
            "pparr": "p p a %x %s" % (n1, T), "pslice": "p s %s" % T,
            "nest2": "a %x a %x %s" % (n, m, T), "nest3": "a %x a %x a %x %s" % (a, b, c, T),
            "slarr": "s a %x %s" % (m, T), "arrsl": "a %x s %s" % (n, T),
            "arrptr": "a %x p a %x %s" % (n, m, T), "parr2": "p a %x a %x %s" % (n, m, T)}[sh]

    def root_val(self, sh):
        return {"arr1": self.A1, "slice": H1, "parr": self.A1, "pparr": PC1, "pslice": H1, "nest2": self.A2,
                "nest3": self.A3, "slarr": H2, "arrsl": B1, "arrptr": B2, "parr2": self.A2}[sh]

    def memory(self):
        st = self.tb
        cells = {H1: self.n1, H1 + 8: self.A1, PC1: self.A1, H2: self.n, H2 + 8: self.A2}
        for i in range(self.n):
            cells[B1 + 16 * i] = self.m
            cells[B1 + 16 * i + 8] = self.A2 + i * self.m * st
            cells[B2 + 8 * i] = self.A2 + i * self.m * st
        return ",".join("%x=%x" % kv for kv in sorted(cells.items()))

    def model_line(self, sh, rw, idx):
        e = "root %s %x" % (self.ty_tokens(sh), self.root_val(sh))
        for lv, iv in enumerate(idx):
            e = "idx %x u %x %x %s" % (self.ib, lv + 1, iv, e)
        stmt = ("R " + e) if rw == 0 else ("W - " + e)
        return "X %s M 64 %s M 65" % (self.memory(), stmt)

    def elem_at(self, addr):
        """fake address -> (array name, flat index, id) or None"""
        st = self.tb
        a, b, c = self.d3
        for name, base, cnt in (("a1", self.A1, self.n1), ("a2", self.A2, self.n * self.m), ("a3", self.A3, a * b * c)):
            if base <= addr < base + cnt * st and (addr - base) % st == 0:
                k = (addr - base) // st
                ident = {"a1": 1, "a2": 20, "a3": 80}[name] + k
                return (name, k, ident)
        return None

    # ---- spec side -----------------------------------------------------------------------
    def aval(self, sh):
        def arr(k, x):
            return "%s %x %s" % (k, len(x), " ".join(arr("A", y) if isinstance(y, list) else "n %x" % y for y in x))
        if sh == "arr1":
            return arr("A", self.v1)
        if sh == "slice":
            return arr("S", self.v1)
        if sh == "parr":
            return "P " + arr("A", self.v1)
        if sh == "pparr":
            return "P P " + arr("A", self.v1)
        if sh == "pslice":
            return "P " + arr("S", self.v1)
        if sh == "nest2":
            return arr("A", self.v2)
        if sh == "nest3":
            return arr("A", self.v3)
        if sh == "slarr":
            return arr("S", self.v2)
        if sh == "arrsl":
            return "A %x %s" % (self.n, " ".join(arr("S", r) for r in self.v2))
        if sh == "arrptr":
            return "A %x %s" % (self.n, " ".join("P " + arr("A", r) for r in self.v2))
        if sh == "parr2":
            return "P " + arr("A", self.v2)
        raise KeyError(sh)

    def spec_line(self, sh, idx):
        return "V %s | %s" % (" ".join("%x:%x" % (lv + 1, iv) for lv, iv in enumerate(idx)), self.aval(sh))

    def lens(self, sh):
        a, b, c = self.d3
        return {"arr1": [self.n1], "slice": [self.n1], "parr": [self.n1], "pparr": [self.n1], "pslice": [self.n1],
                "nest2": [self.n, self.m], "nest3": [a, b, c], "slarr": [self.n, self.m], "arrsl": [self.n, self.m],
                "arrptr": [self.n, self.m], "parr2": [self.n, self.m]}[sh]

    def flat_dump(self, write_id=None):
        out = [1111]
        ids = [1 + i for i in range(self.n1)]
        out += [WVAL if x == write_id else x for x in ids]
        out.append(2222)
        ids = [x for r in self.v2 for x in r]
        out += [WVAL if x == write_id else x for x in ids]
        out.append(3333)
        ids = [x for p in self.v3 for r in p for x in r]
        out += [WVAL if x == write_id else x for x in ids]
        out.append(4444)
        return out


def gen_scn(rng):
    T = rng.choice(ELEMS)
    IT = rng.choice(ITYS)
    return Scn(T, IT, rng.range(1, 6), rng.range(1, 4), rng.range(1, 4),
               (rng.range(1, 3), rng.range(1, 3), rng.range(1, 4)))


def index_choices(rng, ln, ibits):
    mx = (1 << ibits) - 1
    cands = [0, ln - 1, ln, ln + 1, ln + 4, rng.range(0, ln + 4), rng.range(0, ln + 4), mx]
    if ibits >= 64:
        cands += [1 << 63, (1 << 63) + rng.range(0, ln), (1 << 64) - ln if ln else mx]
    if ibits > 64:
        # 2^64 + k with k in range (the truncation class of finding C10-1), 2^64 + len, a high half only
        cands += [(1 << 64) + rng.range(0, max(0, ln - 1)), (1 << 64) + ln, (1 << 64) + ln - 1 if ln else 1 << 64,
                  rng.range(1, 5) << 64, (1 << 127) + rng.range(0, ln)]
    if ibits >= 16:
        cands.append(256 + rng.range(0, ln))
    if ibits >= 32:
        cands.append((1 << 32) + rng.range(0, ln) if ibits > 32 else mx - 1)
    cands = [min(x, mx) for x in cands]
    return [x for x in cands if 0 <= x <= mx]


BOUNDARY = (("len-1", -1), ("len", 0), ("len+1", 1), ("len+4", 4))


def gen_cases(rng, scn, per_mode):
    """[(shape, rw, idx tuple)].  Mandatory: for every shape, both access kinds and EVERY level (incl. the
    innermost) the index values len-1, len, len+1, len+4 while the other levels are in range.  On top of
    that per_mode boundary-biased / extreme tuples per (shape, access kind)."""
    out = []
    mx = (1 << scn.ib) - 1
    for sh in SHAPES:
        lens = scn.lens(sh)
        for rw in (0, 1):
            if sh == "arrsl" and rw == 1:
                continue    # the slices of `ys` view copies of the rows (array -> slice cast of an rvalue):
                            # a write through them is not visible in the dump; slice writes are covered by
                            # slice / pslice / slarr
            seen = set()
            for lv, ln in enumerate(lens):
                for _, d in BOUNDARY:
                    t = [rng.range(0, max(0, l - 1)) for l in lens]
                    t[lv] = min(mx, max(0, ln + d))
                    t = tuple(t)
                    if t not in seen:
                        seen.add(t)
                        out.append((sh, rw, t))
            extra = 0
            tries = 0
            while extra < per_mode and tries < 8 * per_mode:
                tries += 1
                t = tuple(rng.choice(index_choices(rng, ln, scn.ib)) if rng.chance(1, 2) else rng.range(0, ln + 1)
                          for ln in lens)
                if t in seen:
                    continue
                seen.add(t)
                out.append((sh, rw, t))
                extra += 1
    return out


def value_class(i, ln):
    for name, d in BOUNDARY:
        if i == ln + d:
            return name
    return "in-range" if i < ln else "beyond"


MSG_RE = re.compile(r"^in (\S+) : entered unreachable code: (.*)$")


def parse_real(stdout, rc):
    """-> dict(pre, markers, abort, value, z, post, rc, raw)"""
    lines = stdout.split("\n")
    r = {"pre": None, "markers": None, "abort": None, "value": None, "z": False, "post": None, "rc": rc,
         "extra": []}
    try:
        r["pre"] = [int(x) for x in lines[0].split()]
    except (ValueError, IndexError):
        r["extra"].append("bad pre dump")
        return r
    if len(lines) < 3 or lines[1] != "A":
        r["extra"].append("missing A")
        return r
    acc = lines[2]
    if "=" in acc:
        mk, val = acc.split("=", 1)
        r["markers"] = mk
        try:
            r["value"] = int(val)
        except ValueError:
            r["extra"].append("bad value")
    else:
        r["markers"] = acc
    rest = lines[3:]
    if len(rest) >= 2 and rest[0] == "":
        m = MSG_RE.match(rest[1])
        if m:
            r["abort"] = m.group(2)
            rest = rest[2:]
            if [x for x in rest if x != ""]:
                r["extra"].append("output after abort message")
            return r
    if rest and rest[0] == "Z":
        r["z"] = True
        try:
            r["post"] = [int(x) for x in rest[1].split()]
        except (ValueError, IndexError):
            r["extra"].append("bad post dump")
        if [x for x in rest[2:] if x != ""]:
            r["extra"].append("trailing output")
    else:
        r["extra"].append("unexpected output after access")
    return r


def parse_model(line):
    """-> dict(markers, abort 'A'/'S'/'U'/None, exit, access (kind, addr, w) or None, after) or {'crash': ..}"""
    if not line.startswith("OK"):
        return {"crash": line}
    toks = line.split()
    ab = toks[1] == "1"
    evs = toks[2:]
    r = {"aborted": ab, "markers": "", "abort": None, "exit": None, "access": None, "before": False, "after": False,
         "n_access_after_index": 0}
    for e in evs:
        if e.startswith("P:M"):
            n = int(e[3:], 16)
            if n == 0x64:
                r["before"] = True
            elif n == 0x65:
                r["after"] = True
            else:
                r["markers"] += "abc"[n - 1]
        elif e.startswith("P:"):
            r["abort"] = e[2:]
        elif e.startswith("X:"):
            r["exit"] = int(e[2:], 16)
        elif e[0] in "LS":
            k, a, w = e.split(":")
            r["access"] = (k, int(a, 16), int(w, 16))
    return r


def parse_spec(line):
    if not line.startswith("OK"):
        return {"crash": line}
    r = {"markers": "", "abort": None, "found": None}
    for o in line.split()[1:]:
        if o.startswith("m"):
            r["markers"] += "abc"[int(o[1:], 16) - 1]
        elif o == "abortA":
            r["abort"] = "A"
        elif o == "abortS":
            r["abort"] = "S"
        elif o.startswith("found"):
            r["found"] = int(o[5:], 16)
    return r


# --------------------------------------------------------------------------- fix detection / model variant
# FLAGS[0]: "<fw><fz>" -- which fix candidates the compiler under test contains (fw: C10-1-fix.diff, a
# wider-than-usize index is compared in its own width; fz: C10-2-fix.diff, zero-sized elements are still
# evaluated and checked).  "00" = the unrepaired code: the model is Model/IndexCheck.v exactly as before;
# otherwise Model/IndexCheckFixed.v compf/execf with those flags (C10_fixed_except_known / C10_fixed_full).
FLAGS = ["00"]

WIDE_WITNESS = ("putchar :: (c: char) extern;\nmain :: () {\n    arr := i32.[1, 2, 3, 4];\n"
                "    i : u128 = 18446744073709551615;\n    i = i + 2;\n    putchar('A');\n    x := arr[i];\n"
                "    putchar(char.(u8.(48 + x)));\n    putchar('X');\n}\n")
ZST_WITNESS = ("putchar :: (c: char) extern;\nE :: struct {};\nside :: () -> usize { putchar('S'); 7 }\n"
               "main :: () {\n    arr := E.[E.{}, E.{}];\n    putchar('A');\n    x := arr[side()];\n    putchar('X');\n}\n")


def detect_fixes(capy):
    """Probe the built compiler once with the witness programs of findings C10-1 and C10-2.
    VERIF_C10_FIXED (e.g. "1,2", "2", "") overrides the probe."""
    env = os.environ.get("VERIF_C10_FIXED")
    probes = {}
    for name, src, fixed_out in (("1", WIDE_WITNESS, "A"), ("2", ZST_WITNESS, "AS")):
        rc, out, run = build_only_stdin((capy, src, ""))
        ok = (run is not None and run[0] == 1 and "array index out of bounds" in run[1]
              and run[1].startswith(fixed_out + "\n") and "X" not in run[1].split("\n")[0])
        probes[name] = {"fixed": ok, "build_rc": rc, "run": run}
    if env is not None:
        want = [x.strip() for x in env.split(",") if x.strip()]
        flags = ("1" if "1" in want else "0") + ("1" if "2" in want else "0")
        src_ = "env VERIF_C10_FIXED=%r" % env
    else:
        # pinned: C10-1 (bde6636) and C10-2 (c384026) are committed in /repo, so the repaired lowering
        # (Model/IndexCheckFixed.v compf true true, theorem C10_fixed_full) is the model in force; a compiler
        # that loses a fix no longer corresponds to it and is reported.  The probe result is only recorded.
        flags = "11"
        src_ = "pinned (fixes committed); VERIF_C10_FIXED overrides"
    FLAGS[0] = flags
    return {"flags": flags, "source": src_, "probes": probes}


def ask(drv, lines):
    """Query the extracted models; X / K lines are redirected to the fixed variants when FLAGS != 00."""
    if FLAGS[0] != "00":
        lines = [("XF %s %s" % (FLAGS[0], l[2:])) if l.startswith("X ") else
                 ("KF %s %s" % (FLAGS[0], l[2:])) if l.startswith("K ") else l for l in lines]
    return C.run_lines([drv], lines, indexed=False)


ABORT_TEXT = {"A": "array index out of bounds", "S": "slice index out of bounds"}


def build(capy, d, name, src):
    open(os.path.join(d, name + ".capy"), "w").write(src)
    rc, out = C.run([capy, "build", name + ".capy", "--mod-dir", C.REPO], cwd=d, timeout=180)
    exe = os.path.join(d, "out", name)
    return rc, out, (exe if rc == 0 and os.path.exists(exe) else None)


def run_exe(exe, stdin_text):
    """Run a compiled test program.  A timeout on the (shared, loaded) machine is retried with a much
    longer limit before it is reported as rc 124, so that scheduling delays never look like hangs."""
    last = (124, "")
    for limit in (60, 300):
        try:
            p = subprocess.run([exe], input=stdin_text.encode(), stdout=subprocess.PIPE, stderr=subprocess.PIPE,
                               timeout=limit)
            return p.returncode, p.stdout.decode("latin-1")
        except subprocess.TimeoutExpired as e:
            last = (124, (e.stdout or b"").decode("latin-1"))
    return last


def case_stdin(sh, rw, idx):
    ii = list(idx) + [0, 0, 0]
    return "%d\n%d\n%d\n%d\n%d\n%d\n%d\n" % (SHAPES.index(sh) * 2 + rw, ii[0] & MASK64, ii[1] & MASK64, ii[2] & MASK64,
                                                   ii[0] >> 64, ii[1] >> 64, ii[2] >> 64)


MASK64 = (1 << 64) - 1
END = "99\n0\n0\n0\n0\n0\n0\n"
BATCH = 16


def run_scn(args):
    """cases: [(shape, rw, idx, expect_abort)].  Cases expected to return normally are run back to back in
    one process (the program loops over stdin), each batch ending with one case expected to abort; whenever
    a batch does not parse as expected every case of it is re-run in a process of its own."""
    capy, scn, cases = args
    with C.scratch("verif-c10-") as d:
        src = scn.source()
        rc, out, exe = build(capy, d, "p", src)
        if exe is None:
            return {"build_failed": True, "rc": rc, "output": out[-3000:], "source": src}
        res = [None] * len(cases)
        normal = [i for i, c in enumerate(cases) if not c[3]]
        aborting = [i for i, c in enumerate(cases) if c[3]]
        batches = []
        while normal or aborting:
            b = normal[:BATCH]
            normal = normal[BATCH:]
            if aborting:
                b.append(aborting.pop(0))
            batches.append(b)
        nproc = 0
        for b in batches:
            text = "".join(case_stdin(*cases[i][:3]) for i in b) + END
            rc, out = run_exe(exe, text)
            nproc += 1
            lines = out.split("\n")
            ok = True
            part = []
            for pos, i in enumerate(b):
                last = pos == len(b) - 1
                if last:
                    chunk = lines[5 * pos:]
                    r = (rc, "\n".join(chunk))
                else:
                    chunk = lines[5 * pos:5 * pos + 5]
                    r = (0, "\n".join(chunk) + "\n")
                    pr = parse_real(r[1], 0)
                    if len(chunk) < 5 or pr["extra"] or pr["abort"] or not pr["z"]:
                        ok = False
                part.append(r)
            if ok:
                for i, r in zip(b, part):
                    res[i] = r
            else:
                for i in b:
                    res[i] = run_exe(exe, case_stdin(*cases[i][:3]) + END)
                    nproc += 1
        return {"results": res, "source": src, "processes": nproc}


# --------------------------------------------------------------------------- index stream
def index_stream(fl, capy, drv, tier):
    v = fl.v
    nprog = 12 if tier == "quick" else 36
    per_mode = 3 if tier == "quick" else 6
    g = fl.rng.fork("scn")
    scns = []
    cdir = os.path.join(C.CORPUS, "C10")
    if os.path.isdir(cdir):
        for f in sorted(os.listdir(cdir)):
            if f.endswith(".json"):
                j = json.load(open(os.path.join(cdir, f)))
                if j.get("kind") == "scenario":
                    scns.append(Scn.from_json(j["scn"]))
    ncorpus = len(scns)
    # make sure every element type and index type occurs
    for i in range(nprog):
        s = gen_scn(g)
        if i < len(ITYS) * 2:
            s = Scn(ELEMS[i % len(ELEMS)], ITYS[i % len(ITYS)], s.n1, s.n, s.m, s.d3)
        scns.append(s)
    cg = fl.rng.fork("cases")
    jobs = [(capy, s, gen_cases(cg, s, per_mode)) for s in scns]
    mlines, slines = [], []
    for _, s, cases in jobs:
        for sh, rw, idx in cases:
            mlines.append(s.model_line(sh, rw, idx))
            slines.append(s.spec_line(sh, idx))
    mres = ask(drv, mlines)
    sres = ask(drv, slines)
    k = 0
    jobs2 = []
    for capy_, s, cases in jobs:
        jobs2.append((capy_, s, [(sh, rw, idx, "abort" in sres[k + q]) for q, (sh, rw, idx) in enumerate(cases)]))
        k += len(cases)
    results = C.parallel_map(run_scn, jobs2)
    v.coverage["index_process_runs"] = sum(r.get("processes", 0) for r in results)
    k = 0
    ncase = diffs = 0
    first = None
    nontriv = set()
    matrix = {}        # "index type/shape" -> {"<value class>:<r|w>": cases}   (the other levels in range)
    matrix_inner = {}  # the same, innermost level of the multi-level shapes only
    hist = {"shape": {}, "rw": {"read": 0, "write": 0}, "outcome": {"abort": 0, "access": 0},
            "elem": {}, "index_type": {}, "abort_level": {}}
    for (capy_, s, cases), res in zip(jobs, results):
        if res.get("build_failed"):
            fl.broken.append({"what": "capy rejected or crashed on a generated index program", "rc": res["rc"],
                              "output": res["output"][-1500:], "source": res["source"][:5000], "scenario": s.to_json()})
            k += len(cases)
            continue
        hist["elem"][s.T] = hist["elem"].get(s.T, 0) + 1
        hist["index_type"][s.IT] = hist["index_type"].get(s.IT, 0) + 1
        for (sh, rw, idx), (rc, out) in zip(cases, res["results"]):
            ml, sl = mres[k], sres[k]
            k += 1
            ncase += 1
            real = parse_real(out, rc)
            mod = parse_model(ml)
            spec = parse_spec(sl)
            hist["shape"][sh] = hist["shape"].get(sh, 0) + 1
            for lv, (iv_, ln_) in enumerate(zip(idx, s.lens(sh))):
                if all(j < l for q, (j, l) in enumerate(zip(idx, s.lens(sh))) if q != lv):
                    cell = matrix.setdefault("%s/%s" % (s.IT, sh), {})
                    kk = "%s:%s" % (value_class(iv_, ln_), "w" if rw else "r")
                    cell[kk] = cell.get(kk, 0) + 1
                    if lv == len(idx) - 1 and len(idx) > 1:
                        inner = matrix_inner.setdefault("%s/%s" % (s.IT, sh), {})
                        inner[kk] = inner.get(kk, 0) + 1
            hist["rw"]["write" if rw else "read"] += 1
            payload = {"key": "idx:%s:%s:%d:%s" % (s.key(), sh, rw, idx), "stream": "index", "scenario": s.to_json(),
                       "shape": sh, "access": "write" if rw else "read", "indices": list(idx),
                       "stdin": case_stdin(sh, rw, idx) + END, "source": res["source"],
                       "implementation": {"exit_status": rc, "stdout": out[-600:]},
                       "model": ml, "spec": sl}
            if "crash" in mod or "crash" in spec:
                diffs += 1
                first = first or dict(payload, why="model/spec crashed")
                continue
            # ---- expectation from the model trace
            exp_m = expect_from(s, mod["markers"], mod["abort"], (s.elem_at(mod["access"][1]) or (None, None, -1))[2]
                                if (mod["access"] and not mod["aborted"]) else None, rw)
            # ---- expectation from the spec
            exp_s = expect_from(s, spec["markers"], spec["abort"], spec["found"], rw)
            got = observe(s, real)
            if mod["access"] and not mod["aborted"] and mod["access"][2] != s.tb:
                diffs += 1
                first = first or dict(payload, why="model access width differs from element size")
            if got != exp_m:
                diffs += 1
                first = first or dict(payload, why="real behaviour differs from model", got=got, model_expects=exp_m)
            if got != exp_s:
                cls = classify_index_failure(got, exp_s, sh, rw)
                v.failing(cls, dict(payload, got=got, spec_expects=exp_s))
            if spec["abort"]:
                hist["outcome"]["abort"] += 1
                lvl = len(spec["markers"])
                hist["abort_level"][lvl] = hist["abort_level"].get(lvl, 0) + 1
            else:
                hist["outcome"]["access"] += 1
            lens = s.lens(sh)
            if any(i >= l - 1 for i, l in zip(idx, lens)):
                nontriv.add(C.sha(payload["key"]))
    fl.stream("index: real capy programs vs Model/IndexCheck.v exec (trace over fake memory)", ncase, diffs, first)
    v.coverage["evaluations"] += ncase
    v.coverage["distinct_nontrivial"] += len(nontriv)
    v.coverage["index_programs"] = len(scns)
    v.coverage["corpus_scenarios"] = ncorpus
    v.coverage["histograms"] = hist
    # every accepted index type x every shape x {len-1, len, len+1, len+4} x {read, write}
    need = [(it[0], sh, b[0], rw) for it in ITYS for sh in SHAPES for b in BOUNDARY for rw in "rw"
            if not (sh == "arrsl" and rw == "w")]
    counts = [matrix.get("%s/%s" % (it, sh), {}).get("%s:%s" % (b, rw), 0) for it, sh, b, rw in need]
    need_in = [(it[0], sh, b[0], rw) for it in ITYS for sh in SHAPES if NIDX[sh] > 1 for b in BOUNDARY for rw in "rw"
               if not (sh == "arrsl" and rw == "w")]
    counts_in = [matrix_inner.get("%s/%s" % (it, sh), {}).get("%s:%s" % (b, rw), 0) for it, sh, b, rw in need_in]
    v.coverage["index_type_x_shape_x_value_class"] = matrix
    v.coverage["index_type_x_shape_x_value_class_innermost_level"] = matrix_inner
    v.coverage["boundary_cells_required"] = len(need) + len(need_in)
    v.coverage["boundary_cells_covered"] = sum(1 for c in counts + counts_in if c > 0)
    v.coverage["min_cases_per_boundary_cell"] = min(counts + counts_in) if counts else 0
    missing = [n for n, c in zip(need + need_in, counts + counts_in) if c == 0]
    if missing and not any(r.get("build_failed") for r in results):
        fl.broken.append({"what": "generator coverage hole: (index type, shape, boundary value, access) never exercised",
                          "missing": missing[:20]})
    v.add_samples([{"scenario": s.to_json(), "cases": [[sh, rw, list(i)] for sh, rw, i in cs[:4]]}
                   for _, s, cs in jobs[ncorpus:ncorpus + 2]])


def expect_from(s, markers, abort, ident, rw):
    """canonical observable: (markers, abort text, exit, value read, Z seen, post dump)"""
    pre = s.flat_dump()
    if abort:
        return {"pre": pre, "markers": markers, "abort": ABORT_TEXT.get(abort, abort), "rc": 1, "value": None,
                "z": False, "post": None}
    if rw == 0:
        return {"pre": pre, "markers": markers, "abort": None, "rc": 0, "value": ident, "z": True, "post": pre}
    return {"pre": pre, "markers": markers, "abort": None, "rc": 0, "value": None, "z": True,
            "post": s.flat_dump(write_id=ident)}


def observe(s, real):
    if real["extra"]:
        return {"malformed": real["extra"], "rc": real["rc"]}
    return {"pre": real["pre"], "markers": real["markers"], "abort": real["abort"], "rc": real["rc"],
            "value": real["value"], "z": real["z"], "post": real["post"]}


def classify_index_failure(got, exp, sh, rw):
    acc = "write" if rw else "read"
    if exp.get("abort") and not got.get("abort"):
        return "out-of-range-%s-not-aborted:%s" % (acc, sh)
    if exp.get("abort") and got.get("abort") and got.get("markers") != exp.get("markers"):
        return "abort-at-wrong-point:%s" % sh
    if exp.get("abort"):
        return "wrong-abort-message-or-status:%s" % sh
    if got.get("abort"):
        return "in-range-%s-aborted:%s" % (acc, sh)
    return "in-range-%s-touches-wrong-element:%s" % (acc, sh)


# --------------------------------------------------------------------------- unwrap stream
PAYLOADS = [None, ("u8", 1), ("i32", 4), ("u64", 8)]


def gen_enum(rng, overflow=False):
    n = rng.range(2, 6)
    vs = []
    used = set()
    for i in range(n):
        man = None
        if rng.chance(1, 3):
            man = rng.range(0, 40) if rng.chance(2, 3) else rng.range(200, 250)
            if man in used:
                man = None
            else:
                used.add(man)
        vs.append({"payload": rng.choice(PAYLOADS), "manual": man})
    if overflow:
        k = rng.range(0, n - 2)
        vs[k]["manual"] = 255
        for j, x in enumerate(vs):
            if j != k and x["manual"] == 255:
                x["manual"] = None
    return vs


def enum_source(vs):
    L = [PRELUDE, "E :: enum {"]
    for i, x in enumerate(vs):
        L.append("    V%d%s%s," % (i, (": " + x["payload"][0]) if x["payload"] else "",
                                   (" | %d" % x["manual"]) if x["manual"] is not None else ""))
    L.append("};")
    L.append("mk :: (h: u64) -> E {")
    for i, x in enumerate(vs):
        val = "E.V%d.(%d)" % (i, 40 + i) if x["payload"] else "E.V%d" % i
        L.append("    if h == %d { return %s; }" % (i, val))
    L.append("    E.V0%s" % (".(40)" if vs[0]["payload"] else ""))
    L.append("}")
    L.append("mko :: (h: u64) -> ?u64 { if h == 0 { return nil; } 77 }")
    L.append("mkp :: (h: u64, p: ^u64) -> ?^u64 { if h == 0 { return nil; } p }")
    L.append("mkr :: (h: u64) -> str!u64 { if h == 0 { return \"bad\"; } 88 }")
    L.append("main :: () {")
    L.append("    kind := rd(); h := rd(); w := rd();")
    L.append("    cell : u64 = 66;")
    L.append("    putchar('A'); putchar('\\n');")
    L.append("    if kind == 0 {")
    L.append("        e := mk(h);")
    for i, x in enumerate(vs):
        L.append("        %sif w == %d { x := #unwrap(e, E.V%d); putchar('u');%s }"
                 % ("" if i == 0 else "else ", i, i, (" pd(u64.(%s.(x)));" % x["payload"][0]) if x["payload"] else ""))
    L.append("    } else if kind == 1 {")
    L.append("        o := mko(h);")
    L.append("        if w == 0 { x := #unwrap(o, nil); putchar('u'); } else { x := #unwrap(o, u64); putchar('u'); pd(x); }")
    L.append("    } else if kind == 2 {")
    L.append("        o := mkp(h, ^cell);")
    L.append("        if w == 0 { x := #unwrap(o, nil); putchar('u'); } else { x := #unwrap(o, ^u64); putchar('u'); pd(x^); }")
    L.append("    } else {")
    L.append("        o := mkr(h);")
    L.append("        if w == 0 { x := #unwrap(o, str); putchar('u'); } else { x := #unwrap(o, u64); putchar('u'); pd(x); }")
    L.append("    }")
    L.append("    putchar('\\n'); putchar('Z'); putchar('\\n');")
    L.append("}")
    return "\n".join(L) + "\n"


def run_enum(args):
    capy, vs, cases = args
    with C.scratch("verif-c10u-") as d:
        src = enum_source(vs)
        rc, out, exe = build(capy, d, "u", src)
        if exe is None:
            return {"build_failed": True, "rc": rc, "output": out[-3000:], "source": src}
        return {"results": [run_exe(exe, "%d\n%d\n%d\n" % c) for c in cases], "source": src}


def unwrap_stream(fl, capy, drv, tier):
    v = fl.v
    nprog = 10 if tier == "quick" else 30
    g = fl.rng.fork("enum")
    enums = [gen_enum(g, overflow=(i % 5 == 4)) for i in range(nprog)]
    # always present: the smallest declaration whose automatic discriminant leaves the 8-bit tag
    enums[0] = [{"payload": None, "manual": None}, {"payload": None, "manual": 255}, {"payload": ("i32", 4), "manual": None}]
    dl = ["D " + " ".join("-" if x["manual"] is None else "%x" % x["manual"] for x in vs) for vs in enums]
    dres = ask(drv, dl)
    jobs = []
    mlines = []
    meta = []
    for vs, dr in zip(enums, dres):
        if not dr.startswith("OK"):
            fl.broken.append({"what": "model assign_discrims failed", "enum": vs, "output": dr})
            continue
        toks = dr.split()
        ds = [int(x, 16) for x in toks[1:-1]]
        ovf = toks[-1] == "ovf=1"
        cases = [(0, h, w) for h in range(len(vs)) for w in range(len(vs))]
        cases += [(k, h, w) for k in (1, 2, 3) for h in (0, 1) for w in (0, 1)]
        for (k, h, w) in cases:
            if k == 0:
                pb = vs[w]["payload"][1] if vs[w]["payload"] else 0
                mlines.append("X 1010=%x M 64 UT 10 %x 1000 %x M 65" % (ds[h] % 256, pb, ds[w]))
            elif k == 2:
                mlines.append("X - M 64 UN %x %s M 65" % (0 if h == 0 else 0x7000, "N" if w == 0 else "V"))
            else:
                # ?u64: nil = 0, some = 1;  str!u64: error = 0, payload = 1
                mlines.append("X 1010=%x M 64 UT 10 %x 1000 %x M 65" % (h, 0 if (k == 1 and w == 0) else 8, w))
        jobs.append((capy, vs, cases))
        meta.append((ds, ovf))
    mres = ask(drv, mlines)
    results = C.parallel_map(run_enum, jobs)
    k = 0
    ncase = diffs = 0
    first = None
    hist = {"kind": {}, "match": 0, "mismatch": 0, "enums_with_tag_overflow": 0}
    nontriv = set()
    for (capy_, vs, cases), (ds, ovf), res in zip(jobs, meta, results):
        hist["enums_with_tag_overflow"] += int(ovf)
        if res.get("build_failed"):
            fl.broken.append({"what": "capy rejected or crashed on a generated #unwrap program", "rc": res["rc"],
                              "output": res["output"][-1500:], "source": res["source"][:5000]})
            k += len(cases)
            continue
        for (kind, h, w), (rc, out) in zip(cases, res["results"]):
            ml = mres[k]
            k += 1
            ncase += 1
            kn = ["enum", "optional", "nullable-pointer", "error-union"][kind]
            hist["kind"][kn] = hist["kind"].get(kn, 0) + 1
            mod = parse_model(ml)
            lines = out.split("\n")
            aborted = rc == 1 and any("but the variant was different" in l and "entered unreachable code: called #unwrap(" in l
                                      for l in lines)
            z = "Z" in lines
            shown = None
            if len(lines) > 1 and lines[1].startswith("u"):
                shown = lines[1][1:]
            got = {"aborted": aborted, "rc": rc, "after_marker": z, "payload": shown}
            want_payload = ""
            if kind == 0 and vs[w]["payload"]:
                want_payload = str(40 + w)
            elif kind == 1 and w == 1:
                want_payload = "77"
            elif kind == 2 and w == 1:
                want_payload = "66"
            elif kind == 3 and w == 1:
                want_payload = "88"
            exp_spec = ({"aborted": False, "rc": 0, "after_marker": True, "payload": want_payload} if h == w else
                        {"aborted": True, "rc": 1, "after_marker": False, "payload": None})
            m_ab = bool(mod.get("aborted"))
            exp_model = ({"aborted": True, "rc": 1, "after_marker": False, "payload": None} if m_ab else
                         {"aborted": False, "rc": 0, "after_marker": True, "payload": got["payload"]})
            payload = {"key": "unwrap:%s:%d:%d:%d" % (C.sha(json.dumps(vs)), kind, h, w), "stream": "unwrap",
                       "sum_kind": kn, "enum": vs, "discriminants": ds, "held_variant": h, "wanted_variant": w,
                       "stdin": [kind, h, w], "source": res["source"],
                       "implementation": {"exit_status": rc, "stdout": out[-500:]}, "model": ml,
                       "got": got, "spec_expects": exp_spec}
            if "crash" in mod or got != exp_model:
                diffs += 1
                first = first or dict(payload, why="real behaviour differs from model", model_expects=exp_model)
            if got != exp_spec:
                if kind == 0 and ovf and ds[h] % 256 == ds[w] % 256 and ds[h] != ds[w]:
                    v.failing(K_TAG, payload)
                elif h != w:
                    v.failing("unwrap-of-wrong-variant-not-aborted:%s" % kn, payload)
                else:
                    v.failing("unwrap-of-right-variant-fails:%s" % kn, payload)
            hist["match" if h == w else "mismatch"] += 1
            if h != w:
                nontriv.add(payload["key"])
    fl.stream("unwrap: real capy programs vs Model/IndexCheck.v unwrap + assign_discrims", ncase, diffs, first)
    v.coverage["evaluations"] += ncase
    v.coverage["distinct_nontrivial"] += len(nontriv)     # distinct (sum type, held, wanted) with held != wanted
    v.coverage["unwrap_histograms"] = hist
    v.add_samples([{"enum": enums[0], "discriminants": meta[0][0] if meta else None}])


# --------------------------------------------------------------------------- literal / index-type streams
def lit_program(kind, T, n, idx, rw):
    decl = "a := %s.[%s];" % (T, ", ".join(str(i + 1) for i in range(n)))
    src = {"arr": "a", "ptr": "p", "pptr": "pp", "slice": "sl"}[kind]
    body = ["    " + decl, "    p := ^mut a;", "    pp := ^mut p;", "    sl : []%s = a;" % T]
    if rw:
        body.append("    %s[%d] = 9;" % (src, idx))
    else:
        body.append("    x := %s[%d];" % (src, idx))
        body.append("    putchar(char.(u8.(48 + u64.(x) % 10)));")
    body.append("    putchar('Z');")
    return "putchar :: (c: char) extern;\nmain :: () {\n" + "\n".join(body) + "\n}\n"


def build_only(args):
    capy, src = args
    with C.scratch("verif-c10l-") as d:
        rc, out, exe = build(capy, d, "l", src)
        run = None
        if exe:
            run = run_exe(exe, "")
        return rc, out, run


def literal_stream(fl, capy, drv, tier):
    v = fl.v
    g = fl.rng.fork("lit")
    cases = []
    nrand = 40 if tier == "quick" else 150
    for kind in ("arr", "ptr", "pptr", "slice"):
        for n, idx in ((1, 0), (1, 1), (3, 2), (3, 3), (3, 4), (4, 7)):
            cases.append((kind, "i32", n, idx, 0))
    for _ in range(nrand):
        n = g.range(1, 6)
        cases.append((g.choice(["arr", "ptr", "pptr", "slice"]), g.choice(ELEMS)[0], n,
                      g.choice([0, n - 1, n, n + 1, n + g.range(0, 4), 255, 256, 65536, 4294967296]), g.range(0, 1)))
    tyt = {"u8": "i1", "u16": "i2", "i32": "i4", "u64": "i8"}
    ml = []
    for kind, T, n, idx, rw in cases:
        base = "s %s" % tyt[T] if kind == "slice" else "%sa %x %s" % ({"arr": "", "ptr": "p ", "pptr": "p p "}[kind], n, tyt[T])
        ml.append("L %x %s" % (idx, base))
    mres = ask(drv, ml)
    rres = C.parallel_map(build_only, [(capy, lit_program(*c)) for c in cases])
    diffs = 0
    first = None
    hist = {"rejected": 0, "accepted": 0}
    for c, m, (rc, out, run) in zip(cases, mres, rres):
        kind, T, n, idx, rw = c
        rejected = rc != 0 and "is too big" in out and "can only be indexed up to" in out
        other_fail = rc != 0 and not rejected
        hist["rejected" if rejected else "accepted"] += 1
        payload = {"key": "lit:%s" % (c,), "stream": "literal", "case": list(c), "source": lit_program(*c),
                   "capy_rc": rc, "capy_output": out[-800:], "model_rejects": m, "run": run}
        if other_fail or (m == "1") != rejected:
            diffs += 1
            first = first or payload
        # direct oracle: literal out of range on a fixed array must be rejected at compile time; an accepted
        # literal (slices: length unknown statically) that is out of range must abort at run time
        oob = idx >= n
        if kind != "slice" and oob and not rejected:
            v.failing("literal-out-of-range-index-accepted:%s" % kind, payload)
        if kind != "slice" and not oob and rejected:
            v.failing("literal-in-range-index-rejected:%s" % kind, payload)
        if not rejected and run is not None:
            rrc, rout = run
            if oob and not (rrc == 1 and "index out of bounds" in rout and "Z" not in rout):
                v.failing("out-of-range-literal-index-not-aborted:%s" % kind, payload)
            if not oob and not (rrc == 0 and rout.endswith("Z")):
                v.failing("in-range-literal-index-fails:%s" % kind, payload)
    fl.stream("literal indexes: capy reports IndexOutOfBounds iff lit_index_rejected", len(cases), diffs, first)
    v.coverage["evaluations"] += len(cases)
    v.coverage["literal_histogram"] = hist

    # ---- index types
    itys = [("u8", 8, "u"), ("u16", 16, "u"), ("u32", 32, "u"), ("u64", 64, "u"), ("usize", 64, "u"), ("u128", 128, "u"),
            ("i8", 8, "s"), ("i16", 16, "s"), ("i32", 32, "s"), ("i64", 64, "s"), ("isize", 64, "s"), ("i128", 128, "s")]
    tl = ["T %x %s" % (b, s) for _, b, s in itys]
    tres = ask(drv, tl)

    def ity_prog(name):
        return ("putchar :: (c: char) extern;\nmain :: () {\n    a := i32.[1, 2, 3, 4];\n    i : %s = 2;\n"
                "    x := a[i];\n    putchar(char.(u8.(48 + x)));\n}\n" % name)
    rres = C.parallel_map(build_only, [(capy, ity_prog(nm)) for nm, _, _ in itys])
    diffs = 0
    first = None
    for (nm, b, s), m, (rc, out, run) in zip(itys, tres, rres):
        acc = rc == 0 and run is not None and run[1] == "3"
        rej = rc != 0 and "expected a value of `usize`" in out
        if not (acc or rej) or (m == "1") != acc:
            diffs += 1
            first = first or {"index_type": nm, "model_accepts": m, "capy_rc": rc, "capy_output": out[-800:], "run": run}
    fl.stream("index types: capy accepts iff idx_ty_accepted", len(itys), diffs, first)
    v.coverage["evaluations"] += len(itys)


# --------------------------------------------------------------------------- known-finding classes
def known_stream(fl, capy, drv, tier):
    """Inputs of the known-finding classes.  The model variant in force (FLAGS) must predict the real
    behaviour exactly; the spec (index outside [0, len) aborts after the index expression was evaluated,
    an index inside evaluates it and goes on) decides whether the input is a failing one; its class comes
    from the extracted classifier known_class / known_class_f."""
    v = fl.v
    g = fl.rng.fork("known")
    progs = []   # (kind, params, source, stdin, model line, classifier line, spec-expected stdout or None=abort)
    reps = 3 if tier == "quick" else 8
    for _ in range(reps):
        n = g.range(2, 6)
        j = g.range(0, n - 1)
        src = (PRELUDE + "main :: () {\n    a := i32.[%s];\n    d := rd();\n    i : u128 = 18446744073709551615;\n"
               "    i = i + 1 + u128.(d);\n    putchar('A'); putchar('\\n');\n    x := a[i];\n    putchar('=');"
               " pd(u64.(x)); putchar('\\n');\n    putchar('Z'); putchar('\\n');\n}\n"
               % ", ".join(str(10 + q) for q in range(n)))
        progs.append(("wide", {"len": n, "index": (1 << 64) + j}, src, "%d\n" % j,
                      "X - M 64 R idx 80 u - %x root a %x i4 10008 M 65" % ((1 << 64) + j, n), "K 80 a %x i4" % n,
                      None, {0x10008 + 4 * q: 10 + q for q in range(n)}))
    for r in range(2 * reps):
        n = g.range(1, 4)
        i = (n + g.range(0, 4)) if r % 2 == 0 else g.range(0, n - 1)
        src = (PRELUDE + "E :: struct {};\nk0 :: (v: usize) -> usize { putchar('a'); v }\nmain :: () {\n"
               "    a : [%d]E = .[%s];\n    d := rd();\n    putchar('A'); putchar('\\n');\n    x := a[k0(usize.(d))];\n"
               "    putchar('\\n');\n    putchar('Z'); putchar('\\n');\n}\n" % (n, ", ".join("E.{}" for _ in range(n))))
        progs.append(("zst", {"len": n, "index": i}, src, "%d\n" % i,
                      "X - M 64 R idx 40 u 1 %x root a %x z 10008 M 65" % (i, n), "K 40 z",
                      ("A\na\nZ\n" if i < n else None), {}))
    ml = [p[4] for p in progs] + [p[5] for p in progs]
    mres = ask(drv, ml)
    rres = C.parallel_map(build_only_stdin, [(capy, p[2], p[3]) for p in progs])
    diffs = 0
    first = None
    for qi, (p, (rc, out, run)) in enumerate(zip(progs, rres)):
        kind, params, src, stdin, _, _, spec_out, vals = p
        mline, kline = mres[qi], mres[len(progs) + qi]
        mod = parse_model(mline)
        payload = {"key": "known:%s:%s" % (kind, params), "stream": "known-classes", "params": params, "source": src,
                   "stdin": stdin, "capy_rc": rc, "run": run, "model": mline, "extracted_known_class": kline,
                   "model_variant_flags": FLAGS[0],
                   "spec_expects": ("stdout %r, exit 0" % spec_out) if spec_out is not None else
                   "index >= length: abort with 'array index out of bounds' after the index was evaluated, exit 1"}
        if run is None:
            fl.broken.append({"what": "capy failed on a known-class probe", "output": out[-1500:], "source": src})
            continue
        rrc, rout = run
        aborted = rrc == 1 and "array index out of bounds" in rout
        # what the model variant in force predicts
        if "crash" in mod:
            want = None
        elif mod["aborted"]:
            want = "A\n" + mod["markers"] + "\n\nin "
        else:
            acc = mod["access"]
            shown = ("=%d" % vals.get(acc[1] if acc else None, -1)) if kind == "wide" else ""
            want = "A\n" + mod["markers"] + shown + "\nZ\n"
        ok_model = want is not None and ((mod["aborted"] and aborted and rout.startswith(want)) or
                                         (not mod["aborted"] and not aborted and rout == want and rrc == 0))
        if not ok_model:
            diffs += 1
            first = first or dict(payload, why="real behaviour differs from the model variant in force",
                                  model_expects=want)
        ok_spec = (aborted and rout.startswith("A\n" + ("a" if kind == "zst" else "") + "\n\nin ")) \
            if spec_out is None else (rrc == 0 and rout == spec_out)
        if not ok_spec:
            cls = {"wide": K_WIDE, "zst": K_ZST}.get(kline, "index-check-wrong-on-former-known-class:%s" % kind)
            v.failing(cls, payload)
    fl.stream("known classes: u128 index / zero-sized element vs the model variant in force", len(progs), diffs, first)
    v.coverage["evaluations"] += len(progs)

    # zero-length inner array: unrepaired compiler panics (model: Crash 930 = compile_expr(source).unwrap());
    # with C10-2-fix the program compiles and every index aborts
    src = (PRELUDE + "get :: (a: [][0]i32, i: usize, j: usize) -> i32 { a[i][j] }\nmain :: () {\n"
           "    arr : [2][0]i32 = .[i32.[], i32.[]];\n    x := get(arr, rd(), rd());\n    putchar('Z');\n}\n")
    mres = ask(drv, ["X 2000=2,2008=3000 R idx 40 u - 0 idx 40 u - 1 root s a 0 i4 2000"])
    rc, out, run = build_only_stdin((capy, src, "1\n0\n"))
    panicked = rc != 0 and "panicked" in out and "functions.rs" in out
    model_crash = mres[0].startswith("CRASH930")
    run_aborts = run is not None and run[0] == 1 and "array index out of bounds" in run[1] and "Z" not in run[1]
    model_aborts = mres[0].startswith("OK 1") and mres[0].endswith("P:A X:1")
    bad = (panicked != model_crash) or (not panicked and run_aborts != model_aborts)
    fl.stream("known classes: zero-length inner array (model Crash 930 iff compiler panics, else both abort)", 1,
              int(bad), {"source": src, "capy_rc": rc, "capy_output": out[-1200:], "run": run, "model": mres[0]})
    v.coverage["evaluations"] += 1
    if panicked:
        v.failing(K_PANIC, {"key": "known:panic", "source": src, "capy_rc": rc, "capy_output": out[-1500:],
                            "model": mres[0]})
    elif not run_aborts:
        v.failing("index-into-zero-length-inner-array-not-aborted", {"key": "known:panic2", "source": src,
                                                                      "capy_rc": rc, "capy_output": out[-800:], "run": run})


def build_only_stdin(args):
    capy, src, stdin = args
    with C.scratch("verif-c10k-") as d:
        rc, out, exe = build(capy, d, "k", src)
        run = run_exe(exe, stdin) if exe else None
        return rc, out, run


# --------------------------------------------------------------------------- entry points
def run(tier, seed):
    fl = Flow("C10", tier, seed, "proof")
    v = fl.v
    fl.proof_stage()
    drv = fl.driver()
    capy = fl.capy()
    if drv and capy:
        det = detect_fixes(capy)
        v.coverage["fix_candidates_detected"] = det
        v.coverage["model_in_force"] = ("Model/IndexCheck.v (unrepaired code; C10_except_known applies)" if det["flags"] == "00"
                                        else "Model/IndexCheckFixed.v compf fw=%s fz=%s (%s applies)"
                                        % (det["flags"][0], det["flags"][1],
                                           "C10_fixed_full" if det["flags"] == "11" else "C10_fixed_except_known"))
        index_stream(fl, capy, drv, tier)
        unwrap_stream(fl, capy, drv, tier)
        literal_stream(fl, capy, drv, tier)
        known_stream(fl, capy, drv, tier)
        v.coverage["rule"] = (
            "index stream: one process run of a compiled program per (shape, read/write, index tuple); shapes = "
            + ", ".join(SHAPES) + "; element types u8/u16/i32/u64, index types u8/u16/u32/u64/usize; index tuples are "
            "boundary biased (len-1, len, len+1, len+4, type maximum, 2^63, 2^32+k, 256+k, random in [0, len+4]); "
            "observables: dump of sentinels+arrays before, index-evaluation markers, value read, abort message, exit "
            "status, after-marker, dump after; compared against the extracted model trace and the extracted value-level "
            "spec. non-trivial = at least one index of the tuple is >= len-1 of its level. unwrap stream: every "
            "(held, wanted) variant pair of random enums (2-6 variants, manual discriminants, payloads) and of ?u64, "
            "?^u64, str!u64. literal stream: literal indexes on arrays / pointers / slices (compile-time verdict and "
            "run-time behaviour). index-type stream: all 12 integer types.")
    v.assumptions = [
        "modelled: Expr::Index codegen (zero-sized early return, auto-deref loads, cast of the index to usize, constant "
        "vs slice-header length, icmp ult, fail block, imul/iadd, load/no_load), Stmt::Assign order, #unwrap (I8 tag "
        "load/compare or null compare, payload access), compile_unreachable (puts; exit 1), the IndexOutOfBounds literal "
        "check, the usize expectation on index types, hir_ty's enum discriminant assignment",
        "memory is abstract (rd : address -> word); element values are not modelled, only which address is accessed "
        "with which width; the end-to-end stream identifies elements by unique values",
        "type fragment: scalars, zero-sized, arrays, slices, pointers (strides as in the model's [stride]: size = stride; "
        "structs and the real layout algorithm are C17's); the correspondence runs use u8/u16/i32/u64 elements",
        "the theorem about exact element addresses assumes the array lies inside the 64-bit address space "
        "(base + len*stride <= 2^64); otherwise address arithmetic wraps exactly as imul/iadd do",
        "stray stores executed before an abort cannot be observed after exit(1); they are excluded by the model's trace "
        "theorem (C10_oob_no_access / C10_write_oob_no_store) and by the correspondence of the trace order on markers",
        "Cranelift, the linker and libc (puts, exit, putchar, getchar) are exercised end to end only",
        "quick-assign (a[i] += v), indexing inside comptime blocks and indexing of globals are not covered",
    ]
    return fl.finish()


def replay(path):
    r = json.load(open(path))
    print(json.dumps({k: r[k] for k in r if k != "source"}, indent=1)[:6000])
    if "source" not in r or "stdin" not in r:
        return 0
    from .. import cargotools
    ok, out, capy = cargotools.build_capy()
    with C.scratch("verif-c10-replay-") as d:
        rc, bout, exe = build(capy, d, "p", r["source"])
        if exe is None:
            print("capy build failed:\n" + bout[-2000:])
            return 1
        stdin = r["stdin"] if isinstance(r["stdin"], str) else "".join("%d\n" % x for x in (list(r["stdin"]) + [0, 0, 0]))
        rrc, rout = run_exe(exe, stdin)
        print("replayed: exit status %d, stdout:\n%s" % (rrc, rout))
        print("spec expects: %s" % (r.get("spec_expects"),))
    return 1
