"""C04 - A comptime block yields what the same code yields at runtime (DESIGN.md C04).

Streams (all against the real `capy` executable built from /repo's working tree):
  1. probes        witness programs of the known defect classes (results that hold addresses:
                   str, aggregates with str members, slices, optional pointers; 128-bit integer
                   results) + programs the checker must reject (pointer / function results).
                   capy accepts  <=>  extracted model `guard`; failing class == extracted `known_class`.
  2. end-to-end    generated deterministic blocks of every accepted result type (global / local,
                   nested, reading const globals, calling helpers with loops).  Each case prints the
                   comptime copy and a run-time copy of the same code through the same printers;
                   the two lines must be identical.
  3. model         for scalar cases the extracted model (run_jit -> capture -> materialise, both the
                   local and the global path) is run on the bit pattern of the run-time copy; its
                   prediction must equal what the program printed for the comptime copy.
  4. f32 via f64   extracted promote / demote vs the host's C float conversions (struct module).
  5. side effects  marker programs: every comptime marker appears exactly once in the compiler's
                   output and never in the built program's output.
"""
import json
import os
import re
import struct
import subprocess

from .. import common as C
from ..flow import Flow

# --------------------------------------------------------------------------- capy helpers

PRELUDE = """putchar :: (c: u8) extern;
pu64 :: (n: u64) {
    if n >= 10 { pu64(n / 10); }
    putchar(u8.(48 + n % 10));
}
pi64 :: (n: i64) {
    if n < 0 { putchar(45); pu64(u64.(0 - n)); } else { pu64(u64.(n)); }
}
pbool :: (b: bool) { if b { putchar(84); } else { putchar(70); } }
sp :: () { putchar(32); }
nl :: () { putchar(10); }
h_sumsq :: (n: u32) -> u32 {
    acc : u32 = 0;
    i : u32 = 0;
    while i < n { acc = acc + i * i; i = i + 1; }
    acc
}
h_fib :: (n: u64) -> u64 {
    a : u64 = 0;
    b : u64 = 1;
    i : u64 = 0;
    while i < n { t : u64 = a + b; a = b; b = t; i = i + 1; }
    a
}
h_mix :: (a: i32, b: i32) -> i32 { (a * 31) ~ (b + 7) }
h_collatz :: (n: u32) -> u32 {
    x : u32 = n;
    steps : u32 = 0;
    while x != 1 {
        if x % 2 == 0 { x = x / 2; } else { x = x * 3 + 1; }
        steps = steps + 1;
    }
    steps
}
"""

INTS = [("i8", 8, True), ("i16", 16, True), ("i32", 32, True), ("i64", 64, True),
        ("u8", 8, False), ("u16", 16, False), ("u32", 32, False), ("u64", 64, False),
        ("isize", 64, True), ("usize", 64, False)]
WIDE = [("i128", 128, True), ("u128", 128, False)]
INTINFO = {n: (w, s) for n, w, s in INTS + WIDE}
HELPERS = [("h_sumsq", "u32", lambda r: "h_sumsq(%d)" % r.range(0, 40)),
           ("h_fib", "u64", lambda r: "h_fib(%d)" % r.range(0, 93)),
           ("h_mix", "i32", lambda r: "h_mix(%d, %d)" % (r.range(0, 100000), r.range(0, 100000))),
           ("h_collatz", "u32", lambda r: "h_collatz(%d)" % r.range(1, 2000))]


def run_program(capy, src, timeout=240, tries=3):
    """Compile + run.  Returns dict(build_rc, build_out, rc, out).  A build that fails without a
    diagnostic and without a panic (linker / machine load hiccup) is retried."""
    res = None
    for _ in range(tries):
        res = run_program_once(capy, src, timeout)
        if not res.get("build_failed") or (res.get("panic") and not res.get("signal")) or "error" in res["build_out"]:
            break
        RETRIES.append(res["build_rc"])
    return res


RETRIES = []      # build return codes of silently failed / signal-killed compiler runs that were retried


def run_program_once(capy, src, timeout):
    with C.scratch("verif-c04-") as d:
        open(os.path.join(d, "p.capy"), "w").write(src)
        rc, out = C.run([capy, "build", "p.capy", "--mod-dir", C.REPO], cwd=d, timeout=timeout)
        exe = os.path.join(d, "out", "p")
        res = {"build_rc": rc, "build_out": out, "rc": None, "out": None}
        if rc != 0 or not os.path.exists(exe):
            res["build_failed"] = True
            # a compiler that dies from a signal (SIGSEGV after heap corruption) counts as a crash, like a panic
            res["panic"] = "panicked" in out or rc < 0 or rc in (134, 139)
            res["signal"] = rc < 0 or rc in (134, 139)
            return res
        try:
            p = subprocess.run([exe], stdout=subprocess.PIPE, stderr=subprocess.DEVNULL, timeout=30)
            res["rc"] = p.returncode
            res["out"] = p.stdout.decode("latin-1")
        except subprocess.TimeoutExpired as e:
            res["rc"] = 124
            res["out"] = (e.stdout or b"").decode("latin-1")
        return res


def clean_build_out(out):
    keep = [l for l in out.split("\n") if not l.startswith("split_aggregate") and not re.match(r"\s+(\d+:|at )", l)]
    return "\n".join(keep)[-1800:]


# --------------------------------------------------------------------------- types of generated cases
# type AST: ("int", name) ("bool",) ("char",) ("float", 32|64) ("arr", n, t) ("struct", id, [(fname, t)])
#           ("enum", id, [(vname, t|None)]) ("opt", t) ("eu", errstruct, t)


def ty_text(t):
    k = t[0]
    if k == "int":
        return t[1]
    if k == "bool":
        return "bool"
    if k == "char":
        return "char"
    if k == "float":
        return "f%d" % t[1]
    if k == "arr":
        return "[%d]%s" % (t[1], ty_text(t[2]))
    if k == "struct":
        return "S%d" % t[1]
    if k == "enum":
        return "E%d" % t[1]
    if k == "opt":
        return "?" + ty_text(t[1])
    if k == "eu":
        return "%s!%s" % (ty_text(t[1]), ty_text(t[2]))
    raise ValueError(t)


def ty_model(t):
    """type in the syntax of ocaml/C04/driver.ml"""
    k = t[0]
    if k == "int":
        return t[1]
    if k in ("bool", "char"):
        return k
    if k == "float":
        return "f%d" % t[1]
    if k == "arr":
        return "arr.%d.%s" % (t[1], ty_model(t[2]))
    if k == "struct":
        return "struct.%d.%s" % (len(t[2]), ".".join(ty_model(f) for _, f in t[2]))
    if k == "enum":
        return "enum.%d.%s" % (len(t[2]), ".".join("variant." + (ty_model(p) if p else "void") for _, p in t[2]))
    if k == "opt":
        return "opt." + ty_model(t[1])
    if k == "eu":
        return "eu.%s.%s" % (ty_model(t[1]), ty_model(t[2]))
    raise ValueError(t)


def ty_kind(t):
    return t[0] if t[0] != "int" else ("int128" if INTINFO[t[1]][0] == 128 else "int")


def ty_decls(t, seen, out):
    """global declarations for the named types inside t (dependencies first)"""
    k = t[0]
    if k == "arr":
        ty_decls(t[2], seen, out)
    elif k == "opt":
        ty_decls(t[1], seen, out)
    elif k == "eu":
        ty_decls(t[1], seen, out)
        ty_decls(t[2], seen, out)
    elif k == "struct":
        if ("S", t[1]) in seen:
            return
        seen.add(("S", t[1]))
        for _, f in t[2]:
            ty_decls(f, seen, out)
        out.append("S%d :: struct { %s };" % (t[1], ", ".join("%s: %s" % (n, ty_text(f)) for n, f in t[2])))
    elif k == "enum":
        if ("E", t[1]) in seen:
            return
        seen.add(("E", t[1]))
        for _, p in t[2]:
            if p:
                ty_decls(p, seen, out)
        out.append("E%d :: enum { %s };" % (t[1], ", ".join(n + (": " + ty_text(p) if p else "") for n, p in t[2])))


def print_stmts(t, e, ind):
    """capy statements printing value expression e of type t (leaves separated by blanks)"""
    pad = "    " * ind
    k = t[0]
    if k == "int":
        w, s = INTINFO[t[1]]
        if w == 128:
            x = e if not s else "u128.(%s)" % e
            return ["%spu64(u64.(%s >> 64)); putchar(58); pu64(u64.(%s & 18446744073709551615)); sp();" % (pad, x, x)]
        if s:
            return ["%spi64(i64.(%s)); sp();" % (pad, e)]
        return ["%spu64(u64.(%s)); sp();" % (pad, e)]
    if k == "bool":
        return ["%spbool(%s); sp();" % (pad, e)]
    if k == "char":
        return ["%sputchar(u8.(%s)); sp();" % (pad, e)]
    if k == "float":
        return ["%spi64(i64.(%s * 4096.0)); sp();" % (pad, e)]
    if k == "arr":
        out = []
        for i in range(t[1]):
            out += print_stmts(t[2], "%s[%d]" % (e, i), ind)
        return out
    if k == "struct":
        out = ["%sputchar(123);" % pad]
        for n, f in t[2]:
            out += print_stmts(f, "%s.%s" % (e, n), ind)
        out.append("%sputchar(125);" % pad)
        return out
    if k == "opt":
        return (["%sif %s == nil { putchar(78); sp(); } else {" % (pad, e), "%s    putchar(83);" % pad]
                + print_stmts(t[1], "#unwrap(%s)" % e, ind + 1) + ["%s}" % pad])
    if k == "enum":
        out = ["%sswitch pv in %s {" % (pad, e)]
        for i, (n, p) in enumerate(t[2]):
            out.append("%s    .%s => {" % (pad, n))
            out.append("%s        putchar(%d);" % (pad, 97 + i))
            if p:
                # the switch variable has the variant's type: cast scalars to the payload type
                out += print_stmts(p, "pv" if p[0] in ("struct", "arr") else "%s.(pv)" % ty_text(p), ind + 2)
            else:
                out.append("%s        sp();" % pad)
            out.append("%s    }," % pad)
        out.append("%s}" % pad)
        return out
    if k == "eu":
        return (["%sif #is_variant(%s, %s) {" % (pad, e, ty_text(t[2])), "%s    putchar(79);" % pad]
                + print_stmts(t[2], "#unwrap(%s, %s)" % (e, ty_text(t[2])), ind + 1)
                + ["%s} else {" % pad, "%s    putchar(69);" % pad]
                + print_stmts(t[1], "#unwrap(%s, %s)" % (e, ty_text(t[1])), ind + 1) + ["%s}" % pad])
    raise ValueError(t)


class Gen:
    """Deterministic generator of typed blocks.  A block body is a list of statement lines whose
    last line is the result variable; '@CT@{' marks a nested block that is `comptime {` in the
    comptime copy and a plain `{` in the run-time copy."""

    def __init__(self, rng, consts):
        self.r = rng
        self.n = 0
        self.sid = 0
        self.eid = 0
        self.consts = consts          # type name -> const global name
        self.feat = {}

    def note(self, f):
        self.feat[f] = self.feat.get(f, 0) + 1

    def fresh(self):
        self.n += 1
        return "v%d" % self.n

    # ---- types
    def scalar_ty(self, allow_wide):
        r = self.r
        x = r.below(100)
        if x < 62:
            pool = INTS + (WIDE if allow_wide else [])
            return ("int", r.choice(pool)[0])
        if x < 74:
            return ("bool",)
        if x < 82:
            return ("char",)
        return ("float", r.choice([32, 64]))

    def struct_ty(self, depth):
        r = self.r
        self.sid += 1
        sid = self.sid
        fields = []
        for i in range(r.range(2, 4)):
            x = r.below(100)
            if x < 60 or depth >= 2:
                f = self.scalar_ty(True)
            elif x < 75:
                f = ("arr", r.range(1, 3), self.scalar_ty(True))
            elif x < 88:
                f = self.struct_ty(depth + 1)
            else:
                f = ("opt", self.scalar_ty(False))
            fields.append(("f%d" % i, f))
        return ("struct", sid, fields)

    def enum_ty(self):
        r = self.r
        self.eid += 1
        eid = self.eid
        vs = []
        for i in range(r.range(2, 4)):
            x = r.below(100)
            if x < 35:
                p = None
            elif x < 80:
                p = self.scalar_ty(False)
            else:
                p = self.struct_ty(2)
            vs.append(("V%d" % i, p))
        return ("enum", eid, vs)

    def result_ty(self):
        r = self.r
        x = r.below(100)
        if x < 40:
            return self.scalar_ty(False)
        if x < 55:
            e = self.scalar_ty(True) if r.chance(3, 4) else self.struct_ty(1)
            return ("arr", r.range(1, 4), e)
        if x < 72:
            return self.struct_ty(0)
        if x < 88:
            return ("opt", self.scalar_ty(False) if r.chance(2, 3) else self.struct_ty(1))
        # enum results: finding C04-6 (JIT write past the block's result object) no longer reproduces since
        # /repo 38e2441 (variant->enum tag stored as one byte), so they are generated again
        if x < 94:
            return self.enum_ty()
        self.sid += 1
        err = ("struct", self.sid, [("code", ("int", "i32")), ("sub", ("int", "u8"))])
        return ("eu", err, ("int", r.choice(["u64", "i32", "u16", "i64"])))

    # ---- integer computations
    def int_lit(self, name):
        r = self.r
        w, s = INTINFO[name]
        hi = (1 << (min(w, 64) - 1)) - 1 if (s or w >= 64) else (1 << w) - 1
        x = r.below(10)
        if x < 3:
            v = r.range(0, min(hi, 20))
        elif x < 5:
            v = hi - r.range(0, 3)
        else:
            v = r.range(0, hi)
        if s and r.chance(1, 3):
            if v == 0:
                return "0"
            return "0 - %d" % v
        return "%d" % v

    def int_var(self, name, lines, ind, depth=0):
        """append statements computing a value of int type `name`; returns the variable"""
        r = self.r
        pad = "    " * ind
        w, s = INTINFO[name]
        vs = []
        for _ in range(r.range(1, 3)):
            v = self.fresh()
            x = r.below(100)
            if x < 55 or name not in self.consts:
                lines.append("%s%s : %s = %s;" % (pad, v, name, self.int_lit(name)))
            elif x < 75:
                lines.append("%s%s : %s = %s;" % (pad, v, name, self.consts[name]))
                self.note("reads-const-global")
            else:
                h = r.choice(HELPERS)
                lines.append("%s%s : %s = %s.(%s);" % (pad, v, name, name, h[2](r)))
                self.note("helper-call")
            vs.append(v)
        for _ in range(r.range(1, 4)):
            v = self.fresh()
            a = r.choice(vs)
            b = r.choice(vs)
            x = r.below(100)
            if x < 45:
                lines.append("%s%s : %s = %s %s %s;" % (pad, v, name, a, r.choice(["+", "-", "*", "&", "|", "~"]), b))
            elif x < 60:
                lines.append("%s%s : %s = %s %s %d;" % (pad, v, name, a, r.choice(["<<", ">>"]), r.range(0, w - 1)))
            elif x < 70 and w < 128:
                lines.append("%s%s : %s = %s %s %d;" % (pad, v, name, a, r.choice(["/", "%"]), r.range(2, 9)))
            elif x < 80:
                lines.append("%s%s : %s = if %s < %s { %s + 1 } else { %s - 1 };" % (pad, v, name, a, b, a, b))
                self.note("if-expression")
            elif x < 90:
                # a loop accumulating into a mutable variable
                i = self.fresh()
                lines.append("%s%s : %s = %s;" % (pad, v, name, a))
                lines.append("%s%s : u32 = 0;" % (pad, i))
                lines.append("%swhile %s < %d { %s = %s * 3 + %s; %s = %s + 1; }" % (pad, i, r.range(1, 9), v, v, b, i, i))
                self.note("loop")
            elif depth < 2 and w < 128:      # (a 128-bit comptime result is known finding C04-5)
                # nested block (comptime in the comptime copy) that only reads globals
                sub = []
                sv = self.int_var(name, sub, ind + 1, depth + 1)
                lines.append("%s%s : %s = @CT@{" % (pad, v, name))
                lines += sub
                lines.append("%s    %s" % (pad, sv))
                lines.append("%s};" % pad)
                self.note("nested-comptime")
            else:
                lines.append("%s%s : %s = %s + %s;" % (pad, v, name, a, b))
            vs.append(v)
        # cross-type cast into the block's type
        if r.chance(1, 4):
            other = r.choice([n for n, ww, ss in INTS if ww <= 64])
            ov = self.fresh()
            lines.append("%s%s : %s = %s;" % (pad, ov, other, self.int_lit(other)))
            v = self.fresh()
            lines.append("%s%s : %s = %s.(%s) + %s;" % (pad, v, name, name, ov, vs[-1]))
            vs.append(v)
            self.note("int-cast")
        return vs[-1]

    def value(self, t, lines, ind):
        """append statements, return an expression of type t"""
        r = self.r
        pad = "    " * ind
        k = t[0]
        if k == "int":
            return self.int_var(t[1], lines, ind)
        if k == "bool":
            name = r.choice(INTS)[0]
            a = self.int_var(name, lines, ind, 2)
            b = self.int_var(name, lines, ind, 2)
            v = self.fresh()
            op = r.choice(["<", "<=", "==", "!=", ">"])
            if r.chance(1, 3):
                lines.append("%s%s : bool = (%s %s %s) && !(%s == %s);" % (pad, v, a, op, b, a, b))
            else:
                lines.append("%s%s : bool = %s %s %s;" % (pad, v, a, op, b))
            return v
        if k == "char":
            v = self.fresh()
            lines.append("%s%s : char = '%s';" % (pad, v, r.choice("abcxyzABCXYZ019#+~")))
            return v
        if k == "float":
            name = "f%d" % t[1]
            a = self.fresh()
            b = self.fresh()
            v = self.fresh()
            lines.append("%s%s : %s = %d.%s;" % (pad, a, name, r.range(0, 900), r.choice(["0", "5", "25", "125", "75", "1", "3"])))
            lines.append("%s%s : %s = %d.%s;" % (pad, b, name, r.range(0, 30), r.choice(["0", "5", "25", "0625", "7"])))
            lines.append("%s%s : %s = %s %s %s;" % (pad, v, name, a, r.choice(["+", "-", "*"]), b))
            if r.chance(1, 3):
                iv = self.int_var("i32", lines, ind, 2)
                v2 = self.fresh()
                lines.append("%s%s : %s = %s + %s.(%s %% 1000);" % (pad, v2, name, v, name, iv))
                return v2
            return v
        if k == "arr":
            items = [self.value(t[2], lines, ind) for _ in range(t[1])]
            v = self.fresh()
            lines.append("%s%s : %s = %s.[%s];" % (pad, v, ty_text(t), ty_text(t[2]), ", ".join(items)))
            if t[2][0] == "int" and t[1] > 1 and r.chance(1, 2):
                i = self.fresh()
                lines.append("%s%s : usize = 0;" % (pad, i))
                lines.append("%swhile %s < %d { %s[%s] = %s[%s] + %s[0]; %s = %s + 1; }" % (pad, i, t[1], v, i, v, i, v, i, i))
                self.note("array-loop")
            return v
        if k == "struct":
            fs = [(n, self.value(f, lines, ind)) for n, f in t[2]]
            v = self.fresh()
            lines.append("%s%s : %s = %s.{ %s };" % (pad, v, ty_text(t), ty_text(t), ", ".join("%s = %s" % x for x in fs)))
            return v
        if k == "opt":
            v = self.fresh()
            if r.chance(1, 4):
                lines.append("%s%s : %s = nil;" % (pad, v, ty_text(t)))
            else:
                inner = self.value(t[1], lines, ind)
                lines.append("%s%s : %s = %s;" % (pad, v, ty_text(t), inner))
            return v
        if k == "enum":
            n, p = r.choice(t[2])
            v = self.fresh()
            if p is None:
                lines.append("%s%s : %s = %s.%s;" % (pad, v, ty_text(t), ty_text(t), n))
            elif p[0] == "struct":
                inner = self.value(p, lines, ind)
                fs = ", ".join("%s = %s.%s" % (fn, inner, fn) for fn, _ in p[2])
                lines.append("%s%s : %s = %s.%s.{ %s };" % (pad, v, ty_text(t), ty_text(t), n, fs))
            else:
                inner = self.value(p, lines, ind)
                lines.append("%s%s : %s = %s.%s.(%s);" % (pad, v, ty_text(t), ty_text(t), n, inner))
            return v
        if k == "eu":
            v = self.fresh()
            if r.chance(1, 2):
                inner = self.value(t[2], lines, ind)
                lines.append("%s%s : %s = %s;" % (pad, v, ty_text(t), inner))
            else:
                inner = self.value(t[1], lines, ind)
                lines.append("%s%s : %s = %s;" % (pad, v, ty_text(t), inner))
            return v
        raise ValueError(t)

    def case(self):
        self.feat = {}
        self.n = 0
        t = self.result_ty()
        lines = []
        res = self.value(t, lines, 2)
        mode = self.r.choice(["global", "local", "local", "local-in-loop"])
        return {"ty": t, "body": lines, "res": res, "mode": mode, "features": dict(self.feat)}


def case_text(idx, case):
    """(global declarations, function text) of one case"""
    t = case["ty"]
    body = case["body"]
    ct = [l.replace("@CT@{", "comptime {") for l in body]
    rt = [l.replace("@CT@{", "{") for l in body]
    glob = []
    fn = ["case%d :: () {" % idx]
    if case["mode"] == "global":
        glob.append("c%d :: comptime {" % idx)
        glob += [l[4:] for l in ct]
        glob.append("    %s" % case["res"])
        glob.append("};")
        cexpr = "c%d" % idx
    elif case["mode"] == "local-in-loop":
        fn.append("    it : u32 = 0;")
        fn.append("    while it < 2 {")
        fn.append("        it = it + 1;")
        fn.append("        cl := comptime {")
        fn += ["    " + l for l in ct]
        fn.append("            %s" % case["res"])
        fn.append("        };")
        fn.append("        if it == 2 {")
        fn += print_stmts(t, "cl", 3)
        fn.append("            nl();")
        fn.append("        }")
        fn.append("    }")
        cexpr = None
    else:
        fn.append("    cl := comptime {")
        fn += ct
        fn.append("        %s" % case["res"])
        fn.append("    };")
        cexpr = "cl"
    if cexpr:
        fn += print_stmts(t, cexpr, 1)
        fn.append("    nl();")
    fn.append("    rt : %s = {" % ty_text(t))
    fn += rt
    fn.append("        %s" % case["res"])
    fn.append("    };")
    fn += print_stmts(t, "rt", 1)
    fn.append("    nl();")
    fn.append("}")
    return glob, fn


def make_consts(rng):
    consts = {}
    decls = []
    for i, (n, w, s) in enumerate(INTS):
        hi = (1 << (min(w, 64) - 1)) - 1 if (s or w >= 64) else (1 << w) - 1
        v = rng.range(1, hi)
        consts[n] = "K%d" % i
        decls.append("K%d : %s : %d;" % (i, n, v))
    return consts, decls


def program_text(cases, const_decls, only=None):
    """one program for many cases (only: restrict to one case index, for isolation)"""
    seen = set()
    tdecl = []
    globs = []
    fns = []
    calls = []
    for idx, c in enumerate(cases):
        if only is not None and idx != only:
            continue
        ty_decls(c["ty"], seen, tdecl)
        g, f = case_text(idx, c)
        globs += g
        fns += f
        calls.append("    case%d();" % idx)
    return "\n".join([PRELUDE] + const_decls + tdecl + globs + fns + ["main :: () {"] + calls + ["}"]) + "\n"


def fmt_scalar(t, bits):
    """what the printers print for a scalar of type t with this bit pattern"""
    if t[0] == "int":
        w, s = INTINFO[t[1]]
        if s and bits >= 1 << (w - 1):
            bits -= 1 << w
        return "%d " % bits
    if t[0] == "bool":
        return "T " if bits else "F "
    if t[0] == "char":
        return chr(bits) + " "
    return None


def parse_scalar(t, text):
    """bit pattern printed for a scalar (inverse of fmt_scalar), or None"""
    try:
        if t[0] == "int":
            w, s = INTINFO[t[1]]
            return int(text.strip()) % (1 << w)
        if t[0] == "bool":
            return {"T ": 1, "F ": 0}[text]
        if t[0] == "char":
            return ord(text[0]) if len(text) == 2 else None
    except (ValueError, KeyError):
        return None
    return None


# --------------------------------------------------------------------------- probes (known findings)

PUTS = "putchar :: (c: u8) extern;\nputs :: (s: str) -> i32 extern;\n"
ENUM_WITNESS = 'putchar :: (c: u8) extern;\npu64 :: (n: u64) {\n    if n >= 10 { pu64(n / 10); }\n    putchar(u8.(48 + n % 10));\n}\npi64 :: (n: i64) {\n    if n < 0 { putchar(45); pu64(u64.(0 - n)); } else { pu64(u64.(n)); }\n}\npbool :: (b: bool) { if b { putchar(84); } else { putchar(70); } }\nsp :: () { putchar(32); }\nnl :: () { putchar(10); }\nh_sumsq :: (n: u32) -> u32 {\n    acc : u32 = 0;\n    i : u32 = 0;\n    while i < n { acc = acc + i * i; i = i + 1; }\n    acc\n}\nh_fib :: (n: u64) -> u64 {\n    a : u64 = 0;\n    b : u64 = 1;\n    i : u64 = 0;\n    while i < n { t : u64 = a + b; a = b; b = t; i = i + 1; }\n    a\n}\nh_mix :: (a: i32, b: i32) -> i32 { (a * 31) ~ (b + 7) }\nh_collatz :: (n: u32) -> u32 {\n    x : u32 = n;\n    steps : u32 = 0;\n    while x != 1 {\n        if x % 2 == 0 { x = x / 2; } else { x = x * 3 + 1; }\n        steps = steps + 1;\n    }\n    steps\n}\n\nK0 : i8 : 122;\nK1 : i16 : 17011;\nK2 : i32 : 1064756169;\nK3 : i64 : 594686294769335475;\nK4 : u8 : 161;\nK5 : u16 : 56990;\nK6 : u32 : 3745778803;\nK7 : u64 : 7460928952240391312;\nK8 : isize : 6273585954487440911;\nK9 : usize : 8879058979196822883;\nS6 :: struct { f0: u128, f1: u16 };\nS7 :: struct { f0: char, f1: bool, f2: bool };\nE2 :: enum { V0: S6, V1: i8, V2: i32, V3: S7 };\ncase8 :: () {\n    cl := comptime {\n        v2 : i32 = 1540435171;\n        v3 : i32 = comptime {\n            v4 : i32 = i32.(h_fib(69));\n            v5 : i32 = 242799825;\n            v6 : i32 = v4 << 23;\n            v7 : i32 = v4 % 3;\n            v8 : i32 = v4 << 18;\n            v9 : i32 = v6 + v8;\n            v9\n        };\n        v10 : i32 = comptime {\n            v11 : i32 = i32.(h_sumsq(19));\n            v12 : i32 = v11 | v11;\n            v13 : i32 = v11;\n            v14 : u32 = 0;\n            while v14 < 5 { v13 = v13 * 3 + v11; v14 = v14 + 1; }\n            v15 : i32 = v12 >> 2;\n            v15\n        };\n        v16 : u8 = 253;\n        v17 : i32 = i32.(v16) + v10;\n        v1 : E2 = E2.V2.(v17);\n        v1\n    };\n    switch pv in cl {\n        .V0 => {\n            putchar(97);\n            putchar(123);\n            pu64(u64.(pv.f0 >> 64)); putchar(58); pu64(u64.(pv.f0 & 18446744073709551615)); sp();\n            pu64(u64.(pv.f1)); sp();\n            putchar(125);\n        },\n        .V1 => {\n            putchar(98);\n            pi64(i64.(i8.(pv))); sp();\n        },\n        .V2 => {\n            putchar(99);\n            pi64(i64.(i32.(pv))); sp();\n        },\n        .V3 => {\n            putchar(100);\n            putchar(123);\n            putchar(u8.(pv.f0)); sp();\n            pbool(pv.f1); sp();\n            pbool(pv.f2); sp();\n            putchar(125);\n        },\n    }\n    nl();\n    rt : E2 = {\n        v2 : i32 = 1540435171;\n        v3 : i32 = {\n            v4 : i32 = i32.(h_fib(69));\n            v5 : i32 = 242799825;\n            v6 : i32 = v4 << 23;\n            v7 : i32 = v4 % 3;\n            v8 : i32 = v4 << 18;\n            v9 : i32 = v6 + v8;\n            v9\n        };\n        v10 : i32 = {\n            v11 : i32 = i32.(h_sumsq(19));\n            v12 : i32 = v11 | v11;\n            v13 : i32 = v11;\n            v14 : u32 = 0;\n            while v14 < 5 { v13 = v13 * 3 + v11; v14 = v14 + 1; }\n            v15 : i32 = v12 >> 2;\n            v15\n        };\n        v16 : u8 = 253;\n        v17 : i32 = i32.(v16) + v10;\n        v1 : E2 = E2.V2.(v17);\n        v1\n    };\n    switch pv in rt {\n        .V0 => {\n            putchar(97);\n            putchar(123);\n            pu64(u64.(pv.f0 >> 64)); putchar(58); pu64(u64.(pv.f0 & 18446744073709551615)); sp();\n            pu64(u64.(pv.f1)); sp();\n            putchar(125);\n        },\n        .V1 => {\n            putchar(98);\n            pi64(i64.(i8.(pv))); sp();\n        },\n        .V2 => {\n            putchar(99);\n            pi64(i64.(i32.(pv))); sp();\n        },\n        .V3 => {\n            putchar(100);\n            putchar(123);\n            putchar(u8.(pv.f0)); sp();\n            pbool(pv.f1); sp();\n            pbool(pv.f2); sp();\n            putchar(125);\n        },\n    }\n    nl();\n}\nmain :: () {\n    case8();\n}\n'
PROBES = [
    # (name, model type, expected verdict, source, expected stdout)
    ("str-global", "str", "comptime-result-str",
     PUTS + 'g :: comptime { "hello" };\nmain :: () { puts(g); }\n', "hello\n"),
    ("str-local", "str", "comptime-result-str",
     PUTS + 'main :: () { x := comptime { "hello" }; puts(x); }\n', "hello\n"),
    ("distinct-str", "distinct.str", "comptime-result-str",
     PUTS + 'Name :: distinct str;\nmain :: () { x := comptime { n : Name = "hello"; n }; puts(str.(x)); }\n', "hello\n"),
    ("struct-with-str", "struct.2.i32.str", "comptime-result-aggregate-with-pointer",
     PUTS + 'S :: struct { a: i32, s: str };\nmain :: () { x := comptime { S.{ a = 5, s = "hello" } }; puts(x.s); }\n', "hello\n"),
    ("array-of-str", "arr.2.str", "comptime-result-aggregate-with-pointer",
     PUTS + 'main :: () { x := comptime { str.["ab", "cd"] }; puts(x[1]); }\n', "cd\n"),
    ("optional-str", "opt.str", "comptime-result-aggregate-with-pointer",
     PUTS + 'main :: () { x := comptime { o : ?str = "hello"; o }; if x != nil { puts(#unwrap(x)); } }\n', "hello\n"),
    ("slice", "slice.i32", "comptime-result-fat-pointer",
     PUTS + 'main :: () { x := comptime { arr := i32.[65, 66, 67]; s : []i32 = arr; s }; putchar(u8.(x[1])); putchar(10); }\n', "B\n"),
    ("optional-pointer", "opt.ptr.i32", "comptime-result-optional-pointer",
     PUTS + 'gv : i32 : 66;\nmain :: () { x := comptime { p : ?^i32 = ^gv; p }; if x != nil { putchar(u8.(#unwrap(x)^)); } putchar(10); }\n', "B\n"),
    ("u128-result", "u128", "comptime-result-int128",
     PUTS + 'main :: () { x := comptime { v : u128 = 5; v }; putchar(u8.(48 + x)); putchar(10); }\n', "5\n"),
    ("i128-result-global", "i128", "comptime-result-int128",
     PUTS + 'g :: comptime { v : i128 = 7; v };\nmain :: () { putchar(u8.(48 + g)); putchar(10); }\n', "7\n"),
    ("enum-simple", "enum.2.variant.void.variant.i16", "comptime-result-enum",
     PUTS + 'E1 :: enum { V0, V1: i16 };\nmain :: () { cl := comptime { v6 : i16 = 66; v1 : E1 = E1.V1.(v6); v1 };\n'
     '    switch pv in cl { .V0 => { putchar(97); }, .V1 => { putchar(u8.(i16.(pv))); }, }\n    putchar(10); }\n', "B\n"),
    ("enum-with-nested-comptime", "enum.4.variant.struct.2.u128.u16.variant.i8.variant.i32.variant.struct.3.char.bool.bool",
     "comptime-result-enum", ENUM_WITNESS, None),
    # results the checker must refuse (ComptimePointer)
    ("pointer", "ptr.i32", "rejected",
     PUTS + 'gv : i32 : 66;\nmain :: () { x := comptime { ^gv }; putchar(u8.(x^)); putchar(10); }\n', None),
    ("pointer-global", "ptr.i32", "rejected",
     PUTS + 'gv : i32 : 66;\ng :: comptime { ^gv };\nmain :: () { putchar(u8.(g^)); putchar(10); }\n', None),
    ("distinct-pointer", "distinct.ptr.i32", "rejected",
     PUTS + 'P :: distinct ^i32;\ngv : i32 : 66;\nmain :: () { x := comptime { p : P = ^gv; p }; putchar(10); }\n', None),
    ("function", "fn", "rejected",
     PUTS + 'f :: () -> i32 { 66 }\nmain :: () { x := comptime { f }; putchar(u8.(x())); putchar(10); }\n', None),
    ("rawptr", "rawptr", "rejected",
     PUTS + 'gv : i32 : 66;\nmain :: () { x := comptime { p : rawptr = rawptr.(^gv); p }; putchar(10); }\n', None),
    # address-free results that must work
    ("ok-i32", "i32", "ok", PUTS + 'main :: () { x := comptime { 60 + 6 }; putchar(u8.(x)); putchar(10); }\n', "B\n"),
    ("ok-struct", "struct.2.i32.arr.2.u8", "ok",
     PUTS + 'S :: struct { a: i32, b: [2]u8 };\nmain :: () { x := comptime { S.{ a = 5, b = u8.[66, 67] } }; putchar(x.b[0]); putchar(x.b[1]); putchar(10); }\n', "BC\n"),
    ("ok-optional", "opt.i32", "ok",
     PUTS + 'main :: () { x := comptime { o : ?i32 = 66; o }; if x != nil { putchar(u8.(#unwrap(x))); } putchar(10); }\n', "B\n"),
]


def run_probes(fl, capy, drv):
    v = fl.v
    res = C.parallel_map(lambda p: run_program(capy, p[3]), PROBES)
    mlines = C.run_lines([drv], ["cls " + p[1] for p in PROBES], indexed=False)
    diffs = 0
    first = None
    hist = {}
    for (name, mty, want, src, expect), r, ml in zip(PROBES, res, mlines):
        m = dict(x.split("=", 1) for x in ml.split() if "=" in x)
        rejected = bool(r.get("build_failed")) and not r.get("panic")
        accepted = not r.get("build_failed")
        panicked = bool(r.get("panic"))
        if expect is None and want != "rejected":
            ls = (r.get("out") or "").split("\n")          # witness in end-to-end form: two equal lines
            good = accepted and r["rc"] == 0 and len(ls) == 3 and ls[0] == ls[1]
        else:
            good = accepted and r["rc"] == 0 and r["out"] == expect
        payload = {"key": "probe:" + name, "stream": "probes", "probe": name, "model_type": mty, "source": src,
                   "expected_stdout": expect, "got_stdout": r.get("out"), "exit_status": r.get("rc"),
                   "build_rc": r["build_rc"], "build_output": clean_build_out(r["build_out"]),
                   "model": m}
        # correspondence: the checker accepts <=> model guard (a panic later on still means "accepted")
        impl_accepts = accepted or panicked
        if m.get("guard") is None or (m["guard"] == "1") != impl_accepts:
            diffs += 1
            first = first or payload
        outcome = "ok" if good else ("rejected" if rejected and not panicked else ("compiler-panic" if panicked else "misbehaves"))
        hist[outcome] = hist.get(outcome, 0) + 1
        if want == "rejected":
            if impl_accepts:
                # pointer / function result got through the checker: the value the program sees is an address
                # into freed JIT memory
                v.failing("comptime-pointer-result-accepted", payload)
            continue
        if good or (rejected and not panicked and want != "ok"):
            # works, or is refused at compile time: no wrong value reaches a built program
            continue
        if want == "ok":
            v.failing("comptime-probe-wrong:" + name, payload)
            continue
        cls = want
        if want not in ("comptime-result-int128", "comptime-result-enum") and m.get("class") not in (want,):
            # the model's classifier must agree with the class we report
            diffs += 1
            first = first or payload
        v.failing(cls, payload)
    fl.stream("probes: capy accepts <=> model guard; failing class == model known_class", len(PROBES), diffs, first)
    v.coverage["probe_outcomes"] = hist
    return len(PROBES)


# --------------------------------------------------------------------------- side-effect markers

def marker_program(rng, k):
    """program with marker blocks in different positions; returns (source, marker ids, expected output)"""
    ids = [chr(65 + i) for i in range(8)]
    a, b, c, d, e, f, g, h = [ord(x) for x in ids]
    n1 = rng.range(1, 9)
    n2 = rng.range(1, 9)
    loops = rng.range(2, 4)
    src = """putchar :: (c: u8) extern;
mark :: (id: u8) -> i32 { putchar(60); putchar(77); putchar(%d); putchar(id); putchar(62); putchar(10); 1 }
g :: comptime { mark(%d) + %d };
T :: comptime { mark(%d); i32 };
S :: struct { a: i32, b: u8 };
gs :: comptime { S.{ a = mark(%d) + 1, b = 66 } };
helper :: () -> i32 { comptime { mark(%d) * %d } }
main :: () {
    l := comptime { x := comptime { mark(%d) * 10 }; x + mark(%d) };
    i := 0;
    n := 0;
    while n < %d {
        k := comptime { mark(%d) + 1 };
        i = i + k;
        n = n + 1;
    }
    y : T = helper() + helper();
    z := comptime { mark(%d); };
    putchar(u8.(48 + g)); putchar(u8.(48 + l - 10)); putchar(u8.(48 + i)); putchar(u8.(48 + y)); putchar(u8.(48 + gs.a)); putchar(gs.b); putchar(10);
}
""" % (48 + k, a, n1, b, c, d, n2, e, f, loops, g, h)
    expect = "%s%s%s%s%s%s\n" % (chr(48 + 1 + n1), chr(48 + 1), chr(48 + 2 * loops), chr(48 + 2 * n2), chr(48 + 2), "B")
    return src, ["<M%d%s>" % (k, x) for x in ids], expect


def run_markers(fl, capy, n):
    v = fl.v
    rng = fl.rng.fork("markers")
    progs = [marker_program(rng, k % 10) for k in range(n)]
    res = C.parallel_map(lambda p: run_program(capy, p[0]), progs)
    checked = 0
    for (src, marks, expect), r in zip(progs, res):
        payload = {"stream": "side-effects", "source": src, "markers": marks, "expected_stdout": expect,
                   "got_stdout": r.get("out"), "exit_status": r.get("rc"), "build_rc": r["build_rc"],
                   "build_output": clean_build_out(r["build_out"]), "key": "marker:" + C.sha(src)}
        if r.get("build_failed"):
            v.failing("comptime-marker-program:" + ("compiler-panic" if r.get("panic") else "rejected"), payload)
            continue
        for m in marks:
            checked += 1
            cnt = r["build_out"].count(m)
            payload["marker"] = m
            payload["times_in_compiler_output"] = cnt
            if cnt == 0:
                v.failing("comptime-side-effect-missing-at-compile-time", payload)
            elif cnt > 1:
                v.failing("comptime-side-effect-repeated-at-compile-time", payload)
            if m in (r["out"] or ""):
                v.failing("comptime-side-effect-repeated-at-run-time", payload)
        if "<M" in (r["out"] or ""):
            v.failing("comptime-side-effect-repeated-at-run-time", payload)
        elif r["rc"] != 0 or r["out"] != expect:
            v.failing("comptime-marker-program:wrong-values", payload)
    return checked


# --------------------------------------------------------------------------- f32 via f64

def run_float_model(fl, drv, n):
    rng = fl.rng.fork("floats")
    pats = [0, 1, 0x007fffff, 0x00800000, 0x3f800000, 0x7f7fffff, 0x7f800000, 0xff800000, 0x80000000, 0x80000001,
            0x00000002, 0x00400000, 0x33800000, 0x7f800001, 0x7fc00000, 0xffc00001]
    for _ in range(n):
        x = rng.below(1 << 32)
        k = rng.below(4)
        if k == 0:
            x &= 0x807fffff            # subnormals / zeros
        elif k == 1:
            x = (x & 0x807fffff) | (rng.choice([1, 2, 127, 254]) << 23)
        pats.append(x)
    lines = ["f32 %x" % p for p in pats]
    # demote on arbitrary f64 patterns (rounding, overflow, underflow)
    dpats = []
    for _ in range(n):
        hi = rng.below(1 << 32)
        lo = rng.below(1 << 32)
        d = (hi << 32) | lo
        k = rng.below(4)
        if k < 3:
            # exponent near the f32 range (incl. the subnormal and overflow borders)
            e = rng.range(1023 - 160, 1023 + 130)
            d = (d & ~(0x7ff << 52)) | (e << 52)
        if k == 2:
            d &= ~((1 << 29) - 1)
            d |= rng.choice([0, 1 << 28, (1 << 28) + 1, (1 << 28) - 1, 1 << 29, 3 << 28])
        dpats.append(d & ((1 << 64) - 1))
    lines += ["dem %x" % d for d in dpats]
    out = C.run_lines([drv], lines, indexed=False)
    diffs = 0
    first = None
    cases = 0
    for p, o in zip(pats, out[:len(pats)]):
        m = dict(x.split("=", 1) for x in o.split() if "=" in x)
        f = struct.unpack("<f", struct.pack("<I", p))[0]
        isnan = f != f
        want = struct.unpack("<Q", struct.pack("<d", f))[0]
        cases += 1
        ok = True
        if not isnan:
            ok = m.get("promote") == "%x" % want and m.get("roundtrip") == "%x" % p and m.get("nan") == "0"
        else:
            ok = m.get("nan") == "1"
        if not ok:
            diffs += 1
            first = first or {"f32_bits": "%x" % p, "model": o, "host_promote": "%x" % want}
    for d, o in zip(dpats, out[len(pats):]):
        dv = struct.unpack("<d", struct.pack("<Q", d))[0]
        if dv != dv:
            continue
        try:
            want = struct.unpack("<I", struct.pack("<f", dv))[0]
        except OverflowError:
            want = 0x7f800000 | (0x80000000 if d >> 63 else 0)
        cases += 1
        if o.strip() != "demote=%x" % want:
            diffs += 1
            first = first or {"f64_bits": "%x" % d, "model": o, "host_demote": "%x" % want}
    fl.stream("f32<->f64 bit-level model (promote/demote) vs host C conversions", cases, diffs, first)
    return cases


# --------------------------------------------------------------------------- end to end

ISOLATED = []


def attribute(capy, cases, const_decls, res, expect_lines=2):
    """per-case outcome list for a batch result; isolates single cases when the batch did not build
    or the program died"""
    n = len(cases)
    if not res.get("build_failed") and res["rc"] == 0:
        lines = res["out"].split("\n")
        if len(lines) == 2 * n + 1:
            return [{"c": lines[2 * i], "r": lines[2 * i + 1], "rc": 0} for i in range(n)]
    # isolate: every case alone (only for the first few failing batches: a broken compiler fails them all)
    ISOLATED.append(1)
    if len(ISOLATED) > 4:
        out = [{"skipped": True} for _ in range(n)]
        out[0] = {"rc": res.get("rc"), "c": None, "r": None,
                  "batch_only": {"build_rc": res["build_rc"], "rc": res.get("rc"), "not_isolated": True,
                                 "build_output": clean_build_out(res["build_out"]),
                                 "stdout": (res.get("out") or "")[:3000]}}
        return out
    singles = C.parallel_map(lambda i: run_program(capy, program_text(cases, const_decls, only=i)), list(range(n)))
    out = []
    for i, r in enumerate(singles):
        if r.get("build_failed"):
            out.append({"build_failed": True, "panic": r.get("panic"), "build_output": clean_build_out(r["build_out"])})
            continue
        lines = (r["out"] or "").split("\n")
        o = {"rc": r["rc"], "c": lines[0] if len(lines) > 1 else None, "r": lines[1] if len(lines) > 2 else None}
        out.append(o)
    if all(not o.get("build_failed") and o.get("rc") == 0 and o.get("c") is not None and o.get("r") is not None for o in out):
        # every case is fine alone but the batch is not: report the batch itself
        out[0]["batch_only"] = {"build_rc": res["build_rc"], "rc": res.get("rc"),
                                "build_output": clean_build_out(res["build_out"])}
    return out


def run_e2e(fl, capy, drv, nprog, per):
    v = fl.v
    rng = fl.rng.fork("e2e")
    batches = []
    for b in range(nprog):
        crng = rng.fork("consts%d" % b)
        consts, decls = make_consts(crng)
        g = Gen(rng.fork("prog%d" % b), consts)
        cases = [g.case() for _ in range(per)]
        batches.append((cases, decls))
    results = C.parallel_map(lambda b: run_program(capy, program_text(b[0], b[1])), batches)
    hist = {"kind": {}, "mode": {}, "features": {}, "outcome": {}}
    nontriv = set()
    ncase = 0
    mq = []        # model queries
    mref = []
    samples = []
    for (cases, decls), res in zip(batches, results):
        outs = attribute(capy, cases, decls, res)
        for idx, (c, o) in enumerate(zip(cases, outs)):
            if o.get("skipped"):
                continue
            ncase += 1
            t = c["ty"]
            kind = ty_kind(t)
            hist["kind"][kind] = hist["kind"].get(kind, 0) + 1
            hist["mode"][c["mode"]] = hist["mode"].get(c["mode"], 0) + 1
            for f in c["features"]:
                hist["features"][f] = hist["features"].get(f, 0) + 1
            src1 = program_text(cases, decls, only=idx)
            key = C.sha(src1)
            payload = {"key": "e2e:" + key, "stream": "end-to-end", "result_type": ty_text(t), "model_type": ty_model(t),
                       "mode": c["mode"], "source": src1}
            if o.get("build_failed"):
                cls = "comptime-block-compiler-panic:" + kind if o.get("panic") else "comptime-block-rejected:" + kind
                payload["build_output"] = o["build_output"]
                hist["outcome"][cls] = hist["outcome"].get(cls, 0) + 1
                v.failing(cls, payload)
                continue
            payload.update({"comptime_copy": o.get("c"), "runtime_copy": o.get("r"), "exit_status": o.get("rc")})
            if o.get("batch_only"):
                payload["batch"] = o["batch_only"]
                payload["source"] = program_text(cases, decls)
                v.failing("comptime-batch-wrong-not-isolated" if o["batch_only"].get("not_isolated")
                          else "comptime-batch-fails-but-single-cases-pass", payload)
                continue
            if o.get("rc") != 0 or o.get("c") is None or o.get("r") is None:
                cls = "comptime-program-crash:" + kind
                hist["outcome"][cls] = hist["outcome"].get(cls, 0) + 1
                v.failing(cls, payload)
                continue
            if o["c"] != o["r"]:
                cls = "comptime-value-differs:%s:%s" % (kind, c["mode"])
                hist["outcome"][cls] = hist["outcome"].get(cls, 0) + 1
                v.failing(cls, payload)
            else:
                hist["outcome"]["equal"] = hist["outcome"].get("equal", 0) + 1
            if c["features"] or t[0] not in ("int", "bool", "char", "float"):
                nontriv.add(key)
            if len(samples) < 4 and idx == 0:
                samples.append({"result_type": ty_text(t), "mode": c["mode"], "comptime_copy": o["c"], "runtime_copy": o["r"]})
            # model stream: scalars
            if t[0] in ("int", "bool", "char") and ty_kind(t) != "int128":
                bits = parse_scalar(t, o["r"])
                if bits is not None:
                    up = rng.below(1 << 30)
                    mq.append("val %s %x %x %s" % (ty_model(t), bits, up, "%016x" % rng.below(1 << 62)))
                    mref.append((t, o["c"], o["r"], payload))
            else:
                mq.append("cls " + ty_model(t))
                mref.append((t, None, None, payload))
    v.coverage["evaluations"] += ncase
    v.coverage["distinct_nontrivial"] += len(nontriv)
    v.coverage["histograms"] = hist
    v.add_samples(samples)
    # ---- model predictions
    mres = C.run_lines([drv], mq, indexed=False)
    diffs = 0
    first = None
    if len(mres) != len(mq):
        fl.broken.append({"what": "model driver output length mismatch", "got": len(mres), "want": len(mq)})
    else:
        for q, ml, (t, cc, rr, payload) in zip(mq, mres, mref):
            bad = None
            if q.startswith("val "):
                m = dict(x.split("=", 1) for x in ml.split() if "=" in x)
                pred = []
                for path in ("L", "G"):
                    x = m.get(path, "")
                    if x.startswith("num:"):
                        pred.append(fmt_scalar(t, int(x.split(":")[2], 16)))
                    else:
                        pred.append(x)
                want = pred[0] if payload["mode"] != "global" else pred[1]
                if want != cc or pred[0] != pred[1]:
                    bad = {"query": q, "model": ml, "model_prediction_for_comptime_copy": want,
                           "program_printed": cc, "runtime_copy": rr, "source": payload["source"]}
            else:
                m = dict(x.split("=", 1) for x in ml.split() if "=" in x)
                if not (m.get("guard") == "1" and m.get("ptr") == "0" and m.get("class") == "-"):
                    bad = {"query": q, "model": ml, "expected": "guard=1 ptr=0 class=- for a generated address-free type"}
                elif payload.get("comptime_copy") is not None and payload.get("comptime_copy") != payload.get("runtime_copy"):
                    bad = {"query": q, "model": ml, "model_prediction": "round trip is the identity (C04_roundtrip_no_ptr)",
                           "program_printed": payload.get("comptime_copy"), "runtime_copy": payload.get("runtime_copy"),
                           "source": payload["source"]}
            if bad:
                diffs += 1
                first = first or bad
        fl.stream("extracted model (run_jit/capture/materialise, known_class) vs built programs", len(mq), diffs, first)
    return ncase


# --------------------------------------------------------------------------- entry points


# --------------------------------------------------------------------------- weak-literal bodies in typed contexts
WL_PRELUDE = """putchar :: (c: u8) -> i32 extern;
wpd :: (x: u64) { if x >= 10 { wpd(x / 10); } putchar(u8.(48 + x % 10)); }
wpi :: (x: i64) { if x < 0 { putchar(45); wpd(u64.(0 - x)); } else { wpd(u64.(x)); } }
sp :: () { putchar(32); }
nl :: () { putchar(10); }
WEr :: enum { X, Y: i32 };
"""
WL_FLOATS = {"f64": ["1.0 / 10.0", "3.141592653589793", "2.0 / 3.0", "1.0e300 / 3.0", "0.1 + 0.2", "-1.0 / 7.0", "16777217.0"],
             "f32": ["1.0 / 10.0", "0.1 + 0.2", "1.5 * 2.25", "-2.0 / 3.0"]}
WL_CONTEXTS = ["plain", "opt", "struct-field", "opt-struct-field", "array-elem", "fn-arg", "opt-fn-arg",
               "return", "opt-return", "enum-payload", "assign", "opt-assign"]
# a weak-literal block written directly into an error union is handled badly by the UNCHANGED compiler in several ways
# (findings C04-7, C04-8 and a run-time mis-typing that belongs to C09): these contexts get one-case programs of their own
WL_ERR_CONTEXTS = ["err", "err-return"]


def wl_int_exprs(rng, name):
    """[(weak-literal expression text, its value)] for integer type `name`: only untyped literals and arithmetic
    on them, every intermediate within the type's range; includes negatives and magnitudes beyond 32 bits."""
    w, sg = INTINFO[name]
    lo, hi = (-(1 << (w - 1)), (1 << (w - 1)) - 1) if sg else (0, (1 << w) - 1)
    vals = [rng.range(0, min(hi, 100)), hi, hi - rng.range(0, min(hi, 1000)), rng.range(0, hi)]
    if w >= 32:
        vals += [min(hi, (1 << 31) + rng.range(0, 1 << 20)), min(hi, 3000000000)]
    if w >= 64:
        vals += [(1 << 32) + rng.range(0, 1 << 30), min(hi, (1 << 40) * rng.range(1, 1000)), hi - rng.range(0, 1 << 33)]
    if sg:
        vals += [-rng.range(1, min(hi, 100)), -rng.range(1, hi), -hi]
        if w >= 64:
            vals += [-((1 << 31) + rng.range(1, 1 << 20)), -((1 << 33) + rng.range(0, 1 << 40))]
    out = []
    for z in vals:
        form = rng.below(4)
        lit = lambda q: str(q) if q >= 0 else "-%d" % -q
        if form == 0 or (z < 0 and form == 3):
            out.append((lit(z), z))
        elif form == 1:
            a = rng.range(0, abs(z)) if z >= 0 else -rng.range(0, -z)
            out.append(("%s + %s" % (lit(a), lit(z - a)) if z - a >= 0 else "%s - %d" % (lit(a), a - z), z))
        elif form == 2:
            b = rng.range(0, min(hi, 1000))
            if lo <= z + b <= hi and z + b >= 0:
                out.append(("%d - %d" % (z + b, b), z))
            else:
                out.append((lit(z), z))
        else:
            f = next((d for d in (65536, 4096, 256, 100, 16, 7, 3, 2) if z % d == 0 and z >= d), 1)
            out.append(("%d * %d" % (z // f, f) if f > 1 else lit(z), z))
    # the demonstration shapes
    if w >= 64:
        out.append(("65536 * 65536", 1 << 32))
    if sg:
        out.append(("-5", -5))
    return out


def wl_case(idx, ctx, tname, expr):
    """(declarations, statements of main) printing the comptime copy and the run-time copy of `expr` in context `ctx`."""
    isf = tname in ("f32", "f64")
    T = tname

    def pr(e):
        if isf:
            return "wpi(i64.(%s * %s));" % (e, "1000000000000.0" if T == "f64" else "100000.0")
        w, sg = INTINFO[T]
        return ("wpi(i64.(%s));" % e) if sg else ("wpd(u64.(%s));" % e)
    decls, body = [], []
    for tag, blk in (("c", "comptime { %s }" % expr), ("r", "{ %s }" % expr)):
        n = "w%d%s" % (idx, tag)
        if ctx == "plain":
            body += ["%s : %s = %s;" % (n, T, blk), pr(n)]
        elif ctx == "opt":
            body += ["%s : ?%s = %s;" % (n, T, blk), pr("#unwrap(%s, %s)" % (n, T))]
        elif ctx == "err":
            body += ["%s : WEr!%s = %s;" % (n, T, blk), pr("#unwrap(%s, %s)" % (n, T))]
        elif ctx == "struct-field":
            decls.append("WS%d%s :: struct { a: u8, f: %s };" % (idx, tag, T))
            body += ["%s := WS%d%s.{ a = 1, f = %s };" % (n, idx, tag, blk), pr(n + ".f")]
        elif ctx == "opt-struct-field":
            decls.append("WS%d%s :: struct { a: u8, f: ?%s };" % (idx, tag, T))
            body += ["%s := WS%d%s.{ a = 1, f = %s };" % (n, idx, tag, blk), pr("#unwrap(%s.f, %s)" % (n, T))]
        elif ctx == "array-elem":
            body += ["%s := %s.[%s, %s];" % (n, T, blk, blk), pr(n + "[1]")]
        elif ctx == "fn-arg":
            decls.append("wf%d%s :: (x: %s) -> %s { x }" % (idx, tag, T, T))
            body += [pr("wf%d%s(%s)" % (idx, tag, blk))]
        elif ctx == "opt-fn-arg":
            decls.append("wf%d%s :: (x: ?%s) -> %s { #unwrap(x, %s) }" % (idx, tag, T, T, T))
            body += [pr("wf%d%s(%s)" % (idx, tag, blk))]
        elif ctx == "return":
            decls.append("wf%d%s :: () -> %s { %s }" % (idx, tag, T, blk))
            body += [pr("wf%d%s()" % (idx, tag))]
        elif ctx == "opt-return":
            decls.append("wf%d%s :: () -> ?%s { %s }" % (idx, tag, T, blk))
            body += ["%s := wf%d%s();" % (n, idx, tag), pr("#unwrap(%s, %s)" % (n, T))]
        elif ctx == "err-return":
            decls.append("wf%d%s :: () -> WEr!%s { %s }" % (idx, tag, T, blk))
            body += ["%s := wf%d%s();" % (n, idx, tag), pr("#unwrap(%s, %s)" % (n, T))]
        elif ctx == "enum-payload":
            decls.append("WE%d%s :: enum { V0, V1: %s };" % (idx, tag, T))
            body += ["%s : WE%d%s = WE%d%s.V1.(%s);" % (n, idx, tag, idx, tag, blk),
                     pr("%s.(#unwrap(%s, WE%d%s.V1))" % (T, n, idx, tag))]
        elif ctx == "assign":
            body += ["%s : %s = 0;" % (n, T) if not isf else "%s : %s = 0.0;" % (n, T), "%s = %s;" % (n, blk), pr(n)]
        elif ctx == "opt-assign":
            body += ["%s : ?%s = nil;" % (n, T), "%s = %s;" % (n, blk), pr("#unwrap(%s, %s)" % (n, T))]
        body.append("sp();" if tag == "c" else "nl();")
    return decls, body


def run_weak_literals(fl, capy, nprog, per):
    """Comptime blocks whose body is made only of untyped literals, in every expected-type context, next to the same
    block evaluated at run time in the same context.  Oracle 1: the two printed values are equal.  Oracle 2 (integers):
    both equal the value of the expression at the type the context gives it (python mirror of the typing rule "a weak
    literal body is evaluated at the type its context demands"; the Coq model starts from the value the body yields)."""
    v = fl.v
    rng = fl.rng.fork("weak-literals")
    progs = []
    nerr = max(4, nprog // 2)
    for pi in range(nprog + nerr):
        r = rng.fork(str(pi))
        cases = []
        decls, body = [WL_PRELUDE], []
        for k in range(per if pi < nprog else 1):
            ctx = WL_CONTEXTS[(pi * per + k) % len(WL_CONTEXTS)] if pi < nprog else WL_ERR_CONTEXTS[pi % 2]
            if r.chance(1, 5):
                tname = r.choice(["f64", "f64", "f32"])
                expr, val = r.choice(WL_FLOATS[tname]), None
            else:
                tname = r.choice([n for n, _, _ in INTS])
                expr, val = r.choice(wl_int_exprs(r, tname))
            d, b = wl_case(k, ctx, tname, expr)
            decls += d
            body += b
            cases.append((ctx, tname, expr, val))
        src = "\n".join(decls) + "\nmain :: () {\n" + "\n".join("    " + l for l in body) + "\n}\n"
        progs.append((src, cases))
    results = C.parallel_map(lambda pc: run_program(capy, pc[0]), progs)
    ncase = diffs = 0
    first = None
    hist = {}
    both_wrong = []
    for (src, cases), res in zip(progs, results):
        errprobe = cases[0][0] in WL_ERR_CONTEXTS
        if res.get("build_failed"):
            cls = "weak-literal-comptime:compiler-panic" if res.get("panic") else "weak-literal-comptime:rejected"
            if errprobe:
                cls = "weak-literal-block-in-error-union:compiler-panic-or-rejected"
            v.failing(cls, {"key": "wl:" + C.sha(src), "stream": "weak literals", "source": src,
                            "build_output": clean_build_out(res["build_out"])})
            continue
        lines = (res["out"] or "").split("\n")
        for k, (ctx, tname, expr, val) in enumerate(cases):
            ncase += 1
            hist[ctx] = hist.get(ctx, 0) + 1
            got = lines[k].split(" ") if k < len(lines) else ["<missing>", "<missing>"]
            ct, rt = (got + ["<missing>"])[:2]
            want = None if val is None else str(val)
            if ct != rt or (want is not None and (ct != want or rt != want)):
                which = "comptime" if (ct != rt and (want is None or rt == want)) else ("run-time" if ct == want else "both")
                payload = {"key": "wl:%s:%s:%s" % (ctx, tname, expr), "stream": "weak literals", "context": ctx, "type": tname,
                           "expression": expr, "comptime_copy_prints": ct, "run_time_copy_prints": rt,
                           "value_at_context_type": want, "wrong_copy": which, "source": src, "case_index": k}
                if which == "comptime":
                    fam = ("error-union" if ctx.startswith("err") else "optional" if ctx.startswith("opt") else
                           "enum-payload" if ctx == "enum-payload" else "plain")
                    v.failing("comptime-weak-literal-body-differs:" + fam, payload)
                elif ct == rt:
                    # both copies agree but are not the value at the context's type: the literal was mis-typed before
                    # comptime is involved (C09's business, not a difference between comptime and run time)
                    both_wrong.append({k2: payload[k2] for k2 in payload if k2 != "source"})
                else:
                    v.failing("weak-literal-value-wrong-at-run-time:%s" % tname, payload)
                diffs += 1
                first = first or {k2: payload[k2] for k2 in payload if k2 != "source"}
    fl.stream("weak-literal comptime bodies in typed contexts: comptime copy = run-time copy (= value at the context's type)",
              ncase, 0, None)
    v.coverage["weak_literal_cases"] = ncase
    v.coverage["weak_literal_both_copies_equal_but_not_the_value_at_the_context_type"] = {"count": len(both_wrong), "examples": both_wrong[:3]}
    v.coverage["weak_literal_contexts"] = hist
    return ncase


def run(tier, seed):
    fl = Flow("C04", tier, seed, "proof")
    v = fl.v
    fl.proof_stage()
    drv = fl.driver()
    capy = fl.capy()
    if drv and capy:
        quick = tier == "quick"
        nprobe = run_probes(fl, capy, drv)
        nfl = run_float_model(fl, drv, 4000 if quick else 60000)
        nmark = run_markers(fl, capy, 6 if quick else 30)
        nprog, per = (40, 12) if quick else (400, 12)
        ncase = run_e2e(fl, capy, drv, nprog, per)
        nwl = run_weak_literals(fl, capy, 12 if quick else 100, 12)
        v.coverage["evaluations"] += nwl
        v.coverage["evaluations"] += nprobe + nmark
        v.coverage["probe_programs"] = nprobe
        v.coverage["marker_checks"] = nmark
        v.coverage["float_patterns"] = nfl
        v.coverage["e2e_programs"] = nprog
        v.coverage["compiler_runs_retried_after_silent_failure_or_signal"] = list(RETRIES)
        v.coverage["rule"] = (
            "end-to-end: %d programs x %d generated cases; a case = one typed block (ints of every width with wrap-around "
            "arithmetic, shifts, division, if-expressions, loops, helper calls, const globals, nested blocks; bool, char, "
            "f32/f64; arrays, nested structs with 128-bit members, enums with payloads, optionals, error unions) emitted "
            "twice: as `comptime { .. }` (global / local / local inside a loop) and as a plain run-time block; both copies "
            "are printed by the same printer code and the two lines must be equal. non-trivial = the block uses at least "
            "one of {const global, helper call, loop, if-expression, nested comptime, cast} or has an aggregate type. "
            "probes: %d fixed witness programs (known classes, must-reject, must-work). markers: each of 8 marker blocks "
            "per program must appear exactly once in the compiler output and never in the program output. "
            "model: scalar cases replayed through the extracted model; f32<->f64 model vs host conversions. "
            "weak literals: comptime blocks made only of untyped literals (negatives, values beyond 2^31 / 2^32, floats not "
            "representable in f32, arithmetic on literals) in 12 expected-type contexts (plain, ?T, struct field, ?T field, "
            "array element, argument, ?T argument, return, ?T return, enum payload, assignment, ?T assignment; E!T and E!T return in "
            "one-case probe programs because the unchanged compiler mishandles them: C04-7, C04-8) x every "
            "numeric type, printed next to the same block at run time; integers are also compared with the value at the context's type."
            % (nprog, per, nprobe))
    v.assumptions = [
        "what the JIT-compiled body computes is not modelled: the model starts from the value the body yields (the "
        "end-to-end stream compares it with the ahead-of-time compiled copy of the same code)",
        "modelled: Simplified-ABI return convention, capture in eval_comptime_blocks (Integer/Float/Data/Type/Void), "
        "ComptimeResultMap insert/filter, local re-materialisation (iconst/f32const/f64const/data symbol/type id), global "
        "path (into_bytes/IntBytes + load), FinalTy, size/align, the ComptimePointer guard; little endian, 64-bit pointers",
        "f32 results: promote/demote are bit-level definitions of `f32 as f64` / `f64 as f32` (validated against the host); "
        "NaN patterns are excluded from C04_roundtrip_scalar (signalling NaNs are quietened)",
        "128-bit scalar results: the capture code is modelled, but on x86-64 Cranelift refuses to compile a function "
        "returning i128 before capture is reached (finding C04-5); 128-bit values are exercised inside aggregates",
        "type-id tables: `type` results assume the JIT instance's id table maps the returned id back to the type "
        "(C04_roundtrip_type); ids of `distinct type` results are copied verbatim",
        "Cranelift, the linker, libc and the OS loader are exercised end to end only",
        "size 0 allocation for non-zero-sized-classified empty anonymous arrays/structs (UB in alloc) is not modelled",
    ]
    return fl.finish()


def replay(path):
    r = json.load(open(path))
    print(json.dumps({k: r[k] for k in r if k not in ("source",)}, indent=1)[:6000])
    if "source" not in r:
        return 0
    from .. import cargotools
    ok, out, capy = cargotools.build_capy()
    if not ok:
        print("capy does not build")
        return 1
    res = run_program(capy, r["source"])
    print("---- replayed ----")
    print("build rc:", res["build_rc"])
    if res.get("build_failed"):
        print(clean_build_out(res["build_out"]))
        return 1
    print("exit status:", res["rc"])
    print(res["out"])
    if r.get("stream") == "end-to-end":
        lines = (res["out"] or "").split("\n")
        same = len(lines) >= 2 and lines[0] == lines[1] and res["rc"] == 0
        print("comptime copy == run-time copy:", same)
        return 0 if same else 1
    if "expected_stdout" in r and r["expected_stdout"] is not None:
        same = res["out"] == r["expected_stdout"] and res["rc"] == 0
        print("output as expected:", same)
        return 0 if same else 1
    return 0
