"""C25 — Reported line and column are exactly right (DESIGN.md C25)."""
import glob
import itertools
import os
import subprocess

from .. import common as C
from ..flow import Flow

ALPHABET = [b"a", b"\n", b"\r", b"\t", "é".encode()]


def exhaustive(maxlen):
    for n in range(maxlen + 1):
        for t in itertools.product(ALPHABET, repeat=n):
            yield b"".join(t)


def corpus_texts(rng, n_mut):
    files = sorted(glob.glob(os.path.join(C.REPO, "examples", "*.capy"))) + \
        sorted(glob.glob(os.path.join(C.REPO, "core", "src", "*.capy")))
    texts = []
    for f in files:
        try:
            texts.append(open(f, encoding="utf-8").read())
        except Exception:
            pass
    base = list(texts)
    junk = ["\n", "\n\n", "\r\n", "é", "(", ")", "{", "}", ";", " :: ", " := ", "^", "\"", "'", "1e", "x", "\t"]
    out = []
    for i in range(n_mut):
        t = rng.choice(base)
        # keep mutated programs smallish so inference stays fast
        if len(t) > 1500:
            a = rng.below(len(t) - 1500)
            t = t[a:a + 1500]
        t = list(t)
        for _ in range(rng.range(1, 6)):
            k = rng.below(3)
            pos = rng.below(len(t) + 1)
            if k == 0 and t:
                del t[min(pos, len(t) - 1)]
            elif k == 1:
                t[pos:pos] = list(rng.choice(junk))
            elif t:
                j = min(pos, len(t) - 1)
                t[j] = rng.choice(junk)[0]
        out.append("".join(t))
    return out


def run(tier, seed):
    fl = Flow("C25", tier, seed, "proof")
    v = fl.v
    fl.proof_stage()
    drv = fl.driver()
    har = fl.harness("h_c25")
    if drv and har:
        # ---- stream 1: exhaustive line_col -----------------------------------
        maxlen = 6 if tier == "quick" else 8
        texts = list(exhaustive(maxlen))
        lines = [t.hex() for t in texts]
        impl = C.run_lines([har, "linecol"], lines)
        model = C.run_lines([drv], lines, indexed=False)
        diffs = 0
        first = None
        nontrivial = 0
        evals = 0
        if len(impl) != len(lines) or len(model) != len(lines):
            fl.broken.append({"what": "line_col stream: tool output length mismatch",
                              "impl": len(impl), "model": len(model), "inputs": len(lines)})
        else:
            for t, hx, i, m in zip(texts, lines, impl, model):
                iv = i.split()
                mv = m.split()
                evals += len(iv)
                if b"\n" in t:
                    nontrivial += 1
                for off, (a, b) in enumerate(itertools.zip_longest(iv, mv, fillvalue="?/?")):
                    mm, sp = (b.split("/") + ["?"])[:2]
                    if a != sp:
                        # direct oracle: implementation disagrees with the specification
                        v.failing("linecol-wrong:%s" % ("panic" if a == "PANIC" else "value"),
                                  {"key": "linecol:%s:%d" % (hx, off), "stream": "line_col", "text_hex": hx,
                                   "text": t.decode("utf-8", "replace"), "offset": off,
                                   "implementation": a, "spec": sp, "model": mm})
                    if a != mm:
                        diffs += 1
                        if first is None:
                            first = {"text_hex": hx, "offset": off, "implementation": a, "model": mm}
            fl.stream("line_col exhaustive len<=%d over {a,\\n,\\r,\\t,e-acute}" % maxlen, len(lines), diffs, first)
            v.coverage["exhaustive"] = True
        v.coverage["evaluations"] += evals
        v.coverage["distinct_nontrivial"] += nontrivial
        v.add_samples([{"text_hex": lines[i], "implementation": impl[i] if i < len(impl) else None}
                       for i in (len(lines) // 3, len(lines) // 2, len(lines) - 1)])

        # ---- stream 2: rendered diagnostics ------------------------------------
        n_mut = 150 if tier == "quick" else 2500
        srcs = corpus_texts(fl.rng.fork("diag"), n_mut)
        dl = [s.encode().hex() for s in srcs]
        dimpl = C.run_lines([har, "diag"], dl, case_timeout=20)
        ndiag = 0
        ddiffs = 0
        dfirst = None
        if len(dimpl) != len(dl):
            fl.broken.append({"what": "diag stream: harness output length mismatch (crash?)",
                              "got": len(dimpl), "want": len(dl)})
        else:
            q = []
            idx = []
            for k, (hx, out) in enumerate(zip(dl, dimpl)):
                items = [x.split("=") for x in out.split() if "=" in x]
                items = [(int(a), b) for a, b in items if b not in ("PANIC", "NOHEADER")]
                if out.startswith("!"):
                    v.coverage.setdefault("frontend_died_or_hung", 0)
                    v.coverage["frontend_died_or_hung"] += 1
                if items:
                    q.append(hx + " " + " ".join(str(a) for a, _ in items))
                    idx.append((k, items))
            mres = C.run_lines([drv], q, indexed=False)
            if len(mres) != len(q):
                fl.broken.append({"what": "diag stream: model output length mismatch"})
            else:
                for (k, items), mline in zip(idx, mres):
                    for (start, got), b in zip(items, mline.split()):
                        mm, sp = b.split("/")
                        ndiag += 1
                        if got != sp:
                            v.failing("diag-header-wrong", {"key": "diag:%s:%d" % (C.sha(dl[k]), start),
                                      "stream": "diagnostics", "source": srcs[k], "range_start": start,
                                      "rendered_header": got, "spec": sp})
                        if got != mm:
                            ddiffs += 1
                            if dfirst is None:
                                dfirst = {"source": srcs[k], "range_start": start, "rendered": got, "model": mm}
                fl.stream("rendered diagnostic headers", ndiag, ddiffs, dfirst)
        v.coverage["evaluations"] += ndiag
        v.coverage["diagnostics_rendered"] = ndiag
        v.coverage["rule"] = ("stream 1: every string of length <= %d over {a, LF, CR, TAB, e-acute(2 bytes)} x every offset "
                              "0..len+1, real LineIndex vs extracted model and spec; non-trivial = text contains a newline. "
                              "stream 2: %d mutated examples/core sources through the real front end, every diagnostic "
                              "rendered with Diagnostic::display, header parsed and compared with rendered_position(range.start)"
                              % (maxlen, n_mut))
    v.assumptions = ["std slice::partition_point meets its documented spec on partitioned slices (precondition proved: C25_line_starts_sorted)",
                     "texts shorter than 4 GiB (TextSize is u32; wrap not modelled)",
                     "diagnostic rendering facet: only the position header is modelled; crashes of display belong to C06"]
    return fl.finish()


def replay(path):
    import json
    r = json.load(open(path))
    print(json.dumps(r, indent=1))
    return 0
