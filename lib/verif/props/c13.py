"""C13 — Distinct types, variants and named structs are nominal (DESIGN.md C12/C13).
Shares model, driver (ocaml/C12), harness (h_c12) and streams with C12."""
import json

from .. import common as C
from .. import coqtools
from ..flow import Flow
from . import c12


def run(tier, seed):
    fl = Flow("C13", tier, seed, "proof")
    v = fl.v
    fl.proof_stage()
    ok, out, drv = coqtools.build_driver("C12")
    if not ok:
        fl.broken.append({"what": "model extraction/driver build (ocaml/C12)", "output": out[-2000:]})
        drv = None
    har = fl.harness("h_c12")
    if drv and har:
        c12.check(fl, drv, har, tier, "C13")
    v.assumptions = c12.ASSUMPTIONS + [
        "value preservation of distinct<->underlying casts is a lowering fact (cast_num identity), covered by C08, not here",
    ]
    return fl.finish()


def replay(path):
    r = json.load(open(path))
    print(json.dumps(r, indent=1))
    return 0
