"""C03 — Each executed defer runs exactly once, in LIFO order, on every exit path (DESIGN.md C03).

The model in force is PINNED to Model/DeferFixed.v (the compiler since /repo c8af5e1); the model of
the pre-fix compiler (Model/Defer.v) is only evaluated to label a regression of the fixed findings.

End-to-end stream: generated functions (nested blocks / loops / ifs, defers, break / continue /
return / .try with and without labels) are compiled by the real `capy` executable in batches and
run under several condition oracles; the printed characters are compared with
  * the extracted model of the compiler (Model/Defer.v lowering + Model/DeferFixed.v defer-stack code
    generation + execution of the generated structured code)            = correspondence,
  * the extracted specification (Spec/DeferSpec.v: big-step semantics)   = direct oracle.
Every disagreement with the specification is a violation; the extracted syntactic classifier
`known_classes` (K1..K3, history) only names the shape of a regression of the fixed findings."""
import json
import os
import subprocess

from .. import common as C
from ..flow import Flow

FUEL = 80
CLASSES = ["break-to-loop-with-outer-pending-defers",     # K1
           "continue-with-pending-defers-in-loop",        # K2
           "jump-to-block-with-later-defers"]             # K3

# --------------------------------------------------------------------------- programs
# AST (python tuples):  ("P",c) ("D",c) ("E",items) ("B",l) ("C",l) ("R",) ("T",) ("K",l,body) ("L",l,w,body) ("I",a,b)
# ("E", items): defer of a jump-free block; items: ("P",c) | ("D",c) | ("E",items)


def toks(body):
    out = []
    for s in body:
        k = s[0]
        if k in "PD":
            out += [k, str(s[1])]
        elif k == "E":
            out += ["E", "("] + toks(s[1]) + [")"]
        elif k in "BC":
            out += [k, "-" if s[1] is None else str(s[1])]
        elif k == "R":
            out.append(k)
        elif k == "T":
            out += ["T", s[1]]
        elif k == "K":
            out += ["K", "-" if s[1] is None else str(s[1]), "("] + toks(s[2]) + [")"]
        elif k == "L":
            out += ["L", "-" if s[1] is None else str(s[1]), "1" if s[2] else "0", "("] + toks(s[3]) + [")"]
        elif k == "I":
            out += ["I", "("] + toks(s[1]) + [")", "("] + toks(s[2]) + [")"]
    return out


def render(body, ind, scopes, style, fv=None):
    """capy text of a statement list; scopes: enclosing break targets for `break;` (loops / named blocks);
    fv: the flavour of the enclosing function (result type, return statement, .try operands)."""
    pad = "    " * ind
    out = []
    fv = fv or FLAVOURS[DEFAULT_FLAVOUR]
    for idx, s in enumerate(body):
        k = s[0]
        if k == "P":
            out.append("%sputchar('%s');" % (pad, chr(s[1])))
        elif k == "D":
            out.append("%sdefer putchar('%s');" % (pad, chr(s[1])))
        elif k == "E":
            out.append("%sdefer {" % pad)
            out += render(s[1], ind + 1, scopes, style, fv)
            out.append("%s};" % pad)
        elif k == "B":
            if s[1] is None:
                out.append("%sbreak%s;" % (pad, "" if scopes else " " + fv["val"]))
            else:
                out.append("%sbreak `b%d;" % (pad, s[1]))
        elif k == "C":
            out.append("%scontinue%s;" % (pad, "" if s[1] is None else " `b%d" % s[1]))
        elif k == "R":
            out.append("%sreturn %s;" % (pad, fv["val"]))
        elif k == "T":
            out.append("%s%s(nxt(st)).try;" % (pad, fv["ops"][s[2] % len(fv["ops"])][0]))
        elif k == "K":
            lab = "" if s[1] is None else "`b%d: " % s[1]
            out.append("%s%s{" % (pad, lab))
            out += render(s[2], ind + 1, scopes + (["b"] if s[1] is not None else []), style, fv)
            out.append("%s}" % pad)
        elif k == "L":
            lab = "" if s[1] is None else "`b%d: " % s[1]
            out.append("%s%s%s {" % (pad, lab, "while nxt(st)" if s[2] else "loop"))
            out += render(s[3], ind + 1, scopes + ["l"], style, fv)
            out.append("%s}" % pad)
        elif k == "I":
            out.append("%sif nxt(st) {" % pad)
            out += render(s[1], ind + 1, scopes, style, fv)
            if s[2] or (style + idx) % 2 == 0:
                out.append("%s} else {" % pad)
                out += render(s[2], ind + 1, scopes, style, fv)
            out.append("%s}" % pad)
    return out


PRELUDE = """putchar :: (c: char) extern;
nxt :: (st: ^mut u64) -> bool {
    b := st^ & 1;
    st^ = st^ >> 1;
    b == 1
}
Err :: struct { code: u8 };
o_u8 :: (fail: bool) -> ?u8 { if fail { return nil; } 1 }
o_void :: (fail: bool) -> ?void { if fail { return nil; } }
e_u8 :: (fail: bool) -> Err!u8 { if fail { return Err.{ code = 1 }; } 1 }
e_void :: (fail: bool) -> Err!void { if fail { return Err.{ code = 2 }; } }
s_u8 :: (fail: bool) -> str!u8 { if fail { return "bad"; } 1 }
"""

# Function flavours: the result type of the function and the operands of `.try` select the branch of
# the error path of Expr::Propagate (functions.rs): "z" referenced_block_ty.is_zero_sized(),
# "o" optional operand into a sized optional block, "e" error-union operand (into an error union
# with / without payload, or into the plain error type).  The branch labels were established by
# mutating each branch separately in a scratch worktree (see the C03 report); they only label the
# coverage histogram and the model's `try_kind`, the predicted output does not depend on them.
FLAVOURS = {
    # ret: result type; val: value of `return` / of a `break` that leaves the function; tail: tail expression
    "opt_u8_nil_tail": {"ret": "?u8", "val": "nil", "tail": "nil", "ops": [("o_u8", "o"), ("o_void", "o")]},
    "opt_u8": {"ret": "?u8", "val": "nil", "tail": "7", "ops": [("o_u8", "o"), ("o_void", "o")]},
    "opt_void": {"ret": "?void", "val": "nil", "tail": None, "ops": [("o_void", "o"), ("o_u8", "o")]},
    "nil": {"ret": "nil", "val": "nil", "tail": "nil", "ops": [("o_void", "z"), ("o_u8", "z")]},
    "opt_void_always_nil": {"ret": "?void", "val": "nil", "tail": "nil", "ops": [("o_void", "o"), ("o_u8", "o")]},
    "err_u16": {"ret": "Err!u16", "val": "Err.{ code = 9 }", "tail": "7", "ops": [("e_u8", "e"), ("e_void", "e")]},
    "err_void": {"ret": "Err!void", "val": "Err.{ code = 9 }", "tail": None, "ops": [("e_void", "e"), ("e_u8", "e")]},
    "err_plain": {"ret": "Err", "val": "Err.{ code = 9 }", "tail": "Err.{ code = 3 }", "ops": [("e_u8", "e"), ("e_void", "e")]},
    "str_u8": {"ret": "str!u8", "val": '"r"', "tail": "3", "ops": [("s_u8", "e")]},
}
DEFAULT_FLAVOUR = "opt_u8_nil_tail"
FLAVOUR_NAMES = list(FLAVOURS)


class Body(list):
    """statement list of one function + the flavour of that function"""
    flav = DEFAULT_FLAVOUR


def with_flavour(body, flav):
    """attach a flavour; `.try` statements without an operand get the flavour's operands in turn"""
    n = [0]

    def fix(b):
        out = []
        for s in b:
            k = s[0]
            if k == "T":
                if len(s) < 3:
                    i = n[0]
                    n[0] += 1
                else:
                    i = s[2]
                ops = FLAVOURS[flav]["ops"]
                out.append(("T", ops[i % len(ops)][1], i))
            elif k == "K":
                out.append(("K", s[1], fix(s[2])))
            elif k == "L":
                out.append(("L", s[1], s[2], fix(s[3])))
            elif k == "I":
                out.append(("I", fix(s[1]), fix(s[2])))
            else:
                out.append(s)
        return out
    r = Body(fix(body))
    r.flav = flav
    return r


def try_marked(body):
    """the same function with every `.try` replaced by `if c { putchar('!'); return }` -- identical under
    the specification except for the marker, which tells whether (and where) a .try failed at run time"""
    out = []
    for s in body:
        k = s[0]
        if k == "T":
            out.append(("I", [("P", 33), ("R",)], []))
        elif k == "K":
            out.append(("K", s[1], try_marked(s[2])))
        elif k == "L":
            out.append(("L", s[1], s[2], try_marked(s[3])))
        elif k == "I":
            out.append(("I", try_marked(s[1]), try_marked(s[2])))
        else:
            out.append(s)
    return out


def program_text(funcs, oracles):
    """funcs: list of bodies; oracles: list (per function) of bit strings (LSB first)."""
    lines = [PRELUDE]
    for i, body in enumerate(funcs):
        fv = FLAVOURS[getattr(body, "flav", DEFAULT_FLAVOUR)]
        lines.append("f%d :: (st: ^mut u64) -> %s {" % (i, fv["ret"]))
        lines += render(body, 1, [], i, fv)
        if fv["tail"] is not None:
            lines.append("    " + fv["tail"])
        lines.append("}")
    lines.append("main :: () {")
    lines.append("    s : u64 = 0;")
    for i, ors in enumerate(oracles):
        for bits in ors:
            val = sum(1 << j for j, b in enumerate(bits) if b == "1")
            lines.append("    s = %d; f%d(^mut s); putchar('\\n');" % (val, i))
    lines.append("}")
    return "\n".join(lines) + "\n"


class Gen:
    """Random programs within the quantifier: <= 4 nested blocks/loops, <= 3 defers per block,
    any placement of break / continue / return / .try."""

    def __init__(self, rng, bad_labels=False):
        self.rng = rng
        self.ch = 0
        self.bad = bad_labels

    def char(self):
        cs = "ABCDEFGHIJKLMNOPQRSTUVWXYZabcdefghijklmnopqrstuvwxyz0123456789"
        c = cs[self.ch % len(cs)]
        self.ch += 1
        return ord(c)

    def label_ref(self, env, loops_only):
        """env: list of (kind, name) innermost first."""
        r = self.rng
        cands = [n for (k, n) in env if n is not None and (k == "l" or not loops_only)]
        if self.bad and r.chance(1, 3):
            return r.range(1, 5)
        if cands and r.chance(2, 3):
            return r.choice(cands)
        return None

    def block(self, depth, env, in_loop):
        r = self.rng
        n = r.range(2, 6) if depth == 0 else r.range(0, 5 if depth < 2 else 4)
        body = []
        ndef = 0
        for _ in range(n):
            x = r.below(100)
            if x < 24 and ndef < 3:
                body.append(self.defer_expr(0) if r.chance(1, 4) else ("D", self.char()))
                ndef += 1
            elif x < 38:
                body.append(("P", self.char()))
            elif x < 52 and depth < 4:
                a = self.block(depth + 1, env, in_loop)
                b = self.block(depth + 1, env, in_loop) if r.chance(1, 2) else []
                body.append(("I", a, b))
            elif x < 64 and depth < 4:
                lab = r.range(1, 3) if r.chance(1, 2) else None
                body.append(("K", lab, self.block(depth + 1, [("b", lab)] + env, in_loop)))
            elif x < 80 and depth < 4:
                lab = r.range(1, 3) if r.chance(1, 3) else None
                w = r.chance(3, 4)
                b = self.block(depth + 1, [("l", lab)] + env, True)
                if not w and r.chance(4, 5):
                    b = b + [("B", None)]
                body.append(("L", lab, w, b))
            elif x < 85:
                body.append(("B", self.label_ref(env, False)))
            elif x < 89:
                if in_loop or self.bad:
                    body.append(("C", self.label_ref(env, True)))
                else:
                    body.append(("P", self.char()))
            elif x < 92:
                body.append(("R",))
            else:
                body.append(("T",))
            if x >= 92 and r.chance(1, 2) and depth < 4:
                # a second flavour of the same: .try under a condition
                body[-1] = ("I", [("T",)], [])
        # jumps are more interesting under a condition
        out = []
        for s in body:
            if s[0] in "BCR" and r.chance(2, 3) and depth < 4:
                out.append(("I", [s], []))
            else:
                out.append(s)
        return out

    def defer_expr(self, d):
        """defer of a jump-free block of prints and nested defers (codegen test defers_within_defers)"""
        r = self.rng
        items = []
        for _ in range(r.range(0, 3)):
            x = r.below(10)
            if x < 5:
                items.append(("P", self.char()))
            elif x < 8 or d >= 2:
                items.append(("D", self.char()))
            else:
                items.append(self.defer_expr(d + 1))
        return ("E", items)

    def func(self):
        self.ch = self.rng.below(20)
        flav = self.rng.choice(FLAVOUR_NAMES)
        return with_flavour(self.block(0, [], False), flav)


def systematic():
    """Every nesting path of length 1..3 over {named block, plain block, while, loop, if-then, if-else}
    x every jump kind at the innermost point, with a defer before and after the nested construct at
    every level (the function body included): the 'jump out of loops nested inside blocks that have
    their own defers' family, enumerated completely."""
    import itertools
    ctxs = ["Kn", "K", "Lw", "Ll", "It", "Ie"]
    out = []
    for depth in (1, 2, 3):
        for path in itertools.product(ctxs, repeat=depth):
            in_loop = any(c[0] == "L" for c in path)
            named = [i + 1 for i, c in enumerate(path) if c == "Kn"]
            jumps = [("B", None), ("R",), ("T",)]
            if in_loop:
                jumps.append(("C", None))
            if named:
                jumps.append(("B", named[0]))      # outermost named block
            for j in jumps:
                ch = [ord("a")]

                def nxt():
                    ch[0] += 1
                    return ch[0] - 1

                def build(i):
                    if i == len(path):
                        inner = [("D", nxt()), ("I", [j], []), ("D", nxt()), ("P", nxt())]
                        return inner
                    c = path[i]
                    sub = build(i + 1)
                    if c == "Kn":
                        node = ("K", i + 1, sub)
                    elif c == "K":
                        node = ("K", None, sub)
                    elif c == "Lw":
                        node = ("L", None, True, sub)
                    elif c == "Ll":
                        node = ("L", None, False, sub + [("B", None)])
                    elif c == "It":
                        node = ("I", sub, [])
                    else:
                        node = ("I", [("P", nxt())], sub)
                    return [("D", nxt()), node, ("D", nxt()), ("P", nxt())]
                out.append(build(0))
    return out


def features(body, acc=None, depth=0):
    acc = acc if acc is not None else {"defers": 0, "jumps": 0, "loops": 0, "depth": 0, "kinds": set()}
    acc["depth"] = max(acc["depth"], depth)
    for s in body:
        acc["kinds"].add(s[0])
        if s[0] in "DE":
            acc["defers"] += 1
        if s[0] in "BCRT":
            acc["jumps"] += 1
        if s[0] == "K":
            features(s[2], acc, depth + 1)
        if s[0] == "L":
            acc["loops"] += 1
            features(s[3], acc, depth + 1)
        if s[0] == "I":
            features(s[1], acc, depth + 1)
            features(s[2], acc, depth + 1)
    return acc


def oracles_for(rng, n):
    out = ["-", "1" * 12]
    while len(out) < n:
        ln = rng.range(1, 14)
        out.append("".join("1" if rng.chance(1, 2) else "0" for _ in range(ln)))
    return out[:n]


def parse_model(line):
    d = {}
    for part in line.split(" "):
        if "=" in part:
            k, val = part.split("=", 1)
            d[k] = val
    return d


def corpus():
    res = []
    d = os.path.join(C.CORPUS, "C03")
    if os.path.isdir(d):
        for f in sorted(os.listdir(d)):
            if f.endswith(".json"):
                j = json.load(open(os.path.join(d, f)))
                res.append((j["body"], j.get("oracles", ["-", "1", "11", "101", "0110"])))
    return res


def to_tuple(x):
    return tuple(to_tuple(y) if isinstance(y, list) and y and isinstance(y[0], str) else
                 ([to_tuple(z) for z in y] if isinstance(y, list) else y) for y in x)


def run_batch(args):
    capy, idx, funcs, oracles = args
    with C.scratch("verif-c03-") as d:
        src = program_text(funcs, oracles)
        open(os.path.join(d, "p.capy"), "w").write(src)
        rc, out = C.run([capy, "build", "p.capy", "--mod-dir", C.REPO], cwd=d, timeout=120)
        exe = os.path.join(d, "out", "p")
        if rc != 0 or not os.path.exists(exe):
            return {"build_failed": True, "rc": rc, "output": out[-3000:], "source": src}
        try:
            p = subprocess.run([exe], stdout=subprocess.PIPE, stderr=subprocess.DEVNULL, timeout=20)
            return {"rc": p.returncode, "lines": p.stdout.decode("latin-1").split("\n"), "source": src}
        except subprocess.TimeoutExpired as e:
            return {"rc": 124, "lines": (e.stdout or b"").decode("latin-1").split("\n"), "source": src}


def run(tier, seed):
    fl = Flow("C03", tier, seed, "proof")
    v = fl.v
    fl.proof_stage()
    drv = fl.driver()
    capy = fl.capy()
    if drv and capy:
        nfun = 2400 if tier == "quick" else 40000
        nor = 4 if tier == "quick" else 6
        g = Gen(fl.rng.fork("gen"))
        org = fl.rng.fork("oracles")
        cases = []            # (body, [oracle bits])
        for body, ors in corpus():
            b = [to_tuple(s) for s in body]
            has_try = " T " in " " + " ".join(toks(with_flavour(b, DEFAULT_FLAVOUR))) + " "
            for flav in (FLAVOUR_NAMES if has_try else [DEFAULT_FLAVOUR]):
                cases.append((with_flavour(b, flav), list(ors)))
        sysf = []
        for i, body in enumerate(systematic()):
            if any(t == "T" for t in toks(with_flavour(body, DEFAULT_FLAVOUR))):
                # every .try lowering branch on every nesting path
                for flav in FLAVOUR_NAMES:
                    sysf.append(with_flavour(body, flav))
            else:
                sysf.append(with_flavour(body, FLAVOUR_NAMES[i % len(FLAVOUR_NAMES)]))
        sys_or = ["1" * 14, "-", "10" * 7, "01" * 7, "110" * 4, "1011" * 3]
        for body in sysf:
            cases.append((body, list(sys_or)))
        v.coverage["systematic_path_functions"] = len(sysf)
        ncorpus = len(cases)
        for _ in range(nfun):
            cases.append((g.func(), oracles_for(org, nor)))
        # model / spec / classifier through the extracted code
        qlines = []
        for body, ors in cases:
            t = " ".join(toks(body)) or ""
            for bits in ors:
                qlines.append("%d %s %s" % (FUEL, bits, t))
        mres = C.run_lines([drv], qlines, indexed=False)
        # measured coverage of the .try error path: the same functions with a marker at every .try
        tq, tmeta = [], []
        for body, ors in cases:
            tk = toks(body)
            if "T" in tk:
                t = " ".join(toks(try_marked(body)))
                kinds = sorted({tk[i + 1] for i, x in enumerate(tk) if x == "T"})
                for bits in ors:
                    tq.append("%d %s %s" % (FUEL, bits, t))
                    tmeta.append((body.flav, "".join(kinds)))
        tres = C.run_lines([drv], tq, indexed=False) if tq else []
        trycov = {}
        for (flav, kinds), line in zip(tmeta, tres):
            sp = parse_model(line).get("spec", "")
            ent = trycov.setdefault(flav, {"try_kinds": kinds, "cases": 0, "try_failed_at_run_time": 0,
                                           "try_failed_with_pending_defers": 0})
            ent["cases"] += 1
            if "!" in sp:
                ent["try_failed_at_run_time"] += 1
                if len(sp.strip('"').split("!", 1)[1]) > 0:
                    ent["try_failed_with_pending_defers"] += 1
        v.coverage["try_error_path_coverage_by_function_flavour"] = trycov
        if len(mres) != len(qlines) or any(m.startswith("ERROR") or m.startswith("!") for m in mres):
            bad = next((q, m) for q, m in zip(qlines, mres + ["!"]) if m.startswith("ERROR") or m.startswith("!"))
            fl.broken.append({"what": "model driver failed", "input": bad[0], "output": bad[1]})
        else:
            k = 0
            funcs = []   # (body, [(bits, modelres)])
            skipped_fuel = 0
            rejected = 0
            for body, ors in cases:
                keep = []
                for bits in ors:
                    m = parse_model(mres[k])
                    k += 1
                    if m["err"] == "1":
                        rejected += 1
                        continue
                    if "FUEL" in (m["spec"], m["fixed"]):
                        skipped_fuel += 1
                        continue
                    keep.append((bits, m))
                if keep:
                    funcs.append((body, keep))
            batches = []
            per = 50
            for i in range(0, len(funcs), per):
                part = funcs[i:i + per]
                batches.append((capy, i // per, [b for b, _ in part], [[bits for bits, _ in kp] for _, kp in part]))
            results = C.parallel_map(run_batch, batches)
            # a batch that does not build is split into single-function programs so that the
            # offending function is isolated and the other 49 are still checked
            if any(r.get("build_failed") for r in results):
                # rebuild: singles for functions of failed batches, keep the results of good batches
                batches2, results2, funcs3 = [], [], []
                for (capy_, bi, bodies, ors), res in zip(batches, results):
                    part = funcs[bi * per:(bi + 1) * per]
                    if res.get("build_failed") and len(part) > 1:
                        singles = [(capy, 0, [b], [[bits for bits, _ in kp]]) for b, kp in part]
                        sres = C.parallel_map(run_batch, singles)
                        for (b, kp), sb, sr in zip(part, singles, sres):
                            batches2.append(sb)
                            results2.append(sr)
                            funcs3.append([(b, kp)])
                    else:
                        batches2.append((capy_, bi, bodies, ors))
                        results2.append(res)
                        funcs3.append(part)
                batches, results, parts = batches2, results2, funcs3
            else:
                parts = [funcs[bi * per:(bi + 1) * per] for (_, bi, _, _) in batches]
            ncase = 0
            d_faith = d_fixed = 0
            first_faith = first_fixed = None
            nontriv = set()
            hist = {"depth": {}, "kinds": {}, "classes": {}, "outcomes": {"ok": 0, "spec_mismatch": 0}}
            for (capy_, bi, bodies, ors), res, part in zip(batches, results, parts):
                if res.get("build_failed"):
                    out = res["output"]
                    v.failing("accepted-function-rejected:" + ("compiler-panic" if "panicked" in out else "diagnostics"),
                              {"key": "build:" + C.sha(res["source"]), "stream": "end-to-end",
                               "program_tokens": " ".join(toks(bodies[0])) if len(bodies) == 1 else None,
                               "source": res["source"][:8000], "rc": res["rc"], "output": out[-2500:],
                               "explanation": "the lowering model accepts this function (no label error) but capy "
                                              "does not build it"})
                    fl.broken.append({"what": "capy rejected or crashed on a generated function that the model accepts",
                                      "rc": res["rc"], "output": out[-800:]})
                    continue
                lines = res["lines"]
                li = 0
                for fi, (body, keep) in enumerate(part):
                    ft = features(body)
                    hist["depth"][ft["depth"]] = hist["depth"].get(ft["depth"], 0) + 1
                    for kd in ft["kinds"]:
                        hist["kinds"][kd] = hist["kinds"].get(kd, 0) + 1
                    for bits, m in keep:
                        got = lines[li] if li < len(lines) - 1 else None   # last element is the text after the final \n
                        li += 1
                        ncase += 1
                        spec = m["spec"].strip('"') if m["spec"].startswith('"') else m["spec"]
                        mod = m["model"].strip('"') if m["model"].startswith('"') else m["model"]
                        fxd = m["fixed"].strip('"') if m["fixed"].startswith('"') else m["fixed"]
                        if ft["defers"] > 0 and ft["jumps"] > 0:
                            nontriv.add(C.sha(" ".join(toks(body)) + "/" + bits))
                        src1 = program_text([body], [[bits]])
                        payload = {"key": "e2e:%s:%s" % (C.sha(" ".join(toks(body))), bits), "stream": "end-to-end",
                                   "program_tokens": " ".join(toks(body)), "oracle_bits_lsb_first": bits,
                                   "source": src1, "implementation": got, "spec": spec, "model": mod,
                                   "fixed_model": fxd, "class_flags_K1K2K3": m["cls"], "exit_status": res["rc"],
                                   "function_flavour": getattr(body, "flav", DEFAULT_FLAVOUR)}
                        if got is None:
                            got = "<no output: process died rc=%s>" % res["rc"]
                            payload["implementation"] = got
                        payload["pre_fix_model"] = payload.pop("model")
                        payload["model"] = fxd
                        if got != fxd:
                            d_fixed += 1
                            first_fixed = first_fixed or payload
                        if got != spec:
                            hist["outcomes"]["spec_mismatch"] += 1
                            hf = hist.setdefault("spec_mismatch_by_function_flavour", {})
                            hf[payload["function_flavour"]] = hf.get(payload["function_flavour"], 0) + 1
                            flags = [CLASSES[i] for i in range(3) if m["cls"][i] == "1"]
                            hist["classes"][m["cls"]] = hist["classes"].get(m["cls"], 0) + 1
                            # every disagreement with the specification is a violation; the (historical)
                            # classifier only names the shape, so that a regression of c8af5e1 is recognisable
                            if got == mod and flags:
                                v.failing("regression-of-fixed-finding:" + "+".join(flags), payload)
                            else:
                                v.failing("defer-trace-wrong:unexplained", payload)
                        else:
                            hist["outcomes"]["ok"] += 1
            # the model in force is pinned: Model/DeferFixed.v (the compiler since /repo c8af5e1)
            fl.stream("end-to-end defers: capy vs Model/DeferFixed.v", ncase, d_fixed, first_fixed)
            v.coverage["model_in_force"] = "Model/DeferFixed.v (pinned; C03_full_holds applies)"
            v.coverage["evaluations"] += ncase
            v.coverage["distinct_nontrivial"] += len(nontriv)
            v.coverage["functions"] = len(funcs)
            v.coverage["corpus_functions"] = ncorpus
            v.coverage["skipped_out_of_fuel"] = skipped_fuel
            v.coverage["skipped_rejected_by_model_lowering"] = rejected
            v.coverage["histograms"] = hist
            v.add_samples([{"program_tokens": " ".join(toks(b)), "oracles": [x for x, _ in kp][:3],
                            "spec": [mm["spec"] for _, mm in kp][:3]} for b, kp in funcs[ncorpus:ncorpus + 3]])

        # ---- label-error stream: lowering accepts iff capy accepts --------------------------
        nerr = 40 if tier == "quick" else 300
        gb = Gen(fl.rng.fork("badlabels"), bad_labels=True)
        ecases = [gb.func() for _ in range(nerr)]
        el = ["%d - %s" % (FUEL, " ".join(toks(b))) for b in ecases]
        er = C.run_lines([drv], el, indexed=False)

        def one(args):
            body = args
            r = run_batch((capy, 0, [body], [[]]))
            return r
        eres = C.parallel_map(one, ecases)
        ed = 0
        efirst = None
        nrej = 0
        for body, mline, r in zip(ecases, er, eres):
            m = parse_model(mline)
            model_rej = m.get("err") == "1"
            impl_rej = bool(r.get("build_failed"))
            nrej += model_rej
            if impl_rej and "panicked" in r.get("output", ""):
                v.failing("compiler-panic-on-labels", {"key": "lab:" + C.sha(mline), "source": r["source"], "output": r["output"][-1500:]})
            if model_rej != impl_rej:
                ed += 1
                efirst = efirst or {"program_tokens": " ".join(toks(body)), "model_rejects": model_rej,
                                    "capy_rejects": impl_rej, "output": r.get("output", "")[-1500:],
                                    "source": r.get("source")}
        fl.stream("label resolution: capy accepts iff lowering model reports no error", len(ecases), ed, efirst)
        v.coverage["evaluations"] += len(ecases)
        v.coverage["label_error_programs_rejected"] = nrej
        v.coverage["rule"] = ("end-to-end: random functions (<=4 nested blocks/loops/ifs, <=3 defers per block, break/continue "
                              "with and without labels, return, .try) x %d oracles (bit strings resolving every condition), "
                              "batches of 50 functions per compiled program; compared: real output vs extracted compiler model "
                              "vs extracted spec; non-trivial = function has >=1 defer and >=1 jump. label stream: functions "
                              "with undefined / non-loop labels, capy accepts iff model lowering reports no error" % nor)
    v.assumptions = [
        "a deferred expression is atomic (prints one character) or a jump-free block of prints and nested defers; the latter is "
        "represented in model AND spec by the character sequence Model/Defer.v `flat` assigns to it (shared abstraction, tied to "
        "capy only by this stream); deferred blocks containing control flow are not modelled",
        "ScopeIds are modelled by label nesting level (uid generator trusted to yield unique ids)",
        "statements after an expression statement of type AlwaysJumps are modelled as compiled (dead code) although the "
        "Rust code stops compiling the block there; both give the same behaviour",
        "exits/continues hash maps: a jump to an id that is not an enclosing scope is a Crash of the target execution",
        "Cranelift, the linker and libc putchar are exercised end to end only",
        "loops are bounded by fuel (iterations per loop activation) identically in model and spec; cases running out of fuel are skipped",
    ]
    return fl.finish()


def replay(path):
    r = json.load(open(path))
    print(json.dumps(r, indent=1))
    if "source" in r and "program_tokens" in r:
        ok, out, capy = __import__("verif.cargotools", fromlist=["x"]).build_capy()
        with C.scratch("verif-c03-replay-") as d:
            open(os.path.join(d, "p.capy"), "w").write(r["source"])
            C.run([capy, "build", "p.capy", "--mod-dir", C.REPO], cwd=d, timeout=120)
            p = subprocess.run([os.path.join(d, "out", "p")], stdout=subprocess.PIPE)
            got = p.stdout.decode("latin-1").split("\n")[0]
            print("replayed: implementation=%r spec=%r" % (got, r.get("spec")))
            return 1 if got != r.get("spec") else 0
    return 0
