"""C07 -- A program is built if and only if no error was reported (DESIGN.md C07).

Coq: Model/Gate.v (gate of main.rs, is_safe_to_compile, tracking loop), Spec/GateSpec.v (the
observable statement + boolean checker gate_ok), Proofs/GateProofs.v, Properties/C07.v.
Run time: for every input the in-process pipeline (harness/c07 = main.rs's compile_file without the
CLI) reports (errors, errors attributed to code, any_unsafe, codegen outcome); the EXTRACTED
checker gate_verdict decides the property on that observation (direct oracle).  Correspondence:
the extracted gate model, fed with the harness's observation, must predict what the real
`capy build` executable does (object file / "not compiling" / assert panic), in a default build
(tracking off) and with --verbose-types (tracking on, assert live); error-free programs are also
linked and run.  Traversal correspondence: for every input the real HIR + type tables + error
expressions are abstracted into the world of Model/Gate.v (harness/c07/src/hirdump.rs) and the
extracted `loc_unsafe` is compared, per finished location, with what the real tracking loop of
InferenceCtx::finish answered (cfg hook hir_ty::verif_take_unsafe_log)."""
import glob
import json
import os
import re
import shutil
import signal
import subprocess
import tempfile

from .. import common as C
from .. import mutate as M
from ..flow import Flow

FIELD = re.compile(r"(\w+)=(\S*)")


def run_harness(har, text, timeout=300.0):
    d = tempfile.mkdtemp(prefix="verif-c07-")
    try:
        with open(os.path.join(d, "main.capy"), "w", encoding="utf-8") as f:
            f.write(text)
        env = dict(os.environ)
        env["RUST_BACKTRACE"] = "0"
        p = subprocess.Popen([har, "main.capy", C.REPO, "norender", "hash", "dump"], cwd=d, env=env, stdin=subprocess.DEVNULL,
                             stdout=subprocess.PIPE, stderr=subprocess.PIPE, start_new_session=True)
        try:
            out, errb = p.communicate(timeout=timeout)
            rc = p.returncode
        except subprocess.TimeoutExpired:
            try:
                os.killpg(p.pid, signal.SIGKILL)
            except OSError:
                pass
            out, errb = p.communicate()
            rc = None
        out = out.decode("utf-8", "replace")
        res = {"rc": rc, "started_codegen": "@@C07-CODEGEN-START" in out, "fields": None, "raw": "", "hir": None}
        for l in out.split("\n"):
            if l.startswith("@@C07-HIR "):
                res["hir"] = l[10:]
            if l.startswith("@@C07 "):
                res["fields"] = dict(FIELD.findall(l[6:]))
                res["raw"] = l
        if res["fields"] is None:
            tail = (out[-400:] + errb.decode("utf-8", "replace")[-600:])
            res["tail"] = tail
        return res
    finally:
        shutil.rmtree(d, ignore_errors=True)


def site_of(p):
    """'panic:<msg with _ for blanks>@/repo/crates/x/src/y.rs:12' -> line-independent site key
    '<file>:<fn>:<kind>:<statement>' (lib/verif/mutate.py site_key)"""
    if "@" not in p:
        return "unknown"
    head, loc = p.rsplit("@", 1)
    msg = head.split(":", 1)[1].replace("_", " ") if ":" in head else ""
    m = re.match(r"(.*):(\d+)$", loc)
    if not m:
        return loc or "unknown"
    return M.site_key(m.group(1), m.group(2), msg)[0]


def observe(res):
    """harness result -> (obs line for the extracted checker or None, failure class or None, detail)"""
    f = res["fields"]
    if f is None:
        if res["rc"] is None:
            return None, "hang:in-process", "timeout"
        if res["started_codegen"] and res["rc"] == 1:
            # codegen called process::exit(1): define_function failed (Cranelift verifier)
            return "obs 0 0 0 failed 0", "noerr-verifier-error", "codegen exited the process (verifier error)"
        if res["started_codegen"]:
            return "obs 0 0 0 failed 0", "noerr-codegen-died:rc=%s" % res["rc"], res.get("tail", "")
        return None, "died:rc=%s" % res["rc"], res.get("tail", "")
    if f.get("stage") == "io":
        return None, None, "io"
    if f.get("infer", "").startswith("panic:"):
        return None, "panic:" + site_of(f["infer"]), f["infer"][:200]
    errs = int(f["errs"])
    # errors attributed to an expression: type errors with `expr = Some(..)` and lowering errors
    # (undefined reference / label, bad literal, bad import: each sits on an expression).  Syntax and
    # indexing errors are about tokens / global names, not expressions (e.g. `foo := 2;` at top level
    # is a syntax error that leaves nothing unsafe); they only count for "errors => no object".
    low = sum(1 for k in (f.get("kinds") or "").split(",") if k.startswith("lowering."))
    x = min(errs, int(f["tyx"]) + low)
    uns = f["unsafe"]
    cg = f["cg"]
    if cg.startswith("ok:"):
        cgs, obj = "produced", 1
    elif cg in ("skipped", "nomain"):
        cgs, obj = "skipped", 0
    else:
        cgs, obj = "failed", 0
    return "obs %d %d %s %s %d" % (errs, x, "1" if uns == "1" else "0", cgs, obj), None, cg


def e2e(capy, text, verbose_types=False, run=True):
    """real executable: build (and link), then run the program."""
    args = ["--verbose-types", "local", "--no-exec"] if verbose_types else []

    def keep(d, res):
        r = {}
        exe = os.path.join(d, "out", "main")
        if run and not verbose_types and os.path.exists(exe):
            try:
                p = subprocess.run([exe], cwd=d, stdin=subprocess.DEVNULL, stdout=subprocess.PIPE,
                                   stderr=subprocess.STDOUT, timeout=20)
                r["run_rc"] = p.returncode
                r["run_out"] = p.stdout.decode("utf-8", "replace")[-300:]
            except subprocess.TimeoutExpired:
                r["run_rc"] = "timeout"
        return r
    return M.run_capy(capy, {"main.capy": text}, args=args, timeout=60, keep=keep)


def real_outcome(r):
    if r["kind"] == "panic":
        m = re.search(r":(\d+)$", r["site"])
        if "capy/src/main.rs" in r["site"] and m:
            return "crash" + m.group(1)
        return "panic@" + r["site"]
    if r["kind"] == "verifier":
        return "verifier"
    if r["kind"] == "timeout":
        return "timeout"
    if r["obj"] is not None:
        return "object"
    if "not compiling due to previous errors" in r["out"]:
        return "notcompiled"
    if "there is no `main` function" in r["out"] or "there are multiple `main` functions" in r["out"]:
        return "nosinglemain"
    if "Cranelift Error" in r["out"]:
        return "codegenfailed"
    return "other:%s" % r["kind"]


def build_inputs(fl, tier):
    rng = fl.rng.fork("inputs")
    inputs = []   # dict(text, origin, kind, desc)
    for f in sorted(glob.glob(os.path.join(C.CORPUS, "C07", "*.capy"))):
        inputs.append({"text": open(f, encoding="utf-8").read(), "origin": "corpus/" + os.path.basename(f), "kind": "corpus"})
    # every kind of non-const operand in every const position (+ constant controls): always, both tiers
    for operand, pos, is_const, src in M.const_matrix():
        inputs.append({"text": src, "origin": "const-matrix/%s@%s" % (operand, pos),
                       "kind": "const-control" if is_const else "const-matrix", "shape": "%s@%s" % (operand, pos),
                       "desc": "%s operand `%s` in position %s" % ("constant" if is_const else "NON-constant", operand, pos)})
    n_gen = 260 if tier == "quick" else 2500
    n_snip = 220 if tier == "quick" else 1200
    n_sem = 120 if tier == "quick" else 1500
    # generated near-valid programs (pairs: valid base + one sabotage)
    g = rng.fork("gen")
    for i in range(n_gen):
        base, bad = M.gen_near_valid(g.fork("p%d" % i), size=2 + i % 3, with_core=(i % 23 == 7))
        if i % 4 == 0 or bad is None:
            inputs.append({"text": base.text, "origin": "gen#%d" % i, "kind": "valid", "features": base.features})
        if bad is not None:
            inputs.append({"text": bad.text, "origin": "gen#%d/sab%d" % (i, bad.sab), "kind": bad.sab_kind,
                           "desc": bad.sab_desc, "features": bad.features})
    # snippets of the repository's own tests (valid and invalid), with an entry point added
    snips = [(t, s) for t, s in M.corpus(("hir_ty", "codegen", "examples")) if len(s) < 6000]
    s = rng.fork("snip")
    s.shuffle(snips)
    for t, src in snips[:n_snip]:
        inputs.append({"text": M.ensure_main(src), "origin": t, "kind": "snippet"})
    # one semantic mutation of a snippet / example
    sm = rng.fork("sem")
    pool = [(t, src) for t, src in M.corpus(("codegen", "examples", "hir_ty")) if len(src) < 4000]
    for i in range(n_sem):
        t, src = sm.choice(pool)
        r = M.semantic_mutate(sm.fork("m%d" % i), M.ensure_main(src))
        if r:
            inputs.append({"text": r[0], "origin": "%s/sem%d" % (t, i), "kind": "sem-" + r[1]})
    # de-duplicate
    seen = set()
    out = []
    for it in inputs:
        k = C.sha(it["text"])
        if k in seen:
            continue
        seen.add(k)
        it["key"] = k
        out.append(it)
    return out


def run(tier, seed):
    fl = Flow("C07", tier, seed, "proof")   # evidence schema has no "partial": see coverage["claim"]
    v = fl.v
    fl.proof_stage()
    drv = fl.driver()
    har = fl.harness("h_c07")
    capy = fl.capy()
    hist_kind, hist_out, hist_err, hist_verdict = {}, {}, {}, {}
    if drv and har and capy:
        inputs = build_inputs(fl, tier)
        results = C.parallel_map(lambda it: run_harness(har, it["text"]), inputs)
        # ---- direct oracle: extracted checker on the real pipeline's observation ----------------------
        obs_lines, obs_idx = [], []
        classes = [None] * len(inputs)
        for i, (it, res) in enumerate(zip(inputs, results)):
            ob, cls, detail = observe(res)
            it["detail"] = detail
            it["raw"] = res["raw"]
            hist_kind[it["kind"]] = hist_kind.get(it["kind"], 0) + 1
            if ob is not None:
                obs_lines.append(ob)
                obs_idx.append(i)
                it["obs"] = ob
            classes[i] = cls
        verdicts = C.run_lines([drv], obs_lines, indexed=False)
        if len(verdicts) != len(obs_lines):
            fl.broken.append({"what": "extracted checker: output length mismatch"})
            verdicts = ["?"] * len(obs_lines)
        nontrivial = 0
        for i, vd in zip(obs_idx, verdicts):
            it, res = inputs[i], results[i]
            f = res["fields"] or {}
            it["verdict"] = vd
            hist_verdict[vd] = hist_verdict.get(vd, 0) + 1
            for k in (f.get("kinds") or "").split(","):
                if k:
                    hist_err[k] = hist_err.get(k, 0) + 1
            if f and (int(f.get("errs", 0)) > 0 or f.get("cg", "").startswith("ok:")):
                nontrivial += 1
            if f and f.get("errs") == "0" and f.get("unsafe") == "1":
                # no diagnostic although something is flagged unsafe: whatever codegen then does (a panic at a
                # site that may even be a known finding) must not hide this -- it is its own class
                shape = it.get("shape") or it["kind"]
                classes[i] = "noerr-but-unsafe:%s" % shape
                it["detail"] = "no error reported, any_were_unsafe_to_compile = true, codegen: %s" % f.get("cg", "")[:120]
            elif classes[i] is None and vd not in ("0", "?"):
                cg = f.get("cg", "")
                if vd in ("1", "3"):
                    if cg.startswith("panic:"):
                        classes[i] = "noerr-codegen-panic:" + site_of(cg)
                    elif cg == "nomain":
                        classes[i] = None     # outside the quantifier (not exactly one main)
                    else:
                        classes[i] = "noerr-codegen-failed:" + cg[:60]
                elif vd == "2":
                    classes[i] = "noerr-but-unsafe:%s" % (it.get("shape") or it["kind"])
                elif vd == "4":
                    ks = sorted(k for k in (f.get("kinds") or "").split(",") if k and not k.startswith("tynx."))
                    classes[i] = "error-but-safe:" + "+".join(ks[:3])
                else:
                    classes[i] = "gate-clause-%s" % vd
        for i, (it, res) in enumerate(zip(inputs, results)):
            hist_out[classes[i] or "property-holds"] = hist_out.get(classes[i] or "property-holds", 0) + 1
            if classes[i]:
                v.failing(classes[i], {"key": "c07:" + it["key"], "source": it["text"], "origin": it["origin"],
                                       "mutation": it.get("desc") or it["kind"], "harness": it["raw"] or res.get("tail", ""),
                                       "observation": it.get("obs"), "gate_verdict": it.get("verdict"),
                                       "clause": {"1": "object <=> no errors", "2": "no errors => nothing unsafe",
                                                  "3": "no errors => codegen succeeds", "4": "attributed error => unsafe",
                                                  "5": "errors => nothing generated"}.get(it.get("verdict"), "-")})
        v.coverage["evaluations"] += len(inputs)
        v.coverage["distinct_nontrivial"] += nontrivial
        v.add_samples([{"origin": it["origin"], "kind": it["kind"], "harness": it["raw"], "verdict": it.get("verdict")}
                       for it in inputs[:2] + inputs[len(inputs) // 2:len(inputs) // 2 + 2]])

        # ---- correspondence: traversal model (Gate.loc_unsafe) vs the real tracking loop -------------------
        # harness/c07/src/hirdump.rs abstracts the real HIR + type tables + error set into the model's world;
        # the hook hir_ty::verif_take_unsafe_log gives the real verdict per finished location
        hl, hidx, unmodelled, dump_failed = [], [], {}, 0
        for i, res in enumerate(results):
            h = res.get("hir")
            if not h:
                continue
            if h.startswith("FAILED"):
                dump_failed += 1
                continue
            xs = re.findall(r" ; X (\S+)", h)
            if xs:
                for x in xs:
                    unmodelled[x] = unmodelled.get(x, 0) + 1
                continue
            if len(h) > 3000000:
                continue
            hl.append("hir " + h)
            hidx.append(i)
        mres = C.run_lines([drv], hl, indexed=False)
        tdiffs, tfirst, nlocs, nunsafe = 0, None, 0, 0
        if len(mres) != len(hl):
            fl.broken.append({"what": "traversal stream: model output length mismatch"})
        else:
            for i, h, m in zip(hidx, hl, mres):
                real = dict(x.split("=") for x in h.rsplit(" ; V", 1)[1].split())
                real = {k: {"0": "safe", "1": "unsafe", "2": "skip"}[v] for k, v in real.items()}
                model = dict(x.split("=") for x in m.split()) if not m.startswith("!") else {"?": m}
                nlocs += len(real)
                nunsafe += sum(1 for v_ in real.values() if v_ == "unsafe")
                if real != model:
                    tdiffs += 1
                    if tfirst is None:
                        bad = [(k, real.get(k), model.get(k)) for k in sorted(set(real) | set(model)) if real.get(k) != model.get(k)]
                        tfirst = {"source": inputs[i]["text"], "differing_locations(loc, real, model)": bad[:10],
                                  "world": h[:3000]}
            fl.stream("is_safe_to_compile traversal model vs real tracking loop (per finished location)", len(hl), tdiffs, tfirst)
        v.coverage["traversal"] = {"programs": len(hl), "locations": nlocs, "unsafe_locations": nunsafe,
                                   "skipped_unmodelled": unmodelled, "dump_failed": dump_failed}
        v.coverage["evaluations"] += nlocs

        # ---- correspondence: gate model vs the real executable ---------------------------------------------
        cand = [i for i in obs_idx if results[i]["fields"] and results[i]["fields"].get("mains") == "1"]
        r2 = fl.rng.fork("e2e")
        r2.shuffle(cand)
        n_e2e = 70 if tier == "quick" else 300
        # prefer a mix: error-free and erroneous, plus every input where something is off
        clean = [i for i in cand if results[i]["fields"]["errs"] == "0"][:n_e2e // 2]
        dirty = [i for i in cand if results[i]["fields"]["errs"] != "0"][:n_e2e // 2]
        sel = clean + dirty
        jobs = [(i, False) for i in sel] + [(i, True) for i in sel[::3]]
        real = C.parallel_map(lambda j: e2e(capy, inputs[j[0]]["text"], verbose_types=j[1]), jobs)
        glines = []
        for (i, vt) in jobs:
            f = results[i]["fields"]
            cg = f["cg"]
            cgs = "ok" if (cg.startswith("ok:") or cg == "skipped") else ("panic" if cg.startswith("panic:") else "error")
            glines.append("gate %d %d %d %s %s" % (1 if int(f["errs"]) > 0 else 0, 1 if vt else 0,
                                                   1 if f["unsafe"] == "1" else 0, f["mains"], cgs))
        pred = C.run_lines([drv], glines, indexed=False)
        diffs, first = 0, None
        ran = 0
        for (i, vt), gl, p, r in zip(jobs, glines, pred, real):
            got = real_outcome(r)
            okk = (p == got) or (p == "crash740" and got.startswith("panic@")) or (p == "codegenfailed" and got == "verifier")
            if not okk:
                diffs += 1
                if first is None:
                    first = {"source": inputs[i]["text"], "gate_input": gl, "model": p, "real_capy": got,
                             "verbose_types": vt, "output_tail": r["out"][-600:]}
                # a disagreement about the object file is a failing input of the property itself
                if got == "object" and p == "notcompiled":
                    v.failing("object-despite-errors", {"key": "e2e:" + inputs[i]["key"], "source": inputs[i]["text"],
                                                        "real_capy": got, "harness": inputs[i]["raw"]})
                if got in ("notcompiled",) and p == "object":
                    v.failing("no-object-without-errors", {"key": "e2e:" + inputs[i]["key"], "source": inputs[i]["text"],
                                                           "real_capy": got, "harness": inputs[i]["raw"]})
            if got == "object" and not vt:
                # link + run must succeed
                if not r["exe"]:
                    v.failing("link-failed", {"key": "link:" + inputs[i]["key"], "source": inputs[i]["text"],
                                              "output_tail": r["out"][-800:]})
                else:
                    ran += 1
                    rr = r.get("run_rc")
                    # only generated programs terminate and stay in bounds by construction; a test snippet may
                    # legitimately recurse for ever or abort
                    if inputs[i]["kind"] == "valid" and (rr == "timeout" or (isinstance(rr, int) and rr < 0)):
                        v.failing("built-program-crashes:%s" % rr, {"key": "run:" + inputs[i]["key"],
                                  "source": inputs[i]["text"], "run_rc": rr, "run_out": r.get("run_out")})
        fl.stream("gate model vs real `capy build` (default and --verbose-types)", len(jobs), diffs, first)
        v.coverage["e2e_built_linked_and_run"] = ran
        v.coverage["evaluations"] += len(jobs)
        v.coverage["input_kinds"] = hist_kind
        v.coverage["outcomes"] = hist_out
        v.coverage["error_kinds"] = dict(sorted(hist_err.items(), key=lambda kv: -kv[1])[:40])
        v.coverage["gate_verdicts"] = hist_verdict
        v.coverage["rule"] = ("inputs: corpus/C07, generated well-typed programs and the same programs with exactly one "
                              "type-/mutability-/const-/scope-breaking construct (lib/verif/mutate.py ProgGen), snippets of "
                              "hir_ty/codegen tests and examples with an entry point added, and single semantic mutations of "
                              "those. Each runs through the real pipeline in process (track_unsafe_to_compile = true); the "
                              "extracted Coq checker gate_verdict decides the property on (errors, attributed errors, "
                              "any_unsafe, codegen outcome). non-trivial = reached type inference and either reported an "
                              "error or produced an object. A sample goes through the real `capy build` (link + run) and is "
                              "compared with the extracted gate model.")
    v.coverage["claim"] = "partial: Coq proves the gate decision table, the unsafe-tracking traversal and the correctness of the checker gate_ok; 'no diagnostic => nothing unsafe and Cranelift accepts the program' is decided per input on the real pipeline by the extracted checker, not proved"
    v.assumptions = [
        "proved in Coq: gate decision table, is_safe_to_compile traversal + tracking loop over an abstract HIR "
        "(error at any reached sub-expression => never 'safe'; 'unsafe' only at marked nodes), correctness of gate_ok",
        "NOT proved, tested per input: 'no diagnostic => nothing unknown/unsafe' and 'no diagnostic => Cranelift accepts "
        "the program' (hypotheses H2/H3 of C07_gate_meets_spec); errors attributed to expressions the traversal does not reach",
        "the abstract HIR of Model/Gate.v is tied to the code per input: harness/c07/src/hirdump.rs abstracts the real HIR, type "
        "tables and error set into the model's world, and the extracted loc_unsafe must give the verdict the real tracking loop "
        "gave for every finished location (hook hir_ty::verif_take_unsafe_log); programs that meet something the model does not "
        "cover (a location without a type area, an untyped callee / member base) are skipped and counted",
        "in a default build main.rs calls finish(.., track_unsafe_to_compile = false): any_were_unsafe_to_compile is constantly "
        "false and the assert is dead (C07_gate_assert_dead_without_tracking); the harness switches tracking on",
        "in-process harness repeats main.rs's gate (errors => no codegen); the real gate is exercised by the e2e stream",
    ]
    return fl.finish()


def replay(path):
    r = json.load(open(path))
    print(json.dumps({k: r[k] for k in r if k != "source"}, indent=1))
    src = r.get("source")
    if src is None:
        return 0
    print("---- source ----")
    print(src)
    from .. import cargotools
    ok, out, har = cargotools.build_harness("h_c07")
    if ok:
        res = run_harness(har, src)
        print("---- harness now ----")
        print(res["raw"] or res.get("tail"))
        ob, cls, detail = observe(res)
        print("observation:", ob, "class:", cls)
    return 0
