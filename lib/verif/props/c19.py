"""C19 — Calls across the C boundary pass values intact (DESIGN.md C19).

Streams:
  1. API level: `codegen::verif_abi::abi_of` (= x86_64::fn_ty_to_abi on real `Ty`s) vs the
     extracted model `Abi.fn_ty_to_abi`, exhaustively over struct shapes and on random
     0-8 parameter signatures; the verified checker `SysV.abi_ok` is run on the
     IMPLEMENTATION's pass modes (direct oracle: every value is placed where System V says).
  2. End to end: generated signatures in both call directions against C compiled by the
     host gcc (-O0 and -O2); every value printed on both sides and compared with the
     generator's expectation (see c19_e2e.py).
"""
import itertools
import json
import os
import tempfile
import shutil
import time

from .. import common as C
from ..flow import Flow

SCALARS = ["i8", "u8", "i16", "u16", "i32", "u32", "i64", "u64", "isize", "usize",
           "f32", "f64", "bool", "char", "ptr", "optptr"]
# one representative per model scalar kind + array fields, for the exhaustive sweep
FIELD_KINDS = ["i8", "i16", "i32", "i64", "f32", "f64", "ptr", "optptr", "bool", "char",
               "[2]f32", "[3]u8", "[2]i64", "[3]i16", "[2][2]u8", "[5]f32"]


def ty_str(t):
    if isinstance(t, str):
        return t
    if isinstance(t, dict):
        return "{" + ",".join(field_str(f) for f in t["struct"]) + "}"
    raise ValueError(t)


def field_str(f):
    if isinstance(f, str):
        return f
    if isinstance(f, (list, tuple)) and f[0] == "arr":
        return "[%d]%s" % (f[1], field_str(f[2]))
    raise ValueError(f)


def sig_line(sig):
    return "|".join([ty_str(sig["ret"])] + [ty_str(p) for p in sig["params"]])


def rand_field(rng):
    k = rng.below(10)
    if k < 7:
        return rng.choice(SCALARS)
    n = rng.choice([1, 2, 2, 3, 3, 4, 5, 7, 8, 9, 16])
    base = rng.choice(SCALARS)
    if rng.chance(1, 8):
        return ["arr", rng.range(1, 3), ["arr", n, base]]
    return ["arr", n, base]


def rand_struct(rng):
    return {"struct": [rand_field(rng) for _ in range(rng.range(1, 5))]}


def rand_ty(rng):
    return rand_struct(rng) if rng.chance(1, 2) else rng.choice(SCALARS)


def rand_sig(rng):
    n = rng.choice([0, 1, 2, 3, 4, 5, 6, 7, 8, 8, 8, 7, 6])
    if rng.chance(1, 20):
        n = rng.range(9, 14)     # beyond the stated 0-8: still must agree with the model
    ret = "void" if rng.chance(1, 5) else rand_ty(rng)
    return {"params": [rand_ty(rng) for _ in range(n)], "ret": ret}


def api_cases(tier, rng):
    lines = []
    maxf = 3 if tier == "quick" else 4
    for n in range(1, maxf + 1):
        for t in itertools.product(FIELD_KINDS, repeat=n):
            s = "{" + ",".join(t) + "}"
            # as first parameter and as return value
            lines.append("%s|%s" % (s, s))
    exhaustive_n = len(lines)
    # register pressure: k leading scalars of one class, then the struct
    for t in itertools.product(["i32", "f32", "f64", "i64", "i8", "[3]u8"], repeat=2):
        s = "{" + ",".join(t) + "}"
        for ki in range(0, 8):
            for kf in (0, 7, 8, 9):
                lines.append("|".join(["void"] + ["i64"] * ki + ["f64"] * kf + [s, "i32", "f32", s]))
                lines.append("|".join(["{i64,i64,i64}"] + ["i64"] * ki + ["f64"] * kf + [s, "i32", "f32", s]))
    nrand = 4000 if tier == "quick" else 60000
    for _ in range(nrand):
        lines.append(sig_line(rand_sig(rng)))
    return lines, exhaustive_n


def classify_failure(sig, impl):
    """Narrow syntactic class of an API-level oracle failure."""
    if impl.startswith("PANIC") or impl.startswith("!"):
        return "c19:abi-panic"
    return "c19:abi-misplaced"


def run(tier, seed):
    fl = Flow("C19", tier, seed, "proof")
    v = fl.v
    T = {}
    t0 = time.time()
    fl.proof_stage()
    T["proof"] = round(time.time() - t0, 1); t0 = time.time()
    drv = fl.driver()
    har = fl.harness("h_c19")
    T["driver+harness build"] = round(time.time() - t0, 1); t0 = time.time()
    v.coverage["timing_s"] = T
    evals = 0
    nontrivial = 0
    hist = {"cast": 0, "direct": 0, "byval": 0, "sret": 0}
    if drv and har:
        lines, exhaustive_n = api_cases(tier, fl.rng.fork("api"))
        corpus = os.path.join(C.CORPUS, "C19", "api.txt")
        if os.path.exists(corpus):
            lines = [l.strip() for l in open(corpus) if l.strip() and not l.startswith("#")] + lines
        impl = C.run_lines([har], lines)
        q = [l + "\t" + (i if i and not i.startswith(("PANIC", "!")) else "") if i else l for l, i in zip(lines, impl)]
        model = C.run_lines([drv], q, indexed=False)
        diffs = 0
        first = None
        if len(impl) != len(lines) or len(model) != len(lines):
            fl.broken.append({"what": "api stream: tool output length mismatch",
                              "impl": len(impl), "model": len(model), "inputs": len(lines)})
        else:
            seen = set()
            for l, i, m in zip(lines, impl, model):
                evals += 1
                mp = (m.split("\t") + ["", "", "", ""])[:4]
                mrender, mok, iok, spec = mp
                if l not in seen:
                    seen.add(l)
                    if "{" in l:
                        nontrivial += 1
                for k in ("cast", "direct", "byval"):
                    hist[k] += (i or "").count(k + "[")
                if (i or "").startswith("ret=byval"):
                    hist["sret"] += 1
                if i != mrender:
                    diffs += 1
                    if first is None:
                        first = {"signature": l, "implementation": i, "model": mrender}
                if iok != "T":
                    v.failing(classify_failure(l, i or ""),
                              {"key": "api:" + l, "stream": "api", "signature": l, "implementation": i,
                               "model": mrender, "sysv_placement": spec,
                               "explanation": "the pass modes chosen by fn_ty_to_abi do not place every value "
                                              "where the System V specification (Spec/SysV.v) requires"})
            fl.stream("fn_ty_to_abi vs model (struct shapes exhaustive to %d fields over %d field kinds, "
                      "register-pressure grid, random signatures)" % (3 if tier == "quick" else 4, len(FIELD_KINDS)),
                      len(lines), diffs, first)
            v.coverage["exhaustive_struct_shapes"] = exhaustive_n
            v.add_samples([{"signature": lines[k], "implementation": impl[k], "model_and_oracle": model[k]}
                           for k in (0, exhaustive_n // 2, len(lines) - 1)])

        T["api stream"] = round(time.time() - t0, 1); t0 = time.time()
        # ---- stream 2: end to end -----------------------------------------------
        try:
            from . import c19_e2e
        except Exception as e:  # pragma: no cover
            c19_e2e = None
            fl.broken.append({"what": "c19_e2e module missing", "error": repr(e)})
        capy = None if os.environ.get("VERIF_C19_NO_E2E") else fl.capy()   # debugging switch only
        T["capy build"] = round(time.time() - t0, 1); t0 = time.time()
        if c19_e2e is not None and capy:
            e2e_stream(fl, c19_e2e, capy, tier)
        T["e2e"] = round(time.time() - t0, 1)

    v.coverage["evaluations"] = v.coverage.get("evaluations", 0) + evals
    v.coverage["distinct_nontrivial"] = v.coverage.get("distinct_nontrivial", 0) + nontrivial
    v.coverage["pass_mode_histogram"] = hist
    v.coverage["rule"] = ("API stream: one case = one signature through the real fn_ty_to_abi, the extracted model and "
                          "the extracted System V checker; non-trivial = distinct signature containing a struct. "
                          "End-to-end stream: one case = one signature in one call direction compiled by capy and gcc "
                          "and executed; non-trivial = signature with a struct parameter or return.")
    v.assumptions = [
        "type fragment: scalars (ints 1/2/4/8 bytes, f32, f64, bool, char, pointers, optional pointers) and structs of "
        "scalars / nested fixed arrays of scalars; nested structs, i128, slices, enums are outside the model",
        "Cranelift's System V register assignment for a flat signature is modelled as sequential 6 int / 8 SSE "
        "registers then 8-byte stack slots, StructArgument(sz) = sz bytes of stack (Model/Abi.v cl_assign): assumed, "
        "exercised end to end; given that, C19_passmode_agrees proves abi_ok for every signature of the fragment",
        "u32 arithmetic of layout.rs does not wrap (type sizes < 2^32)",
        "gcc is the reference for the C side (host gcc, -O0 and -O2)",
    ]
    return fl.finish()


# Flip to True together with fix candidates C19-1/2 (/verif/.cache/prompts/C19-1-fix.diff on top of
# C02-2-fix.diff: over-wide struct reads go through a padded temporary; Coq: C19_caller_read_fixed_within):
# a crash in the page-end pass is then never attributed to the recorded over-read findings.
READ_FIXED = os.environ.get("VERIF_C19_READ_FIXED", "0") == "1"   # default False; env only for trying the candidate


def norm_class(cls):
    """Strip the concrete size from the e2e module's class names (classes name a mechanism)."""
    import re
    cls = re.sub(r"-size\d+", "", cls)
    if READ_FIXED and cls.endswith(":oob-read-at-page-end"):
        cls = cls + ":after-fix"
    return cls


def e2e_stream(fl, E, capy, tier):
    v = fl.v
    rng = fl.rng.fork("e2e")
    per = 6
    directed = E.gen_directed()
    progs = [(list(ch), 1000 + k) for k, ch in enumerate(C.chunks(directed, per))]
    if tier == "quick":
        # a seeded third of the directed corpus per run keeps the quick tier short
        progs = [p for k, p in enumerate(progs) if (k + fl.seed) % 3 == 0]
    nrand = 30 if tier == "quick" else 900
    for _ in range(nrand):
        progs.append(([E.gen_signature(rng) for _ in range(per)], rng.next()))
    n_page = 10 if tier == "quick" else 120
    page_progs = [([E.gen_signature(rng) for _ in range(per)], rng.next()) for _ in range(n_page)]
    root = tempfile.mkdtemp(prefix="verif-c19-")
    try:
        passes = [("values", progs, (("-O0",), ("-O2",)), None, 6),
                  ("page-end", page_progs, (("-O0",),), {"page_end": True}, 3 if tier == "quick" else 12)]
        for name, plist, cflag_sets, opts, max_shrink in passes:
            dirs = ("to_c",) if opts else ("to_c", "from_c")
            jobs = [(sigs, seed, cf) for (sigs, seed) in plist for cf in cflag_sets]

            def one(job):
                sigs, seed, cf = job
                _prog, r = E._run_sigs(capy, sigs, seed, dirs, cf, root, opts)
                return r
            tp = time.time()
            res = C.parallel_map(one, jobs)
            v.coverage["timing_s"]["e2e %s run" % name] = round(time.time() - tp, 1)
            ncases = sum(len(j[0]) * len(dirs) for j in jobs)
            nontriv = sum(len(dirs) for j in jobs for s_ in j[0] if "struct" in json.dumps(s_))
            v.coverage["evaluations"] = v.coverage.get("evaluations", 0) + ncases
            v.coverage["distinct_nontrivial"] = v.coverage.get("distinct_nontrivial", 0) + nontriv // len(cflag_sets)
            v.coverage["e2e_%s_program_runs" % name] = len(jobs)
            bad = [(j, r) for j, r in zip(jobs, res) if r["status"] != "ok"]
            # a timeout of the compiler or of the generated executable on a loaded machine is not a verdict:
            # one patient, sequential re-run decides
            patient = []
            for j, r in bad:
                if "timeout" in str(r.get("detail")):
                    old_to = E.RUN_TIMEOUT
                    E.RUN_TIMEOUT = 300
                    try:
                        r2 = one(j)
                    finally:
                        E.RUN_TIMEOUT = old_to
                    v.coverage["e2e_timeouts_rerun"] = v.coverage.get("e2e_timeouts_rerun", 0) + 1
                    if r2["status"] == "ok":
                        continue
                    r = r2
                patient.append((j, r))
            bad = patient
            v.coverage["e2e_%s_program_runs_not_ok" % name] = len(bad)

            full_shrink = set(id(jr[0]) for jr in bad[:2])   # greedy minimisation only for the first two

            def sh(jr):
                (sigs, seed, cf), r = jr
                try:
                    return E.shrink(capy, sigs, seed, cf, root, minimise=id(jr[0]) in full_shrink, opts=opts)
                except Exception as e:      # pragma: no cover
                    return [{"sig": None, "orig_sig": sigs, "direction": "?", "status": r["status"],
                             "detail": "shrink failed: %r" % (e,), "diff": r.get("diff"), "opts": dict(opts or {})}]
            shrunk = C.parallel_map(sh, bad[:max_shrink])
            done = set()
            for (job, r), items in zip(bad[:max_shrink], shrunk):
                if not items:
                    items = [{"sig": None, "orig_sig": job[0], "direction": "?", "status": r["status"],
                              "detail": "only fails in combination: %s" % r.get("detail"), "diff": r.get("diff"),
                              "opts": dict(opts or {})}]
                for it in items:
                    cls = norm_class(E.failure_class(it)) if it.get("sig") else "c19:e2e:unshrunk"
                    key = cls + ":" + json.dumps(it.get("sig"), sort_keys=True) + str(it.get("direction"))
                    if key in done:
                        continue
                    done.add(key)
                    prog = E.build_program([it["sig"]], job[1], directions=(it["direction"],), **(opts or {})) \
                        if it.get("sig") else None
                    v.failing(cls, {"key": key, "stream": "e2e/" + name, "cflags": list(job[2]),
                                    "signature": E.sig_str(it["sig"]) if it.get("sig") else None,
                                    "minimal": it, "capy": prog and prog["capy"], "c": prog and prog["c"],
                                    "expected_stdout": prog and prog["expected"]})
            # unshrunk remaining failures still count: report them by program
            for (job, r) in bad[max_shrink:]:
                pass_cls = None
                if opts and r["status"] == "run-failed":
                    # page-end crash: attribute with the module's reference over-read predicate
                    for sg in job[0]:
                        for p_, (where, _c) in zip(sg["params"], E.assign(sg)):
                            if E.is_struct(p_) and E.overread(p_, where):
                                pass_cls = norm_class("c19:to_c:struct-arg-reg-chunk-not-pow2:oob-read-at-page-end" if where == "reg"
                                                      else "c19:to_c:struct-arg-stack-not-multiple-of-8:oob-read-at-page-end")
                                break
                        if pass_cls:
                            break
                v.failing(pass_cls or "c19:e2e:unshrunk",
                          {"key": "prog:%s:%s" % (name, job[1]), "stream": "e2e/" + name, "cflags": list(job[2]),
                           "signatures": [E.sig_str(s_) for s_ in job[0]], "status": r["status"],
                           "detail": r.get("detail")})
            fl.streams["end-to-end %s (capy + gcc %s, %s)" % (name, "/".join(c[0] for c in cflag_sets), "+".join(dirs))] = \
                {"cases": ncases, "diffs": 0}
    finally:
        shutil.rmtree(root, ignore_errors=True)


def replay(path):
    r = json.load(open(path))
    print(json.dumps(r, indent=1)[:6000])
    if r.get("stream") == "api":
        import subprocess
        drv = os.path.join(C.OCAML, "C19", "driver")
        out = subprocess.run([drv], input=r["signature"] + "\t" + (r.get("implementation") or "") + "\n",
                             stdout=subprocess.PIPE, text=True).stdout
        print("model / oracle now:", out)
    return 0
