"""C05 — Names resolve to the innermost visible binding; scopes end where they end.

Model  : coq/Model/Scope.v (scope stack of hir/src/body.rs as it is; `fix` = proposed repair)
Spec   : coq/Spec/ScopeSpec.v (environment passing)
Streams: 1. lowering: generated programs -> hir::lower (harness h_c05, hook Bodies::verif_exprs)
            vs extracted model (correspondence) and vs extracted spec (direct oracle);
         2. end to end: programs with a distinct constant per binding, built and run with the
            real capy executable; every printed value must be the one the spec selects.

After the repair of lower_switch has been committed in /repo set MODEL_FIXED = True (the
model variant that mirrors the code) and close finding C05-1/C05-2."""
import json
import os
import subprocess

from .. import common as C
from ..flow import Flow

MODEL_FIXED = os.environ.get("VERIF_C05_MODEL_FIXED", "1") == "1"   # the repair of lower_switch is committed in /repo (fix: 7f.. see known_findings.d/C05.json)

NAMES = {0: "a", 1: "b", 2: "c", 3: "d", 4: "i32", 5: "nil", 6: "zz"}
CODE = {v: k for k, v in NAMES.items()}
POOL = [0, 1, 2, 3]


# ----------------------------------------------------------------------------------------
# Program builder: produces source text, the model's token form, and the offset tables.
# ----------------------------------------------------------------------------------------
class Prog:
    def __init__(self):
        self.src = []          # text pieces
        self.n = 0             # current length
        self.tok = []          # model tokens
        self.occ = []          # (start, end, name) of every identifier occurrence, lowering order
        self.def_at = {}       # offset of a local definition -> label
        self.arm_at = {}       # offset of an arm's variant -> label
        self.par_at = {}       # offset of a parameter -> label
        self.arm_body = {}     # arm label -> (body start, body end)
        self.arm_arg = {}      # arm label -> argument name
        self.label = 0
        self.hist = {}

    def emit(self, s):
        self.src.append(s)
        self.n += len(s)

    def t(self, *xs):
        self.tok.extend(str(x) for x in xs)

    def fresh(self):
        self.label += 1
        return self.label

    def count(self, k):
        self.hist[k] = self.hist.get(k, 0) + 1

    def var(self, x):
        self.occ.append((self.n, self.n + len(NAMES[x]), x))
        self.emit(NAMES[x])
        self.t("V", x)

    def text(self):
        return "".join(self.src)


class Gen:
    """Random programs for the lowering stream (they need not type-check)."""

    def __init__(self, rng, p):
        self.r = rng
        self.p = p

    def name(self):
        k = self.r.below(20)
        if k < 16:
            return POOL[k % 4]
        return [4, 5, 6, 0][k - 16]

    def binder(self):
        return self.r.choice(POOL) if not self.r.chance(1, 25) else 4

    # -- expressions (source order = lowering order for every construct used) ---------------
    def expr(self, d):
        r, p = self.r, self.p
        k = r.below(100)
        if d <= 0:
            k = k % 45
        if k < 30:
            p.count("var")
            p.var(self.name())
        elif k < 38:
            p.count("lit")
            p.emit(str(r.below(9) + 1))
            p.t("N", 0)
        elif k < 45:
            p.count("member")
            p.t("N", 1)
            p.var(self.name())
            p.emit(".f")
        elif k < 55:
            p.count("binary")
            p.t("N", 2)
            # ((l) + (r)): `comptime`, lambdas, `if` ... extend as far right as possible
            p.emit("((")
            self.expr(d - 1)
            p.emit(") + (")
            self.expr(d - 1)
            p.emit("))")
        elif k < 62:
            p.count("call")
            n = r.below(3)
            p.t("N", n + 1)
            p.var(self.name())
            p.emit("(")
            for i in range(n):
                if i:
                    p.emit(", ")
                self.expr(d - 1)
            p.emit(")")
        elif k < 72:
            self.block(d - 1)
        elif k < 78:
            p.count("if")
            p.t("N", 3)
            p.emit("if ")
            self.atom()
            p.emit(" ")
            self.block(d - 1)
            p.emit(" else ")
            self.block(d - 1)
        elif k < 88:
            self.switch(d - 1)
        elif k < 94:
            self.lam(d - 1, r.chance(3, 4))
        else:
            self.comptime(d - 1)

    def atom(self):
        p = self.p
        if self.r.chance(4, 5):
            p.var(self.name())
        else:
            p.emit("1")
            p.t("N", 0)

    def tyexpr(self, d):
        """an expression in type position (parameter / return / annotation type)"""
        r, p = self.r, self.p
        k = r.below(100)
        if k < 70 or d <= 0:
            p.var(self.name() if r.chance(2, 3) else 4)
        elif k < 80:
            p.t("N", 1)
            p.emit("^")
            p.var(self.name())
        elif k < 92:
            p.emit("(")
            self.lam(d - 1, False)
            p.emit(")")
        else:
            p.emit("(")
            self.comptime(d - 1)
            p.emit(")")

    def block(self, d):
        p = self.p
        p.count("block")
        p.t("B")
        p.emit("{ ")
        self.stmts(d)
        p.emit("}")

    def stmts(self, d):
        r, p = self.r, self.p
        n = r.below(5) if d > 0 else r.below(3)
        for _ in range(n):
            k = r.below(100)
            if k < 40:
                p.count("def")
                l = p.fresh()
                x = self.binder()
                p.def_at[p.n] = l
                p.t("D", l, x)
                p.emit(NAMES[x])
                form = r.below(3)
                if form == 2:
                    p.emit(" : ")
                    self.tyexpr(d - 1)
                    p.emit(" = ")
                else:
                    p.t("N", 0)
                    p.emit(" := " if form == 0 else " :: ")
                self.expr(d - 1)
                p.emit("; ")
            elif k < 50:
                p.count("assign")
                p.t("E", "N", 2)
                p.var(self.name())
                p.emit(" = ")
                self.expr(d - 1)
                p.emit("; ")
            else:
                p.t("E")
                self.expr(d - 1)
                p.emit("; ")
        p.t("T")
        if r.chance(1, 2):
            self.expr(d - 1)
            p.emit(" ")
        else:
            p.t("N", 0)

    def switch(self, d):
        r, p = self.r, self.p
        has_arg = r.chance(3, 4)
        arg = self.binder() if has_arg else None
        p.count("switch_arg" if has_arg else "switch")
        p.t("S", arg if has_arg else -1)
        p.emit("switch ")
        if has_arg:
            p.emit(NAMES[arg] + " in ")
        self.atom()
        p.emit(" { ")
        n = r.below(4)
        p.t(n)
        for i in range(n):
            l = p.fresh()
            p.arm_at[p.n] = l
            p.arm_arg[l] = arg
            p.t(l)
            form = r.below(3)
            if i == n - 1 and r.chance(1, 3):
                p.emit("_")
                p.t("N", 0)
            elif form == 0:
                p.t("N", 1)
                p.var(self.name())
                p.emit(".X")
            else:
                p.emit("." + ("X" if i % 2 == 0 else "Y"))
                p.t("N", 0)
            p.emit(" => ")
            b0 = p.n
            if r.chance(1, 2):
                self.block(d)
            else:
                self.expr(d - 1)
            p.arm_body[l] = (b0, p.n)
            p.emit(", ")
        p.emit("}")

    def lam(self, d, hasbody):
        r, p = self.r, self.p
        p.count("lambda" if hasbody else "fn_type")
        n = r.below(4)
        p.t("L", n)
        p.emit("(")
        for i in range(n):
            if i:
                p.emit(", ")
            l = p.fresh()
            x = self.binder()
            ct = r.chance(1, 3)
            p.par_at[p.n] = l
            p.count("ct_param" if ct else "param")
            p.t(l, x, 1 if ct else 0)
            p.emit(("comptime " if ct else "") + NAMES[x] + ": ")
            self.tyexpr(d - 1)
        p.emit(")")
        # `()` / `(a: b)` alone is not parsed as a lambda: function types always get a return type
        if not hasbody or r.chance(1, 2):
            p.emit(" -> ")
            self.tyexpr(d - 1)
        else:
            p.t("N", 0)
        if hasbody:
            p.t(1)
            p.emit(" { ")
            self.stmts(d)
            p.emit("}")
        else:
            p.t(0, "T", "N", 0)

    def comptime(self, d):
        r, p = self.r, self.p
        p.t("C")
        p.emit("comptime ")
        k = r.below(10)
        if k < 6:
            p.count("comptime_block")
            self.block(d)
        elif k < 8:
            p.count("comptime_switch")
            self.switch(d)
        else:
            p.count("comptime_expr")
            p.emit("(")
            p.t("N", 1)
            self.expr(d - 1)
            p.emit(")")

    # -- program ------------------------------------------------------------------------------
    def program(self):
        r, p = self.r, self.p
        names = list(POOL) + [7, 8]
        r.shuffle(names)
        ng = r.range(1, 4)
        p.t(ng)
        for gi in range(ng):
            x = names[gi]
            gname = NAMES.get(x, "g%d" % x)
            NAMES.setdefault(x, gname)
            d = r.range(1, 4)
            k = r.below(10)
            p.emit(gname)
            if k == 0:
                p.count("global_extern")
                p.t(x, 1)
                p.emit(" : ")
                self.tyexpr(d)
                p.emit(" : extern;\n")
                p.t("N", 0)
                continue
            p.t(x, 0)
            if k <= 2:
                p.emit(" : ")
                self.tyexpr(d)
                p.emit(" : ")
            else:
                p.t("N", 0)
                p.emit(" :: ")
            if k <= 6:
                p.count("global_lambda")
                self.lam(d, True)
            else:
                p.count("global_value")
                self.expr(d)
            p.emit(";\n")


NAMES[7] = "g7"
NAMES[8] = "g8"


def gen_lowering(rng):
    p = Prog()
    Gen(rng, p).program()
    return p


def impl_resolutions(p, out):
    """Translate the harness dump into the model's token vocabulary, one token per occurrence."""
    if out.startswith("PANIC:"):
        if "unwrap()` on a `None`" in out:
            return "CRASH2366"
        if "inline_header_params.is_empty()" in out:
            return "CRASH853"
        return out
    if out.startswith("!"):
        return out
    by_range = {}
    diags = {}
    nerr = None
    for t in out.split():
        if t.startswith("D"):
            a, b, k = t[1:].split(":")
            diags.setdefault((int(a), int(b)), []).append(k)
        elif t.startswith("E"):
            nerr = int(t[1:])
        else:
            a, b, k = t.split(":", 2)
            by_range.setdefault((int(a), int(b)), []).append(k)
    if nerr:
        return "SYNTAX-ERRORS:%d" % nerr
    res = []
    for (a, b, x) in p.occ:
        ks = by_range.get((a, b), [])
        if len(ks) != 1:
            res.append("?%d" % len(ks))
            continue
        k = ks[0]
        c = k[0]
        if c == "L":
            res.append("L%s" % p.def_at.get(int(k[1:]), "?"))
        elif c == "S":
            res.append("S%s" % (p.arm_at.get(int(k[1:]), "?") if k[1:] != "?" else "?"))
        elif c in "PCI":
            res.append("%s%s" % (c, p.par_at.get(int(k[1:]), "?")))
        elif c == "G":
            res.append("G%s" % CODE.get(k[1:], "?"))
        elif c in "TZ":
            res.append(c)
        elif c == "M":
            d = diags.get((a, b), [])
            if "UndefinedRef" in d:
                res.append("U")
            elif "InlineParamNotComptime" in d:
                res.append("J")
            else:
                res.append("M?")
        else:
            res.append("?")
    return " ".join(res)


def strip_j(s):
    """the implementation does not say which non-comptime header parameter was hit"""
    return " ".join("J" if t.startswith("J") else t for t in s.split())


def classify(p, impl, spec, flags):
    """Narrow syntactic class of a failing input (property fails on the implementation)."""
    wf0, wf1, guarded = flags
    if impl == "CRASH2366":
        return "comptime-switch-arg-panic" if guarded == "0" else "panic-empty-scope-stack-other"
    if impl == "CRASH853":
        return "lambda-in-header-after-param-panic" if wf1 == "0" else "panic-header-assert-other"
    if impl.startswith("PANIC") or impl.startswith("!") or impl.startswith("SYNTAX"):
        return "lowering-crash-other"
    it, st = impl.split(), spec.split()
    if len(it) != len(st):
        return "resolution-count-differs"
    only_leak = True
    for (a, b, x), i, s in zip(p.occ, it, st):
        if i == s:
            continue
        ok = False
        if i.startswith("S") and i[1:].isdigit():
            l = int(i[1:])
            b0, b1 = p.arm_body.get(l, (0, 0))
            # resolved to the argument of arm l although the occurrence is outside that arm's body
            if p.arm_arg.get(l) == x and not (b0 <= a and b <= b1):
                ok = True
        if not ok:
            only_leak = False
    return "switch-arg-visible-outside-arm" if only_leak else "resolution-wrong"


# ----------------------------------------------------------------------------------------
# End-to-end programs: well typed, one distinct constant per binding, every occurrence printed.
# ----------------------------------------------------------------------------------------
class E2E:
    def __init__(self, rng):
        self.r = rng
        self.p = Prog()
        self.value = {}      # resolution token -> constant
        self.expect = []     # occurrence ids in p.occ order
        self.calls = []

    def val(self, tok):
        v = 1000 + len(self.value)
        self.value[tok] = v
        return v

    def visible_pick(self, env):
        return self.r.choice(sorted(env))

    def print_occ(self, env):
        p = self.p
        x = self.visible_pick(env)
        oid = len(p.occ)
        p.emit("core.println(%d, \" \", " % oid)
        p.t("E")
        p.var(x)
        p.emit("); ")

    def body(self, d, env):
        """statements of a block; env = set of names with some visible binding (python-side
        bookkeeping only used to avoid undefined names; the expected values come from the spec)"""
        r, p = self.r, self.p
        env = set(env)
        n = r.range(2, 5)
        for _ in range(n):
            k = r.below(100)
            if k < 30 or not env:
                l = p.fresh()
                x = r.choice(POOL)
                p.def_at[p.n] = l
                p.t("D", l, x, "N", 0, "N", 0)
                p.emit("%s %s %d; " % (NAMES[x], r.choice([":=", "::"]), self.val("L%d" % l)))
                env.add(x)
            elif k < 60:
                self.print_occ(env)
            elif k < 72 and d > 0:
                p.t("E", "B")
                p.emit("{ ")
                self.body(d - 1, env)
                p.t("T", "N", 0)
                p.emit("} ")
            elif k < 90 and d > 0:
                x = r.choice(POOL)
                p.t("E", "S", x, "N", 0, 2)
                vx, vy = None, None
                p.emit("switch %s in sv { " % NAMES[x])
                for vn in ("X", "Y"):
                    l = p.fresh()
                    p.arm_at[p.n] = l
                    p.arm_arg[l] = x
                    # sv = E.X.(<XV>): only the X arm runs
                    self.value["S%d" % l] = 777 if vn == "X" else 888
                    p.t(l, "N", 0, "B")
                    p.emit(".%s => { " % vn)
                    b0 = p.n
                    self.body(d - 1, env | {x})
                    p.t("T", "N", 0)
                    p.arm_body[l] = (b0, p.n)
                    p.emit("}, ")
                p.emit("} ")
            elif d > 0:
                # local lambda, called right away; its body sees its parameters and globals only
                l = p.fresh()
                fx = "h%d" % l
                np_ = r.range(1, 2)
                p.t("D", l, 99, "N", 0, "L", np_)
                p.def_at[p.n] = l
                p.emit("%s :: (" % fx)
                args = []
                penv = set(self.genv)
                for i in range(np_):
                    pl = p.fresh()
                    x = r.choice(POOL)
                    p.emit(", " if i else "")
                    p.par_at[p.n] = pl
                    p.t(pl, x, 0, "N", 0)
                    p.emit("%s: i32" % NAMES[x])
                    v = self.val("P%d" % pl)
                    args.append(v)
                    penv.add(x)
                # a later parameter of the same name shadows the earlier one
                p.t("N", 0, 1)
                p.emit(") { sv : E = E.X.(777); ")
                self.body(d - 1, penv)
                p.t("T", "N", 0)
                p.emit("}; %s(%s); " % (fx, ", ".join(str(a) for a in args)))

    def program(self):
        r, p = self.r, self.p
        self.genv = set()
        gl = []
        ng = r.range(0, 2)
        gnames = list(POOL)
        r.shuffle(gnames)
        src_head = 'core :: #mod("core");\nE :: enum { X: i32, Y: i32 };\n'
        p.emit(src_head)
        nglob = ng + 1 + r.range(0, 1)
        toks_n = None
        p.t("@NG@")
        count = 0
        for i in range(ng):
            x = gnames[i]
            self.genv.add(x)
            v = self.val("G%d" % x)
            p.t(x, 0, "N", 0, "N", 0)
            p.emit("%s :: %d;\n" % (NAMES[x], v))
            count += 1
        nf = nglob - ng
        for fi in range(nf):
            np_ = r.range(0, 3)
            p.t(20 + fi, 0, "N", 0, "L", np_)
            p.emit("f%d :: (" % fi)
            args = []
            penv = set(self.genv)
            for i in range(np_):
                pl = p.fresh()
                x = r.choice(POOL)
                ct = r.chance(1, 4)
                p.emit(", " if i else "")
                p.par_at[p.n] = pl
                p.t(pl, x, 1 if ct else 0, "N", 0)
                p.emit("%s%s: i32" % ("comptime " if ct else "", NAMES[x]))
                v = self.val(("C%d" if ct else "P%d") % pl)
                args.append(v)
                penv.add(x)
            p.t("N", 0, 1)
            p.emit(") { sv : E = E.X.(777); ")
            self.body(3, penv)
            p.t("T", "N", 0)
            p.emit("};\n")
            self.calls.append("f%d(%s);" % (fi, ", ".join(str(a) for a in args)))
            count += 1
        p.emit("main :: () { %s }\n" % " ".join(self.calls))
        p.tok[p.tok.index("@NG@")] = str(count)
        return p


def run_e2e(capy, item):
    idx, src = item
    with C.scratch("verif-c05-") as d:
        f = os.path.join(d, "p.capy")
        open(f, "w").write(src)
        rc, out = C.run([capy, "build", "p.capy", "--mod-dir", C.REPO], cwd=d, timeout=120)
        exe = os.path.join(d, "out", "p")
        if rc != 0 or not os.path.exists(exe):
            tail = [l for l in out.split("\n") if l.strip() and not l.startswith("split_aggregate")]
            return ("BUILD-FAILED", "\n".join(tail[-6:])[-600:])
        rc2, out2 = C.run([exe], cwd=d, timeout=20)
        return ("RAN:%d" % rc2, out2)


# ----------------------------------------------------------------------------------------
def load_corpus():
    d = os.path.join(C.CORPUS, "C05")
    res = []
    if os.path.isdir(d):
        for f in sorted(os.listdir(d)):
            if f.endswith(".json"):
                res.append(json.load(open(os.path.join(d, f))))
    return res


def prog_from_corpus(ent):
    p = Prog()
    p.src = [ent["source"]]
    p.n = len(ent["source"])
    p.tok = ent["tokens"].split()
    p.occ = [tuple(o) for o in ent["occ"]]
    p.def_at = {int(k): v for k, v in ent["def_at"].items()}
    p.arm_at = {int(k): v for k, v in ent["arm_at"].items()}
    p.par_at = {int(k): v for k, v in ent["par_at"].items()}
    p.arm_body = {int(k): tuple(v) for k, v in ent["arm_body"].items()}
    p.arm_arg = {int(k): v for k, v in ent["arm_arg"].items()}
    return p


def prog_payload(p):
    return {"source": p.text(), "tokens": " ".join(p.tok), "occ": [list(o) for o in p.occ],
            "def_at": p.def_at, "arm_at": p.arm_at, "par_at": p.par_at,
            "arm_body": {k: list(v) for k, v in p.arm_body.items()}, "arm_arg": p.arm_arg}


def lowering_stream(fl, drv, har, progs, name):
    v = fl.v
    lines = [p.text().encode().hex() for p in progs]
    impl_raw = C.run_lines([har], lines, case_timeout=10)
    model = C.run_lines([drv], [" ".join(p.tok) for p in progs], indexed=False)
    if len(impl_raw) != len(progs) or len(model) != len(progs):
        fl.broken.append({"what": "%s: tool output length mismatch" % name})
        return
    diffs = 0
    first = None
    nontrivial = 0
    kinds = {}
    thm_checked = 0
    seen = set()
    for p, raw, m in zip(progs, impl_raw, model):
        parts = m.split("|")
        if len(parts) != 4:
            fl.broken.append({"what": "%s: model driver failed" % name, "tokens": " ".join(p.tok), "out": m})
            continue
        flags = parts[0].split()
        m0, m1, spec = parts[1], parts[2], parts[3]
        mm = m1 if MODEL_FIXED else m0
        impl = impl_resolutions(p, raw)
        if impl.startswith("SYNTAX") or (not impl.startswith(("PANIC", "CRASH", "!")) and "?" in impl):
            fl.broken.append({"what": "%s: generator/harness mismatch (syntax error or unmatched occurrence)" % name,
                              "source": p.text(), "impl": impl, "raw": raw[:500]})
            continue
        key = C.sha(p.text())
        if key not in seen:
            seen.add(key)
            # non-trivial: some name is bound at least twice or resolves to different things
            toks = [t for t in spec.split()]
            if len(set(toks)) >= 3 and len(p.occ) >= 4:
                nontrivial += 1
        crashed = impl.startswith(("CRASH", "PANIC", "!"))
        for t in ([impl[:9]] if crashed else [t[0] for t in impl.split()]):
            kinds[t] = kinds.get(t, 0) + 1
        # theorem instances (sanity of the extracted artefacts)
        if flags[0] == "1" and m0 != spec:
            fl.broken.append({"what": "C05_except_switch_arg instance fails on extracted code", "tokens": " ".join(p.tok)})
        if flags[1] == "1" and m1 != spec:
            fl.broken.append({"what": "C05_fixed_full instance fails on extracted code", "tokens": " ".join(p.tok)})
        if flags[2] == "1" and m0 == "CRASH2366":
            fl.broken.append({"what": "C05_scope_stack_never_empty instance fails", "tokens": " ".join(p.tok)})
        thm_checked += 1
        # direct oracle: implementation vs specification
        if impl != strip_j(spec):
            cls = classify(p, impl, strip_j(spec), flags)
            pay = prog_payload(p)
            pay.update({"key": "lower:" + key, "stream": name, "implementation": impl, "spec": spec,
                        "model_as_is": m0, "model_fixed": m1, "harness_raw": raw[:2000]})
            v.failing(cls, pay)
        # correspondence: implementation vs model of the code
        if impl != strip_j(mm):
            diffs += 1
            if first is None:
                first = {"source": p.text(), "tokens": " ".join(p.tok), "implementation": impl, "model": mm}
    fl.stream(name, len(progs), diffs, first)
    v.coverage["evaluations"] += sum(len(p.occ) for p in progs)
    v.coverage["distinct_nontrivial"] += nontrivial
    v.coverage.setdefault("resolution_kinds", {})
    for k, n in kinds.items():
        v.coverage["resolution_kinds"][k] = v.coverage["resolution_kinds"].get(k, 0) + n
    v.coverage["theorem_instances_checked"] = v.coverage.get("theorem_instances_checked", 0) + thm_checked


def run(tier, seed):
    fl = Flow("C05", tier, seed, "proof")
    v = fl.v
    fl.proof_stage()
    drv = fl.driver()
    har = fl.harness("h_c05")
    if drv and har:
        corpus = [prog_from_corpus(e) for e in load_corpus()]
        if corpus:
            lowering_stream(fl, drv, har, corpus, "corpus")
        n = 4000 if tier == "quick" else 60000
        rng = fl.rng.fork("lower")
        progs = [gen_lowering(rng.fork(str(i))) for i in range(n)]
        lowering_stream(fl, drv, har, progs, "hir::lower resolutions vs model")
        hist = {}
        sizes = {}
        for p in progs:
            for k, c in p.hist.items():
                hist[k] = hist.get(k, 0) + c
            b = min(len(p.occ) // 10 * 10, 100)
            sizes[b] = sizes.get(b, 0) + 1
        v.coverage["constructor_histogram"] = hist
        v.coverage["occurrences_per_program_histogram"] = {str(k): sizes[k] for k in sorted(sizes)}
        v.add_samples([{"source": progs[i].text(), "model_tokens": " ".join(progs[i].tok)} for i in (0, 1)])

        # ---- end to end -----------------------------------------------------------------
        capy = fl.capy()
        if capy:
            ne = 48 if tier == "quick" else 600
            erng = fl.rng.fork("e2e")
            es = []
            for i in range(ne):
                e = E2E(erng.fork(str(i)))
                e.program()
                es.append(e)
            outs = C.parallel_map(lambda it: run_e2e(capy, it), [(i, e.p.text()) for i, e in enumerate(es)])
            specs = C.run_lines([drv], [" ".join(e.p.tok) for e in es], indexed=False)
            lows = C.run_lines([har], [e.p.text().encode().hex() for e in es], case_timeout=10)
            ediffs = 0
            efirst = None
            printed = 0
            for e, (status, out), m, low in zip(es, outs, specs, lows):
                parts = m.split("|")
                if len(parts) != 4:
                    fl.broken.append({"what": "e2e: model driver failed", "out": m})
                    continue
                flags = parts[0].split()
                spec = parts[3].split()
                mm = (parts[2] if MODEL_FIXED else parts[1]).split()
                bad = None
                model_bad = False
                if status != "RAN:0":
                    bad = {"status": status, "output": out[-800:]}
                    # the model predicts a wrong resolution for this program iff model != spec
                    model_bad = mm != spec
                else:
                    for line in out.split("\n"):
                        ws = line.split()
                        if len(ws) != 2 or not ws[0].isdigit():
                            continue
                        oid = int(ws[0])
                        printed += 1
                        want = e.value.get(spec[oid]) if oid < len(spec) else None
                        if str(want) != ws[1]:
                            bad = {"occurrence": oid, "printed": ws[1], "spec_resolution": spec[oid] if oid < len(spec) else None,
                                   "spec_value": want}
                            model_bad = oid < len(mm) and mm[oid] != spec[oid]
                            break
                if bad:
                    impl = impl_resolutions(e.p, low)
                    cls = classify(e.p, impl, strip_j(parts[3]), flags)
                    if impl == strip_j(parts[3]):
                        cls = "runtime-value-wrong"
                    pay = prog_payload(e.p)
                    pay.update({"key": "e2e:" + C.sha(e.p.text()), "stream": "end-to-end", "observed": bad,
                                "spec": parts[3], "lowering": impl})
                    v.failing(cls, pay)
                    if not model_bad:
                        ediffs += 1
                        if efirst is None:
                            efirst = {"source": e.p.text(), "observed": bad}
            fl.stream("end-to-end printed values vs spec (model agrees)", len(es), ediffs, efirst)
            v.coverage["e2e_programs"] = len(es)
            v.coverage["e2e_values_printed"] = printed
            v.coverage["evaluations"] += printed
            v.add_samples([{"e2e_source": es[0].p.text()}])
        v.coverage["rule"] = (
            "stream 1: %d generated programs (identifier pool a,b,c,d + i32,nil,zz; nested blocks, lambdas, function types, "
            "switch arguments, (comptime) parameters, comptime blocks, globals, depth<=4) lowered by hir::lower; every "
            "identifier occurrence's resolution compared with the extracted model (correspondence) and the extracted "
            "specification (oracle). evaluations = identifier occurrences. non-trivial = program with >= 4 occurrences "
            "resolving to >= 3 distinct bindings. stream 2: well-typed programs, a distinct constant per binding, built and "
            "run with capy; each printed '<occurrence> <value>' must be the value of the binding chosen by the spec." % n)
    v.assumptions = [
        "abstract syntax keeps binders and identifier occurrences only; every other expression is Node [children in lowering order] "
        "(order of lowering for cast/index and the like is not modelled and not generated)",
        "FxHashMap modelled as association list (insert = cons, get = first match); interner keys = names",
        "labels, while/defer label stacks, imports and directives are outside the model (they do not touch scopes)",
        "parameters without a name and syntax-error recovery paths are not generated",
        "MODEL_FIXED=%s (model variant compared with the code)" % MODEL_FIXED,
    ]
    return fl.finish()


def replay(path):
    r = json.load(open(path))
    print(json.dumps({k: r[k] for k in r if k not in ("occ", "def_at", "arm_at", "par_at", "arm_body", "arm_arg")}, indent=1))
    if "tokens" in r and "source" in r:
        drv = os.path.join(C.OCAML, "C05", "driver")
        har = os.path.join(C.TARGET, "debug", "h_c05")
        if os.path.exists(drv) and os.path.exists(har):
            p = prog_from_corpus(r)
            m = C.run_lines([drv], [r["tokens"]], indexed=False)[0]
            raw = C.run_lines([har], [r["source"].encode().hex()])[0]
            print("model  as is | fixed | spec :", m)
            print("implementation now         :", impl_resolutions(p, raw))
    return 0
