"""C28 — Imports resolve to the right files and each file is compiled once (DESIGN.md C28).

End-to-end stream: generated directory trees (<= 6 files, <= 3 directories below the
working directory, a module directory with good / src-less / mod.capy-less modules, a
directory outside both) are written under a scratch directory and compiled by the real
`capy build --verbose-hir all`; from its output we read the compile events
(`=== file ===`), the resolved target of every `#import`/`#mod` (`iK :: #import("<abs>")`
or `<missing>`) and the diagnostics.  These are compared
  (correspondence) with the extracted model (Model/Imports.v: lower_import, compile_all),
  (direct oracle)  with the property evaluated on the real file system by Python
                   (os.path.normpath / isfile / BFS), independent of the model.
"""
import json
import os
import re
import shutil
import tempfile

from .. import common as C
from ..flow import Flow

CAPY_TIMEOUT = 240

# Which variant of the model mirrors the code in /repo (cfg.c_fixed in Model/Imports.v):
#   "0" = pinned commit: `#mod("")` passes the alphanumeric test (known finding C28-1, open)
#   "1" = after the repair `if file.is_empty() || !file.chars().all(..)` -> ModMustBeAlphanumeric
# Flip the default to "1" when the `fix:` commit is in /repo (and mark C28-1 "fixed: <sha>").
MODEL_FIXED = os.environ.get("VERIF_C28_MODEL_FIXED", "1") == "1"

MSG = [
    (re.compile(r"^error: `(.*)` couldn't be found$"), "notfound"),
    (re.compile(r"^error: `(.*)` is outside the current working module$"), "outside"),
    (re.compile(r"^error: capy files must end in `\.capy`$"), "notcapy"),
    (re.compile(r"^error: modules must be alphanumeric$"), "modnotalnum"),
    (re.compile(r"^error: a `(.*)` module could not be found in `(.*)`$"), "modmissing"),
    (re.compile(r"^error: the `(.*)` module exists in `(.*)`, but doesn't contain a `mod\.capy` file$"), "modnofile"),
    (re.compile(r"^error: expected an argument of type `str`$"), "argcount"),
    (re.compile(r"^error: expected only 1 argument, but found"), "argcount"),
]


def hx(s):
    return s.encode("utf-8").hex()


class Tree:
    """files: {abs path: list of directives}; directive = (kind, arg) with kind in
    'I' (import string), 'M' (mod string), 'i0','i2','m0','m2' (arg count), 'IX','MX' (non-string)."""

    def __init__(self, root):
        self.root = root
        self.cwd = root + "/w"
        self.mod = root + "/mods"
        self.dirs = [self.cwd, self.mod, self.mod + "/core", root + "/out"]
        self.files = {}           # capy files with directives
        self.other = []           # other plain files (a.txt)
        self.ids = {}


def gen_tree(rng, root):
    t = Tree(root)
    # directories below cwd (<= 3 incl. cwd)
    layout = rng.below(4)
    sub = [[], ["d1"], ["d1", "d1/d2"], ["d1", "d2"]][layout]
    for s in sub:
        t.dirs.append(t.cwd + "/" + s)
    wdirs = [t.cwd] + [t.cwd + "/" + s for s in sub]
    # modules
    if rng.chance(3, 4):
        t.dirs += [t.mod + "/m1", t.mod + "/m1/src"]
        t.files[t.mod + "/m1/src/mod.capy"] = []
        if rng.chance(1, 3):
            t.files[t.mod + "/m1/src/extra.capy"] = []
    if rng.chance(1, 2):
        t.dirs.append(t.mod + "/m2")                      # no src
    if rng.chance(1, 2):
        t.dirs += [t.mod + "/m3", t.mod + "/m3/src"]      # src without mod.capy
    if rng.chance(1, 8):
        t.dirs += [t.mod + "/m4", t.mod + "/m4/src", t.mod + "/m4/src/mod.capy"]   # mod.capy is a directory
    if rng.chance(1, 6):
        t.dirs.append(t.mod + "/src")                     # <mod-dir>/src/mod.capy: what `#mod("")` finds
        t.files[t.mod + "/src/mod.capy"] = []
    # files
    t.files[t.cwd + "/main.capy"] = []
    names = ["a", "b", "c", "d", "e"]
    nfiles = rng.range(0, 5 - (1 if t.mod + "/m1/src/mod.capy" in t.files else 0))
    for k in range(nfiles):
        d = rng.choice(wdirs)
        t.files.setdefault(d + "/" + rng.choice(names) + ".capy", [])
    if rng.chance(1, 2):
        t.files[root + "/out/o.capy"] = []
    if rng.chance(1, 3):
        t.other.append(rng.choice(wdirs) + "/a.txt")
    if rng.chance(1, 6):
        t.dirs.append(rng.choice(wdirs) + "/dir.capy")    # a directory whose name ends in .capy
    for k, f in enumerate(sorted(t.files)):
        t.ids[f] = k + 1
    # directives
    clean_only = rng.chance(2, 5)
    allf = sorted(t.files)
    for f in allf:
        n = rng.range(0, 3) if f != t.cwd + "/main.capy" else rng.range(1, 4)
        for _ in range(n):
            t.files[f].append(gen_directive(rng, t, f, allf, clean_only))
    return t


def fixed_tree(root):
    """regression tree, always run first: cycle, self import, `..`, module with and without mod.capy,
    `#mod("")` with <mod-dir>/src/mod.capy present (known finding C28-1), every rejection reason."""
    t = Tree(root)
    t.dirs += [t.cwd + "/d1", t.mod + "/m1", t.mod + "/m1/src", t.mod + "/m2", t.mod + "/m3", t.mod + "/m3/src", t.mod + "/src"]
    t.other.append(t.cwd + "/a.txt")
    t.files = {
        t.cwd + "/main.capy": [("I", "d1/a.capy"), ("M", "m1"), ("M", ""), ("I", "./main.capy")],
        t.cwd + "/d1/a.capy": [("I", "../main.capy"), ("I", "a.capy"), ("I", "../b.capy"), ("I", "nothere.capy"),
                                ("I", "../a.txt"), ("I", "../../out/o.capy"), ("M", "m2"), ("M", "m3"), ("M", "m-1"),
                                ("i0", ""), ("m2", ""), ("IX", "")],
        t.cwd + "/b.capy": [("I", "x/../d1//a.capy")],
        t.cwd + "/unreachable.capy": [("I", "main.capy")],
        t.mod + "/m1/src/mod.capy": [("I", "../../../w/b.capy")],
        t.mod + "/src/mod.capy": [],
        root + "/out/o.capy": [],
    }
    for k, f in enumerate(sorted(t.files)):
        t.ids[f] = k + 1
    return t


def rel_to(target, start_dir, rng):
    r = os.path.relpath(target, start_dir)
    style = rng.below(6)
    if style == 0:
        return "./" + r
    if style == 1:
        return os.path.basename(start_dir) and ("../" + os.path.basename(start_dir) + "/" + r) or r
    if style == 2:
        return "x/../" + r            # lexically cleaned although x does not exist
    if style == 3:
        return r.replace("/", "//", 1)
    return r


def gen_directive(rng, t, f, allf, clean_only):
    d = os.path.dirname(f)
    incwd = [g for g in allf if g.startswith(t.cwd + "/")]
    r = rng.below(100)
    if clean_only or r < 40:
        # a valid target: any file in cwd / module dir (cycles and self imports included)
        if rng.chance(1, 5) and t.mod + "/m1/src/mod.capy" in t.files:
            return ("M", "m1")
        cand = [g for g in allf if g.startswith(t.cwd + "/") or g.startswith(t.mod + "/")]
        g = f if rng.chance(1, 6) else rng.choice(cand)
        return ("I", rel_to(g, d, rng))
    if r < 48:
        return ("I", rng.choice(["nothere.capy", "d1/zz.capy", "../nothere.capy", "dir.capy", "d1/dir.capy"]))
    if r < 55:
        return ("I", rng.choice(["a.txt", "d1", "a.capy/", "a", "a.cap", "main.capy.bak", ""]))
    if r < 63:
        return ("I", os.path.relpath(t.root + "/out/o.capy", d))
    if r < 67:
        return ("I", "../" * rng.range(4, 12) + rng.choice(["x.capy", t.cwd.lstrip("/") + "/main.capy"]))
    if r < 71:
        return ("I", rng.choice(incwd))                    # absolute path
    if r < 74:
        return ("I", rng.choice(["d1\\\\a.capy", ".\\\\main.capy"]))   # written with an escaped backslash
    if r < 80:
        return ("M", rng.choice(["m1", "m2", "m3", "m4", "zz"]))
    if r < 86:
        return ("M", rng.choice(["m-1", "m 1", "m1/src", "../mods/m1", "m1.", "é", ""]))
    if r < 90:
        return (rng.choice(["i0", "i2", "m0", "m2"]), "")
    if r < 94:
        return (rng.choice(["IX", "MX"]), "")
    g = rng.choice(allf)
    return ("I", os.path.relpath(g, d))


def directive_src(k, kind, arg):
    name = "i%d" % k
    if kind == "I":
        return '%s :: #import("%s");' % (name, arg)
    if kind == "M":
        return '%s :: #mod("%s");' % (name, arg)
    w = "import" if kind[0] in "iI" else "mod"
    if kind in ("i0", "m0"):
        return "%s :: #%s();" % (name, w)
    if kind in ("i2", "m2"):
        return '%s :: #%s("a.capy", "b.capy");' % (name, w)
    return "%s :: #%s(5);" % (name, w)


def real_string(arg):
    return arg.replace("\\\\", "\\")


# ---- the property evaluated on the real file system (independent of the model) ------------
def oracle_directive(t, f, kind, arg):
    """The property on the real file system.
    -> (('A', path) | ('R', first applicable reason), facts) where facts lists which rejection
    conditions hold, so that the reason the compiler gives can be checked for truthfulness
    (the statement does not fix a priority between the conditions)."""
    if kind in ("i0", "i2", "m0", "m2"):
        return (("R", "argcount"), {"argcount": True})
    if kind in ("IX", "MX"):
        return (("R", "nonstring"), {"nonstring": True})
    s = real_string(arg)
    if kind == "M":
        p = os.path.join(t.mod, s, "src", "mod.capy")
        facts = {"modnotalnum": not (s.isascii() and s.isalnum()),
                 "modmissing": not os.path.isdir(os.path.join(t.mod, s, "src")),
                 "modnofile": not os.path.isfile(p)}
        for k in ("modnotalnum", "modmissing", "modnofile"):
            if facts[k]:
                return (("R", k), facts)
        return (("A", p), facts)
    s2 = s.replace("\\", "/")
    p = os.path.normpath(os.path.join(os.path.dirname(f), s2))
    if p.startswith("//"):
        p = p[1:]
    facts = {"notcapy": not s.endswith(".capy"), "target": p, "notfound": not os.path.isfile(p),
             "outside": not (p.startswith(t.cwd + "/") or p.startswith(t.mod + "/"))}
    for k in ("notcapy", "notfound", "outside"):
        if facts[k]:
            return (("R", k), facts)
    return (("A", p), facts)


def write_tree(t):
    for d in t.dirs:
        os.makedirs(d, exist_ok=True)
    for p in t.other:
        open(p, "w").write("x\n")
    exp = {}
    for f, ds in t.files.items():
        exp[f] = [oracle_directive_pre(t, f, k, a) for (k, a) in ds]
    for f, ds in t.files.items():
        lines = [directive_src(k, kind, arg) for k, (kind, arg) in enumerate(ds)]
        lines.append("id :: () -> i32 { %d }" % t.ids[f])
        if f == t.cwd + "/main.capy":
            acc = [k for k, o in enumerate(exp[f]) if o][:2]
            terms = ["%d * i%d.id()" % (7 ** j, k) for j, k in enumerate(acc)]
            lines.append("main :: () -> i32 { %s }" % (" + ".join(terms) if terms else "0"))
        open(f, "w").write("\n".join(lines) + "\n")


def oracle_directive_pre(t, f, kind, arg):
    """Is this directive expected to be accepted (computed from the tree description before
    the files exist; used only to pick which imports main() calls)."""
    if kind not in ("I", "M"):
        return False
    s = real_string(arg)
    if kind == "M":
        return s.isascii() and s.isalnum() and (t.mod + "/" + s + "/src/mod.capy") in t.files
    if not s.endswith(".capy"):
        return False
    p = os.path.normpath(os.path.join(os.path.dirname(f), s.replace("\\", "/")))
    return p in t.files and (p.startswith(t.cwd + "/") or p.startswith(t.mod + "/"))


def model_line(t):
    fs = []
    for dp, dn, fn in os.walk(t.root):
        fs.append("D" + hx(dp))
        for x in fn:
            fs.append("F" + hx(dp + "/" + x))
    prog = []
    for f in sorted(t.files):
        ds = []
        for kind, arg in t.files[f]:
            if kind in ("I", "M"):
                ds.append(kind + hx(real_string(arg)))
            elif kind in ("IX", "MX"):
                ds.append(kind)
            else:
                ds.append(kind)
        prog.append(hx(f) + "=" + ",".join(ds))
    return "\t".join([hx(t.cwd), hx(t.mod), hx(t.cwd + "/main.capy"), ",".join(fs), ";".join(prog),
                      "1" if MODEL_FIXED else "0"])


def run_capy(capy, t):
    # output capped (a work list that never terminates prints forever): head closes the pipe
    rc, out = C.run(["bash", "-c", "set -o pipefail; '%s' build main.capy --mod-dir ../mods --verbose-hir all "
                     "--color never 2>&1 | head -c 600000" % capy], cwd=t.cwd, timeout=CAPY_TIMEOUT)
    lines = [l for l in out.split("\n") if not l.startswith("split_aggregate")]
    events = []
    res = {}           # file -> {k: ('A', path) | ('M',)}
    diags = {}         # (file, line) -> (kind, path|None)
    cur = None
    pend = None
    for l in lines:
        m = re.match(r"^=== (.*) ===$", l)
        if m:
            cur = m.group(1)
            events.append(cur)
            res.setdefault(cur, {})
            continue
        m = re.match(r"^\S*::i(\d+) :: (.*);$", l)
        if m and cur is not None:
            k = int(m.group(1))
            body = m.group(2)
            m2 = re.match(r'^#import\("(.*)"\)$', body)
            res[cur][k] = ("A", m2.group(1)) if m2 else ("M", body)
            continue
        if l.startswith("error: "):
            pend = None
            for rx, kind in MSG:
                mm = rx.match(l)
                if mm:
                    pend = (kind, mm.group(1) if mm.groups() and kind in ("notfound", "outside") else None)
                    break
            if pend is None:
                pend = ("other:" + l[7:60], None)
            continue
        m = re.match(r"^\s*--> at (.*):(\d+):(\d+)$", l)
        if m and pend is not None:
            fn = m.group(1)
            diags.setdefault((fn, int(m.group(2))), []).append(pend)
            pend = None
    status = "rc%d" % rc
    if rc == 0 and os.path.exists(t.cwd + "/out/main"):
        rc2, _ = C.run([t.cwd + "/out/main"], cwd=t.cwd, timeout=20)
        status = "ran:%d" % rc2
    panicked = any("panicked at" in l for l in lines)
    completed = any(l.startswith("not compiling due to") or l.startswith("Finalizing") for l in lines)
    return {"events": events, "res": res, "diags": diags, "status": status, "panicked": panicked, "completed": completed,
            "tail": "\n".join(lines[-25:])}


def diag_for(t, out, f, line):
    """diagnostics attached to file f / source line; the header shows the path relative to cwd"""
    found = []
    for (fn, ln), ds in out["diags"].items():
        if ln != line:
            continue
        cand = fn if fn.startswith("/") else os.path.normpath(os.path.join(t.cwd, fn))
        if cand == f:
            found += ds
    return found


def one_case(args):
    capy, seed_rng, idx = args
    root = tempfile.mkdtemp(prefix="verif-c28-")
    root = os.path.realpath(root)
    try:
        t = fixed_tree(root) if idx == 0 else gen_tree(seed_rng, root)
        write_tree(t)
        ml = model_line(t)
        out = run_capy(capy, t)
        # the property evaluated on the real file system
        of = {f: [oracle_directive(t, f, k, a) for (k, a) in ds] for f, ds in t.files.items()}
        oracle = {f: [x[0] for x in l] for f, l in of.items()}
        facts = {f: [x[1] for x in l] for f, l in of.items()}
        src = {f: open(f).read() for f in t.files}
        return {"tree": t, "model_line": ml, "out": out, "oracle": oracle, "facts": facts, "src": src, "root": root}
    finally:
        shutil.rmtree(root, ignore_errors=True)


def run(tier, seed):
    fl = Flow("C28", tier, seed, "proof")
    v = fl.v
    fl.proof_stage()
    drv = fl.driver()
    capy = fl.capy()
    if drv and capy:
        _stream(fl, v, tier, drv, capy)
    v.assumptions = [
        "modelled: Ctx::lower_import for #import/#mod (argument shape, .capy suffix, join+path_clean::clean on absolute paths, "
        "is_file / is_dir, SubDir::is_sub_dir_of against mod dir and cwd) and the import work list of compile_file",
        "the file system is an oracle path -> File|Dir without symlinks, stable during the build; OS path semantics "
        "(symlinks, case folding, permissions, non-UTF-8 names, Windows prefixes) are not modelled",
        "string-literal escapes are resolved before the model (generator emits only `\\\\`); lexing/parsing of the directive is C22-C24's subject",
        "`file.name` resolution is type inference (hir_ty) and is only exercised end to end (exit code of main), not modelled",
        "FxHashSet iteration order of the work list is abstracted by a list; the set of compiled files is order independent (theorem), "
        "event order is compared as a multiset",
        "MODEL_FIXED=%s (model variant compared with the code: c_fixed; C28_mod_full is proved for the fixed variant, refuted for the other)" % MODEL_FIXED,
    ]
    return fl.finish()


def _stream(fl, v, tier, drv, capy):
    cov = v.coverage
    n = 260 if tier == "quick" else 2000
    rng = fl.rng.fork("trees")
    jobs = [(capy, rng.fork("t%d" % i), i) for i in range(n)]
    results = C.parallel_map(one_case, jobs)
    model = C.run_lines([drv], [r["model_line"] for r in results], indexed=False)
    diffs = 0
    first = None
    hist = {}
    files_hist = {}
    built = 0
    nontrivial = 0
    dir_cases = 0
    timeouts = [0]
    vc = {}

    def failing(cls, payload):
        if v.classify(cls) is None:
            vc[cls] = vc.get(cls, 0) + 1
            if vc[cls] > 3:
                return
        v.failing(cls, payload)

    for r, m in zip(results, model):
        t, out, oracle = r["tree"], r["out"], r["oracle"]
        root = r["root"]
        rel = lambda p: p[len(root):] if isinstance(p, str) and p.startswith(root) else p
        ctx = {"files": {rel(f): r["src"][f] for f in sorted(t.files)}, "dirs": [rel(d) for d in t.dirs],
               "other_files": [rel(p) for p in t.other], "cwd": "/w", "mod_dir": "/mods",
               "command": "cd w && capy build main.capy --mod-dir ../mods --verbose-hir all --color never"}
        files_hist[len(t.files)] = files_hist.get(len(t.files), 0) + 1
        # ---- model ----
        parts = m.split("|")
        mev = parts[0][2:]
        mres = {}
        for p in parts[1:]:
            fhex, outs = p.split("=", 1)
            mres[bytes.fromhex(fhex).decode()] = [o for o in outs.split(",") if o != ""]
        if mev.startswith("CRASH") or mev == "FUEL":
            mevents = [mev]
        else:
            mevents = [bytes.fromhex(x).decode() for x in mev.split(",") if x]
        ievents = out["events"]
        case_diff = None
        if out["panicked"]:
            case_diff = {"what": "capy panicked", "tail": out["tail"]}
        if sorted(ievents) != sorted(mevents) and case_diff is None:
            case_diff = {"what": "compile events differ", "implementation": [rel(x) for x in ievents],
                         "model": [rel(x) for x in mevents]}
        # ---- did the work list terminate, each file once? ----
        dup = sorted(set(x for x in ievents if ievents.count(x) > 1))
        abnormal = bool(dup) or (not out["completed"] and out["status"] != "rc124")
        if dup:
            failing("file-compiled-more-than-once",
                    dict(ctx, key="dup:" + C.sha(json.dumps(ctx, sort_keys=True)),
                         what="a file is compiled more than once (output capped at 600 kB)",
                         compiled_counts={rel(x): ievents.count(x) for x in dup}, status=out["status"]))
        elif abnormal and not out["panicked"]:
            failing("compilation-did-not-complete",
                    dict(ctx, key="incomplete:" + C.sha(json.dumps(ctx, sort_keys=True)),
                         what="capy stopped before the diagnostics/finalizing phase", status=out["status"], tail=out["tail"][-600:]))
        if abnormal and case_diff is None:
            case_diff = {"what": "compilation did not complete normally", "status": out["status"], "tail": out["tail"][-600:]}
        # ---- per directive ----
        decision_failed = abnormal
        for f in sorted(t.files):
            if f not in ievents:
                continue
            for k, (kind, arg) in enumerate(t.files[f]):
                dir_cases += 1
                got = out["res"].get(f, {}).get(k)
                ds = diag_for(t, out, f, k + 1)
                if got is not None and got[0] == "A":
                    impl = "A" + got[1]
                    if ds:
                        impl += "+diag"
                else:
                    kinds = [d[0] for d in ds]
                    if not kinds and abnormal:
                        continue          # diagnostics were never printed
                    if not kinds:
                        impl = "Rsilent" if got is not None else "?"
                    else:
                        d0 = ds[0]
                        impl = "R" + d0[0] + (":" + d0[1] if d0[1] else "")
                # model
                mo = mres.get(f, [])[k] if k < len(mres.get(f, [])) else "?"
                if mo.startswith("A"):
                    mcanon = "A" + bytes.fromhex(mo[1:]).decode()
                elif ":" in mo:
                    a, b = mo.split(":", 1)
                    mcanon = a + ":" + bytes.fromhex(b).decode()
                else:
                    mcanon = mo
                # non-string args produce a different message: canonicalise
                impl_c = impl
                if mcanon == "Rnonstring" and impl.startswith("Rother:"):
                    impl_c = "Rnonstring"
                hist[mcanon.split(":")[0][:14] if not mcanon.startswith("A") else "accept"] = \
                    hist.get(mcanon.split(":")[0][:14] if not mcanon.startswith("A") else "accept", 0) + 1
                if impl_c != mcanon and case_diff is None:
                    case_diff = {"what": "directive outcome differs", "file": rel(f), "directive": directive_src(k, kind, arg),
                                 "implementation": rel(impl), "model": rel(mcanon)}
                # oracle: accept <-> expected accept (+ same file); a rejection must give a reason that is true
                o = oracle[f][k]
                fc = r["facts"][f][k]
                bad = None
                if impl_c.startswith("A"):
                    if o[0] != "A":
                        bad = "accepted-although-%s" % o[1]
                        if kind == "M" and real_string(arg) == "":
                            bad = "mod-empty-name-accepted"
                    elif impl_c != "A" + o[1]:
                        bad = "import-resolved-to-wrong-file"
                elif impl_c.startswith("R"):
                    ik = impl_c[1:].split(":")[0]
                    ip = impl_c.split(":", 1)[1] if ":" in impl_c else None
                    if o[0] == "A":
                        bad = "rejected-%s-although-acceptable" % ik
                    elif not fc.get(ik, False):
                        bad = "rejection-reason-untrue:%s" % ik
                    elif ip is not None and ip != fc.get("target"):
                        bad = "rejection-names-wrong-file:%s" % ik
                else:
                    bad = "unreadable-outcome"
                if bad:
                    decision_failed = True
                    failing(bad, dict(ctx, key="%s:%s" % (bad, C.sha(json.dumps(ctx, sort_keys=True) + str(k) + f)),
                                      what="an #import/#mod is accepted/rejected/resolved differently from the property",
                                      importer=rel(f), directive=directive_src(k, kind, arg),
                                      implementation=rel(impl), expected=rel(("A" + o[1]) if o[0] == "A" else "reject: " + o[1]),
                                      facts={a: rel(b) for a, b in fc.items()}))
        # ---- oracle: every reachable file exactly once ----
        reach = []
        todo = [t.cwd + "/main.capy"]
        while todo:
            f = todo.pop()
            if f in reach:
                continue
            reach.append(f)
            for o in oracle.get(f, []):
                if o[0] == "A":
                    todo.append(o[1])
        if len(reach) > 1:
            nontrivial += 1
        if not out["panicked"] and not decision_failed and sorted(ievents) != sorted(reach):
            dup = sorted(set(x for x in ievents if ievents.count(x) > 1))
            cls = "file-compiled-more-than-once" if dup else "reachable-set-wrong"
            failing(cls, dict(ctx, key="%s:%s" % (cls, C.sha(json.dumps(ctx, sort_keys=True))),
                              what="the set of compiled files is not the set of files reachable through accepted imports, each once",
                              compiled=[rel(x) for x in ievents], expected=[rel(x) for x in sorted(reach)]))
        # ---- member resolution through the built program ----
        reach_reject = any(o[0] == "R" for f in reach for o in oracle.get(f, []))
        if not reach_reject and not out["panicked"] and not decision_failed:
            acc = [o for o in oracle[t.cwd + "/main.capy"] if o[0] == "A"][:2]
            want = sum((7 ** j) * t.ids[o[1]] for j, o in enumerate(acc)) % 256
            built += 1
            if out["status"] == "rc124":
                timeouts[0] += 1          # machine overloaded: inconclusive, counted in the evidence
            elif out["status"] != "ran:%d" % want:
                if case_diff is None:
                    case_diff = {"what": "exit status differs", "implementation": out["status"], "expected": "ran:%d" % want,
                                 "tail": out["tail"][-800:]}
                failing("member-access-resolves-to-wrong-definition" if out["status"].startswith("ran:") else "valid-import-graph-not-built",
                        dict(ctx, key="member:" + C.sha(json.dumps(ctx, sort_keys=True)),
                             what="main() returns i<k>.id() of its first imports; exit status must be the ids of those files",
                             implementation=out["status"], expected="ran:%d" % want, tail=out["tail"][-800:]))
        if case_diff is not None:
            diffs += 1
            if first is None:
                first = dict(ctx, **case_diff)
    fl.stream("directory trees through the real capy CLI vs model (events, per-directive outcome, exit status)",
              len(results), diffs, first)
    cov["evaluations"] += dir_cases + len(results)
    cov["distinct_nontrivial"] += nontrivial
    cov["directive_outcomes"] = hist
    cov["files_per_tree"] = files_hist
    cov["programs_built_and_run"] = built
    cov["capy_timeouts"] = timeouts[0]
    cov["rule"] = ("%d generated trees (<= 6 .capy files, <= 3 directories below cwd, module dir with good/src-less/"
                   "mod.capy-less modules, outside dir); every directive of every compiled file is one evaluation; "
                   "non-trivial = at least one import is followed (>= 2 files compiled)" % len(results))
    if results:
        r0 = results[0]
        v.add_samples([{"files": {f[len(r0["root"]):]: r0["src"][f] for f in r0["src"]},
                        "compiled": [x[len(r0["root"]):] for x in r0["out"]["events"]], "status": r0["out"]["status"]}])


def replay(path):
    r = json.load(open(path))
    print(json.dumps(r, indent=1, ensure_ascii=False))
    files = r.get("files")
    if files:
        from .. import cargotools
        ok, out, capy = cargotools.build_capy()
        root = os.path.realpath(tempfile.mkdtemp(prefix="verif-c28-"))
        try:
            for d in r.get("dirs", []):
                os.makedirs(root + d, exist_ok=True)
            for p in r.get("other_files", []):
                open(root + p, "w").write("x\n")
            for f, s in files.items():
                os.makedirs(os.path.dirname(root + f), exist_ok=True)
                open(root + f, "w").write(s)
            rc, o = C.run([capy, "build", "main.capy", "--mod-dir", "../mods", "--verbose-hir", "all", "--color", "never"],
                          cwd=root + "/w", timeout=120)
            print("---- capy now (rc %d) ----" % rc)
            print("\n".join(l for l in o.split("\n") if not l.startswith("split_aggregate")).replace(root, ""))
        finally:
            shutil.rmtree(root, ignore_errors=True)
    return 0
