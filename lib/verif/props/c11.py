"""C11 — Switches are exhaustive, non-redundant, and dispatch on the runtime variant (DESIGN.md C11).

Streams (all generated from VERIF_SEED; corpus/C11 first):
  discr      enum declarations with random manual discriminants through the real front end
             (h_c11) vs extracted `assign_discriminants` (Model/Switch.v); oracle: pairwise
             distinct, manual values kept, every discriminant fits the i8 tag.
  front-end  one program per (sum type, switch): real front end vs extracted `check_switch`
             (diagnostic kinds + arm/variant they refer to, or panic); oracle: accepted iff
             extracted `accepted_specb` (arms name only variants, each at most once, all or default).
  e2e        accepted switches compiled by the real `capy` executable, one function per case,
             every variant constructed and passed in; printed arm id + payload vs extracted
             `dispatch` (model of the code generator) and `spec_outcome` (specification).
"""
import json
import os
import re
import subprocess

from .. import common as C
from ..flow import Flow

K1 = "switch-on-distinct-or-variant-wrapped-sum-type-panics"
K2 = "enum-auto-discriminant-exceeds-u8-tag"
K3 = "switch-arm-names-nil-like-type-panics"
K4 = "nullable-pointer-optional-switch-with-default-panics"
K5 = "switch-argument-on-pointer-payload-panics"
KMAP = {"K1": K1, "K3": K3, "K4": K4, "K5": K5}

# Which of the candidate repairs K1..K5 are present in the tree ("10100" = K1 and K3): detected by probing the
# witness of each finding once at the start of a run (or forced with VERIF_C11_FIXED=K1,K3 / =none); selects the
# variant of the model (Model/SwitchFixed.v) the tree is compared with.  A finding whose repair is present is no
# longer a known class: the same failure would then be reported as a VIOLATION.
FX = "00000"

PROBES_FRONT = {
    0: "D :: distinct ?i32;\nf :: (x: D) {\n    switch v in x {\n        i32 => {},\n        nil => {},\n    }\n}\n",
    1: "E :: enum { A | 255, B };\n",
    2: "DN :: distinct nil;\nf :: (x: ?i32) {\n    switch v in x {\n        i32 => {},\n        DN => {},\n    }\n}\n",
}
PROBES_CAPY = {
    3: "f :: (p: ?^i32) {\n    switch p {\n        nil => {},\n        _ => {},\n    }\n}\nmain :: () {\n    f(nil);\n}\n",
    4: "E :: enum { A, G: ^i32 };\nf :: (e: E) {\n    switch v in e {\n        .A => {},\n        .G => {},\n    }\n}\n"
       "main :: () {\n    f(E.A);\n}\n",
}


def detect_fixes(har, capy):
    """probe the tree for each repair; returns (flags string, details)."""
    forced = os.environ.get("VERIF_C11_FIXED")
    if forced is not None:
        names = [x.strip().upper() for x in forced.split(",")]
        return "".join("1" if "K%d" % (i + 1) in names else "0" for i in range(5)), {"forced": forced}
    flags = ["0"] * 5
    det = {}
    if har:
        outs = C.run_lines([har], [PROBES_FRONT[i].encode().hex() for i in (0, 1, 2)], case_timeout=30)
        if len(outs) == 3:
            det["K1"] = outs[0][:200]
            det["K2"] = outs[1][:200]
            det["K3"] = outs[2][:200]
            if "PANIC@" not in outs[0] and not outs[0].startswith("!") and " T:" not in outs[0]:
                flags[0] = "1"
            if "T:IntTooBigForType@" in outs[1]:
                flags[1] = "1"
            if "PANIC@" not in outs[2] and not outs[2].startswith("!") and "T:NotAVariantOfSumType@" in outs[2]:
                flags[2] = "1"
    if capy:
        res = C.parallel_map(build_and_run, [(capy, PROBES_CAPY[3]), (capy, PROBES_CAPY[4])])
        for k, r in zip((3, 4), res):
            det["K%d" % (k + 1)] = "build failed: " + r.get("output", "")[:200] if r.get("build_failed") else "builds and runs rc=%s" % r.get("rc")
            if not r.get("build_failed") and r.get("rc") == 0:
                flags[k] = "1"
    return "".join(flags), det

# ----------------------------------------------------------------------------- type universe
# name -> (capy type expr, atom id, repr, Debug prefix of hir Ty)
TY = {
    "i32": ("i32", 1, "s", "IInt(32)"),
    "u8": ("u8", 2, "s", "UInt(8)"),
    "i64": ("i64", 3, "s", "IInt(64)"),
    "bool": ("bool", 4, "s", "Bool"),
    "char": ("char", 5, "s", "Char"),
    "str": ("str", 6, "s", "String"),
    "f64": ("f64", 7, "s", "Float(64)"),
    "P": ("P", 8, "a", "ConcreteStruct"),
    "arr": ("Arr", 9, "a", "ConcreteArray"),
    "ptr": ("^i32", 10, "p", "Pointer"),
    "u16": ("u16", 11, "s", "UInt(16)"),
    "F": ("F", 12, "a", "Enum"),
}
PAYLOADS = ["i32", "u8", "i64", "bool", "char", "str", "f64", "P", "arr", "ptr", "u16", "F"]
# error unions the declaration check accepts (verified against the front end: no diagnostics)
ERR_PAIRS = [("str", "i32"), ("bool", "P"), ("str", "u8"), ("char", "arr"), ("bool", "ptr"), ("P", "i64"),
             ("str", "bool"), ("F", "i32"), ("bool", "f64"), ("char", "str"), ("P", "arr"), ("str", "F")]


def value(t, j):
    """(capy expression of a value of type t for member j, what printing it shows)."""
    if t == "i32":
        return "%d" % -(5 + j), "-%d" % (5 + j)
    if t == "u8":
        return "%d" % (200 + j), "%d" % (200 + j)
    if t == "i64":
        return "i64.(%d)" % (5000000000 + j), "%d" % (5000000000 + j)
    if t == "bool":
        return ("true", "t") if j % 2 == 0 else ("false", "f")
    if t == "char":
        return "'%s'" % chr(112 + j), chr(112 + j)
    if t == "str":
        return '"s%d"' % j, "s%d\n" % j
    if t == "f64":
        return "%d.5" % j, "%d" % (2 * j + 1)
    if t == "P":
        return "P.{ a = %d, b = %d }" % (30 + j, 4 + j), "%d.%d" % (30 + j, 4 + j)
    if t == "arr":
        return "i16.[8, %d]" % (90 + j), "%d" % (90 + j)
    if t == "ptr":
        return "^q%d" % j, "%d" % (700 + j)
    if t == "u16":
        return "%d" % (60000 + j), "%d" % (60000 + j)
    if t == "F":
        return ("F.(F.Y.(%d))" % (40 + j), "Y%d" % (40 + j)) if j % 2 == 0 else ("F.(F.X)", "X")
    raise KeyError(t)


def show(t, x):
    """capy statements printing expression x (of type t or of a variant type wrapping t)."""
    if t in ("i32", "u8", "i64", "u16"):
        return "pn(i64.(%s.(%s)));" % (TY[t][0], x)
    if t == "bool":
        return "if bool.(%s) { putchar('t'); } else { putchar('f'); }" % x
    if t == "char":
        return "putchar(char.(%s));" % x
    if t == "str":
        return "puts(str.(%s));" % x
    if t == "f64":
        return "pn(i64.(f64.(%s) * 2));" % x
    if t == "P":
        return "pn(i64.(%s.a)); putchar('.'); pn(i64.(%s.b));" % (x, x)
    if t == "arr":
        return "pn(i64.(%s[1]));" % x
    if t == "ptr":
        return "pn(i64.((^i32).(%s)^));" % x
    if t == "F":
        return ("switch w in F.(%s) { .X => putchar('X'), .Y => { putchar('Y'); pn(i64.(i32.(w))); }, }" % x)
    raise KeyError(t)


PRELUDE = """putchar :: (c: char) extern;
puts :: (s: str) -> i32 extern;
pn :: (n: i64) {
    if n < 0 { putchar('-'); pn(-n); return; }
    if n >= 10 { pn(n / 10); }
    putchar(char.(u8.(48 + n % 10)));
}
P :: struct { a: i32, b: u8 };
F :: enum { X, Y: i32 };
Arr :: [2]i16;
G :: enum { U, V: u8 };
DN :: distinct nil;
"""

# ----------------------------------------------------------------------------- cases
# sum type:  {"kind": "enum", "variants": [(payload|None, manual|None)]}
#            {"kind": "opt", "sub": t} | {"kind": "err", "e": t, "p": t}
# wraps:     list of "d" (distinct) / "v" (variant of another enum)
# arms:      ("S", j) shorthand of member j | ("F", j) fully-qualified member j
#            | ("SX",) unknown shorthand | ("FT", t) other type t | ("FG",) variant of another enum
#            | ("FN",) distinct nil | ("NT",) not a type | ("D",) default arm (position matters)


def members(st):
    if st["kind"] == "enum":
        return [p for p, _ in st["variants"]]
    if st["kind"] == "opt":
        return [st["sub"], "nil"]
    return [st["e"], st["p"]]


def gen_sum(r):
    k = r.below(100)
    if k < 60:
        n = r.range(1, 6)
        vs = []
        for _ in range(n):
            p = r.choice(PAYLOADS) if r.chance(2, 3) else None
            m = None
            if r.chance(1, 4):
                m = r.choice([0, 1, 2, 3, 5, 7, 9, 20, 100, 250, 253, 254, 255])
            vs.append((p, m))
        return {"kind": "enum", "variants": vs}
    if k < 82:
        return {"kind": "opt", "sub": r.choice(PAYLOADS)}
    e, p = r.choice(ERR_PAIRS)
    return {"kind": "err", "e": e, "p": p}


def gen_switch(r, st, clean):
    """clean: generate a switch the specification accepts (for the end-to-end stream)."""
    mem = members(st)
    n = len(mem)
    is_enum = st["kind"] == "enum"
    order = list(range(n))
    r.shuffle(order)
    keep = r.range(0, n)
    if r.chance(1, 2):
        keep = n
    chosen = order[:keep]
    arms = []
    for j in chosen:
        arms.append(("S", j) if (is_enum and r.chance(1, 2)) else ("F", j))
    dflt = r.chance(1, 2) or (clean and keep < n)
    if not clean:
        x = r.below(100)
        if x < 22 and arms:      # duplicate
            j = r.choice(chosen)
            arms.insert(r.below(len(arms) + 1), ("S", j) if (is_enum and r.chance(1, 2)) else ("F", j))
        if 15 < x < 30:          # foreign arm
            y = r.below(6)
            if y == 0:
                arms.insert(r.below(len(arms) + 1), ("SX",))
            elif y == 1:
                arms.insert(r.below(len(arms) + 1), ("FG",))
            elif y == 2:
                arms.insert(r.below(len(arms) + 1), ("FN",))
            elif y == 3 and not is_enum:
                arms.insert(r.below(len(arms) + 1), ("S", 0))
            elif y == 4:
                arms.insert(r.below(len(arms) + 1), ("NT",))
            else:
                cands = [t for t in PAYLOADS + ["nil"] if t not in mem]
                arms.insert(r.below(len(arms) + 1), ("FT", r.choice(cands)))
        if x >= 92 and not dflt and keep == n and arms:   # drop one: non-exhaustive
            arms.pop(r.below(len(arms)))
    if dflt:
        pos = len(arms)
        if not clean and r.chance(1, 12):
            pos = r.below(len(arms) + 1)
        arms.insert(pos, ("D",))
        if not clean and r.chance(1, 25):
            arms.insert(r.below(len(arms) + 1), ("D",))
    return arms, r.chance(2, 3)


def gen_case(r, clean):
    st = gen_sum(r)
    wraps = []
    if not clean and r.chance(1, 8):
        wraps = [r.choice(["d", "d", "v"])]
        if r.chance(1, 4):
            wraps.append("d")
    arms, with_arg = gen_switch(r, st, clean)
    return {"sum": st, "wraps": wraps, "arms": arms, "with_arg": with_arg}


def ty_expr(st, idx):
    if st["kind"] == "enum":
        return "E%d" % idx
    if st["kind"] == "opt":
        return "?" + TY[st["sub"]][0]
    return "%s!%s" % (TY[st["e"]][0], TY[st["p"]][0])


def member_expr(st, idx, j):
    if st["kind"] == "enum":
        return "E%d.%s" % (idx, "ABCDEF"[j])
    t = members(st)[j]
    return "nil" if t == "nil" else TY[t][0]


def decls(case, idx):
    st = case["sum"]
    out = []
    if st["kind"] == "enum":
        vs = []
        for k, (p, m) in enumerate(st["variants"]):
            s = "ABCDEF"[k]
            if p is not None:
                s += ": " + TY[p][0]
            if m is not None:
                s += " | %d" % m
            vs.append(s)
        out.append("E%d :: enum { %s };" % (idx, ", ".join(vs)))
    t = ty_expr(st, idx)
    if case["wraps"] and st["kind"] != "enum":
        out.append("T%d :: %s;" % (idx, t))        # a name for the sum type (needed to cast values into it)
        t = "T%d" % idx
    for k, w in enumerate(case["wraps"]):
        if w == "d":
            out.append("W%d_%d :: distinct %s;" % (idx, k, t))
            t = "W%d_%d" % (idx, k)
        else:
            out.append("W%d_%d :: enum { W: %s, V };" % (idx, k, t))
            t = "W%d_%d.W" % (idx, k)
    return out, t


def arm_variant_text(case, idx, a):
    k = a[0]
    if k == "S":
        return ".%s" % "ABCDEF"[a[1]]
    if k == "F":
        return member_expr(case["sum"], idx, a[1])
    if k == "SX":
        return ".Zz"
    if k == "FT":
        return "nil" if a[1] == "nil" else TY[a[1]][0]
    if k == "FG":
        return "G.V"
    if k == "FN":
        return "DN"
    if k == "NT":
        return "5"
    return "_"


def regular_arms(case):
    return [a for a in case["arms"] if a[0] != "D"]


def lowering_expect(case):
    """spec of Ctx::lower_switch: diagnostics for default arms."""
    out = []
    seen = False
    for a in case["arms"]:
        if a[0] == "D":
            if seen:
                out.append("MultipleDefaultArms")
            seen = True
        elif seen:
            out.append("RegularArmAfterDefault")
    return out


def frontend_source(case, idx=0):
    """Program for the front-end stream (empty arm bodies); returns text, start offsets of the arm
    variants (regular arms only, in order), offset of the switch."""
    ds, t = decls(case, idx)
    text = PRELUDE + "\n".join(ds) + "\n"
    text += "f :: (x: %s) {\n    " % t
    sw = len(text)
    text += "switch %sx {\n" % ("v in " if case["with_arg"] else "")
    starts = []
    for a in case["arms"]:
        text += "        "
        if a[0] != "D":
            starts.append(len(text))
        text += arm_variant_text(case, idx, a) + " => {},\n"
    text += "    }\n}\n"
    return text, starts, sw


def vty_tok(t):
    if t == "nil":
        return "n"
    return "o%d%s" % (TY[t][1], TY[t][2])


def model_line(case):
    st = case["sum"]
    toks = ["S", "fx=" + FX, str(len(case["wraps"]))]
    for k, w in enumerate(case["wraps"]):
        toks.append("%s%d" % (w, 50 + k))
    if st["kind"] == "enum":
        toks += ["E", "5", str(len(st["variants"]))]
        for k, (p, m) in enumerate(st["variants"]):
            toks += [str(10 + k), str(k), str(TY[p][1] if p else 0), "0", TY[p][2] if p else "z",
                     "-" if m is None else str(m)]
    elif st["kind"] == "opt":
        toks += ["O", vty_tok(st["sub"])]
    else:
        toks += ["R", vty_tok(st["e"]), vty_tok(st["p"])]
    arms = regular_arms(case)
    toks.append(str(len(arms)))
    mem = members(st)
    for a in arms:
        k = a[0]
        if k == "S":
            toks.append("S:%d" % (10 + a[1]))
        elif k == "F":
            toks.append("V:%d" % a[1] if st["kind"] == "enum" else "F:" + vty_tok(mem[a[1]]))
        elif k == "SX":
            toks.append("S:99")
        elif k == "FT":
            toks.append("F:" + vty_tok(a[1]))
        elif k == "FG":
            toks.append("F:v77.1.1.2.0.s.1")
        elif k == "FN":
            toks.append("F:dn4")
        elif k == "NT":
            toks.append("T")
    toks.append("1" if any(a[0] == "D" for a in case["arms"]) else "0")
    toks.append("1" if case["with_arg"] else "0")
    return " ".join(toks)


def parse_kv(line):
    d = {}
    for part in line.split(" "):
        if "=" in part:
            k, val = part.split("=", 1)
            d[k] = val
    return d


# ----------------------------------------------------------------------------- front-end results
REL_KINDS = {"NotAShorthandVariantOfSumType": "Z", "NotAVariantOfSumType": "N",
             "SwitchAlreadyCoversVariant": "A", "SwitchDoesNotCoverVariant": "M"}


def member_index_from_debug(case, dbg, discr):
    """which member of the sum type a SwitchDoesNotCoverVariant diagnostic talks about."""
    m = re.match(r"SwitchDoesNotCoverVariant\{ty:(.*)\}$", dbg)
    body = m.group(1) if m else dbg
    st = case["sum"]
    if st["kind"] == "enum":
        ds = re.findall(r"discriminant:(\d+)", body)
        if not ds or discr is None:
            return "?"
        d = int(ds[-1])
        return str(discr.index(d)) if d in discr else "?"
    mem = members(st)
    for j, t in enumerate(mem):
        pre = "Nil" if t == "nil" else TY[t][3]
        if body.startswith(pre):
            return str(j)
    return "?"


def canon_impl(case, out, starts, discr):
    """harness output -> (token comparable with the model's check=, lowering kinds, panic text, other diags)."""
    toks = out.split(" ")
    if out.startswith("!") or len(toks) < 3:
        return "DIED", [], out, []
    lower = [t[2:].split("@")[0] for t in toks if t.startswith("L:")]
    panic = next((t for t in toks if t.startswith("PANIC@")), None)
    other = []
    if toks[0] != "S0" or toks[1] != "V0" or toks[2] != "I0":
        other.append(" ".join(toks[:3]))
    if panic:
        return "CRASH", lower, panic, other
    res = []
    shorts = [i for i, a in enumerate(regular_arms(case)) if a[0] in ("S", "SX")]
    nh = 0
    for t in toks:
        if not t.startswith("T:"):
            continue
        kind, start, dbg = (t[2:].split("@", 2) + ["", ""])[:3]
        start = int(start) if start.isdigit() else -1
        if kind in ("NotAShorthandVariantOfSumType", "NotAVariantOfSumType", "SwitchAlreadyCoversVariant"):
            res.append(REL_KINDS[kind] + (str(starts.index(start)) if start in starts else "?"))
        elif kind == "SwitchDoesNotCoverVariant":
            res.append("M" + member_index_from_debug(case, dbg, discr))
        elif kind == "Mismatch" and "expected:SumType" in dbg:
            res.append("Ss")
        elif kind == "Mismatch" and "expected:Enum" in dbg:
            res.append("H%s" % (shorts[nh] if nh < len(shorts) else "?"))
            nh += 1
        elif kind == "Mismatch" and "expected:Concrete(Type)" in dbg:
            res.append("T" + (str(starts.index(start)) if start in starts else "?"))
        else:
            other.append(kind)
    return "OK:" + ",".join(res), lower, None, other


# ----------------------------------------------------------------------------- e2e programs
def e2e_functions(case, idx):
    """declarations + switch function f<idx> + reference function r<idx>."""
    st = case["sum"]
    ds, t = decls(case, idx)
    mem = members(st)
    tagged_ptr = any(m == "ptr" for m in mem) and not (st["kind"] == "opt")
    lines = list(ds)
    # ref_arg: None = no reference function (enum with a discriminant > 255: a full switch cannot be compiled),
    #          False = reference prints the member letter only (a pointer payload cannot be bound, K5)
    ref_arg = None if case.get("_noref") else (not tagged_ptr)
    has_default = any(a[0] == "D" for a in case["arms"])
    if ref_arg is not None and has_default and case["with_arg"]:
        # reference: full switch in declaration order, prints member letter (+ payload)
        lines.append("r%d :: (x: %s) {" % (idx, t))
        lines.append("    switch %sx {" % ("v in " if ref_arg else ""))
        for j, m in enumerate(mem):
            body = "putchar('%s');" % "ABCDEF"[j]
            if ref_arg and m not in (None, "nil"):
                body += " " + show(m, "v")
            lines.append("        %s => { %s }," % (member_expr(st, idx, j), body))
        lines.append("    }")
        lines.append("}")
    lines.append("f%d :: (x: %s) {" % (idx, t))
    lines.append("    switch %sx {" % ("v in " if case["with_arg"] else ""))
    i = 0
    for a in case["arms"]:
        if a[0] == "D":
            body = "putchar('D');"
            if case["with_arg"] and ref_arg is not None:
                body += " r%d(v);" % idx
            lines.append("        _ => { %s }," % body)
        else:
            j = a[1]
            body = "putchar('%s');" % chr(97 + i)
            if case["with_arg"] and mem[j] not in (None, "nil"):
                body += " " + show(mem[j], "v")
            lines.append("        %s => { %s }," % (arm_variant_text(case, idx, a), body))
            i += 1
    lines.append("    }")
    lines.append("}")
    return lines, ref_arg


def construct(case, idx, j):
    st = case["sum"]
    m = members(st)[j]
    if st["kind"] == "enum":
        e = "E%d.%s" % (idx, "ABCDEF"[j]) if m is None else "E%d.%s.(%s)" % (idx, "ABCDEF"[j], value(m, j)[0])
        inner = "E%d.(%s)" % (idx, e)
    else:
        e = "nil" if m == "nil" else value(m, j)[0]
        inner = "T%d.(%s)" % (idx, e)
    if not case["wraps"]:
        return e
    # value of the wrapped type: cast into the sum type, then into every wrapper
    x = inner
    for k, w in enumerate(case["wraps"]):
        x = ("W%d_%d.(%s)" if w == "d" else "W%d_%d.W.(%s)") % (idx, k, x)
    return x


def expected_output(case, outcome, j, ref_arg):
    """what the program prints for member j when `outcome` (model/spec notation) happens."""
    mem = members(case["sum"])
    pay = "" if mem[j] in (None, "nil") else value(mem[j], j)[1]
    if outcome == "d":
        s = "D"
        if case["with_arg"] and ref_arg is not None:
            s += "ABCDEF"[j] + (pay if ref_arg else "")
        return s
    m = re.match(r"a(\d+):", outcome)
    if m:
        i = int(m.group(1))
        reg = regular_arms(case)
        ji = reg[i][1] if i < len(reg) else j
        if ji == j:
            return chr(97 + i) + (pay if case["with_arg"] else "")
        # an arm for another member runs (tag collision): its payload printer reads this member's bytes
        return chr(97 + i) + ("*" if case["with_arg"] and mem[ji] not in (None, "nil") else "")
    return "<%s>" % outcome


def e2e_program(cases_idx):
    """cases_idx: list of (case, idx). One program; output: per case, per member 'text;' then '\\n'."""
    lines = [PRELUDE]
    main = ["main :: () {"]
    for k in range(6):
        main.append("    q%d : i32 = %d;" % (k, 700 + k))
    refs = {}
    for case, idx in cases_idx:
        fl, ref_arg = e2e_functions(case, idx)
        refs[idx] = ref_arg
        lines += fl
        for j in range(len(members(case["sum"]))):
            main.append("    f%d(%s); putchar(';');" % (idx, construct(case, idx, j)))
        main.append("    putchar('|');")
    # the cast of a variant into its enum stores the tag with an 8-byte store (known C02 defect), which can
    # overflow the stack slot of the value; a trailing slot keeps that out of the way of this property
    main.append("    zz : [4]u64 = u64.[0, 0, 0, 0];")
    main.append("}")
    return "\n".join(lines + main) + "\n", refs


def build_and_run(args):
    capy, src = args
    with C.scratch("verif-c11-") as d:
        open(os.path.join(d, "p.capy"), "w").write(src)
        env = dict(os.environ)
        env["RUST_BACKTRACE"] = "0"
        rc, out = C.run([capy, "build", "p.capy", "--mod-dir", C.REPO], cwd=d, timeout=300, env=env)
        exe = os.path.join(d, "out", "p")
        if rc != 0 or not os.path.exists(exe) or "panicked at" in out:
            msg = [l for l in out.split("\n") if "panicked at" in l or l.startswith("error") or "assert" in l
                   or "does not fit" in l or "unreachable" in l]
            return {"build_failed": True, "rc": rc, "panic": "panicked at" in out, "output": "\n".join(msg)[-1500:]}
        try:
            p = subprocess.run([exe], stdout=subprocess.PIPE, stderr=subprocess.DEVNULL, timeout=30)
            return {"rc": p.returncode, "stdout": p.stdout.decode("latin-1")}
        except subprocess.TimeoutExpired as e:
            return {"rc": 124, "stdout": (e.stdout or b"").decode("latin-1")}


def same(got, exp):
    """printed text vs expectation ('*' at the end of the expectation: unpredictable payload text)."""
    if exp.endswith("*"):
        return got.startswith(exp[:-1])
    return got == exp


def has_big_discr(discr):
    return discr is not None and any(d > 255 for d in discr)


def corpus_cases():
    res = []
    d = os.path.join(C.CORPUS, "C11")
    if os.path.isdir(d):
        for f in sorted(os.listdir(d)):
            if f.endswith(".json"):
                for c in json.load(open(os.path.join(d, f))).get("cases", []):
                    c["arms"] = [tuple(a) for a in c["arms"]]
                    if c["sum"]["kind"] == "enum":
                        c["sum"]["variants"] = [tuple(x) for x in c["sum"]["variants"]]
                    res.append(c)
    return res


def features(case):
    st = case["sum"]
    arms = regular_arms(case)
    return {"kind": st["kind"], "n": len(members(st)), "arms": len(arms),
            "dflt": any(a[0] == "D" for a in case["arms"]), "wrapped": bool(case["wraps"]),
            "manual": st["kind"] == "enum" and any(m is not None for _, m in st["variants"])}


def bump(h, k):
    h[str(k)] = h.get(str(k), 0) + 1


# ----------------------------------------------------------------------------- run
def run(tier, seed):
    fl = Flow("C11", tier, seed, "proof")
    v = fl.v
    fl.proof_stage()
    drv = fl.driver()
    har = fl.harness("h_c11")
    capy = fl.capy()
    hist = {"sum_kind": {}, "members": {}, "arms": {}, "frontend_outcome": {}, "e2e_outcome": {},
            "known_class": {}}
    import time
    global FX
    FX, det = detect_fixes(har, capy)
    v.coverage["repairs_detected_K1_to_K5"] = FX
    v.coverage["repair_probes"] = det
    v.coverage["model_in_force"] = ("Model/Switch.v (faithful model, no repair present)" if FX == "00000" else
                                    "Model/SwitchFixed.v with fixes %s (= Model/Switch.v for the repairs not present)" % FX)
    t0 = time.time()
    if drv and har:
        stream_discr(fl, drv, har, tier, hist)
        t1 = time.time()
        stream_frontend(fl, drv, har, tier, hist)
        v.coverage["timing_s"] = {"discr": round(t1 - t0, 1), "front-end": round(time.time() - t1, 1)}
    t2 = time.time()
    if drv and capy:
        stream_e2e(fl, drv, capy, tier, hist)
        v.coverage.setdefault("timing_s", {})["e2e"] = round(time.time() - t2, 1)
    v.coverage["histograms"] = hist
    v.coverage["rule"] = (
        "discr: enum declarations (1..6 variants, manual discriminants from {0..9,20,100,250..255} incl. duplicates) through "
        "the real front end vs extracted assign_discriminants; non-trivial = has a manual discriminant. "
        "front-end: one program per generated (sum type, switch): enums <=6 variants with payloads of 12 types and custom "
        "discriminants, optionals, error unions, distinct / variant wrappers; arms = arbitrary subset in any order, duplicates, "
        "shorthand and fully-qualified, foreign types / unknown shorthands / distinct nil / non-types, default arm anywhere; "
        "real diagnostics (kind + arm / variant) or panic vs extracted check_switch, acceptance vs extracted accepted_specb; "
        "non-trivial = at least one arm and (duplicate, foreign, missing, default or wrapper). "
        "e2e: spec-accepted switches, batches of 40 functions per program compiled by capy, every variant passed in, "
        "printed arm letter + payload vs extracted dispatch (model) and spec_outcome; non-trivial = >= 2 members")
    v.assumptions = [
        "types are abstracted to atoms (identity + representation class); Intern<Ty> equality = atom equality is trusted for "
        "the 12 generated payload types (exercised by the front-end stream)",
        "arm bodies are not modelled (SwitchMismatch / weak type replacement out of scope: all generated bodies are void)",
        "Cranelift Switch::emit is modelled as an exact lookup table (+ its documented panics); its lowering is exercised "
        "end to end only",
        "payload binding is modelled as a kind (load / address / pointer / none) at offset 0; the bytes are checked end to "
        "end only (layout is C17)",
        "enum_layout().is_some() <-> is_tagged_union() (layout.rs) is trusted",
        "the tag store of a cast (8-byte iconst, C02) is visible as discriminant mod 256 through the i8 load of the switch",
        "lower_switch (MultipleDefaultArms / RegularArmAfterDefault) is compared with a direct Python specification, not a Coq model",
        "manual discriminants < 2^64 - 1 - (number of variants): u64 overflow panics are modelled as Crash but not generated",
    ]
    return fl.finish()


def stream_discr(fl, drv, har, tier, hist):
    v = fl.v
    r = fl.rng.fork("discr")
    n = 300 if tier == "quick" else 4000
    cases = [[255, None, None], [None, None, 7, None, 1, 7, None], [254, None], [None] * 6, [3, 3, 3]]
    for _ in range(n):
        k = r.range(1, 6)
        ms = []
        for _ in range(k):
            ms.append(r.choice([0, 1, 2, 3, 4, 5, 6, 7, 8, 9, 20, 100, 250, 251, 252, 253, 254, 255])
                      if r.chance(2, 5) else None)
        cases.append(ms)
    srcs = []
    for ms in cases:
        vs = ", ".join("ABCDEFGHIJ"[i] + ("" if m is None else " | %d" % m) for i, m in enumerate(ms))
        srcs.append("E :: enum { %s };\ng :: (x: E) {\n    switch x {}\n}\n" % vs)
    impl = C.run_lines([har], [s.encode().hex() for s in srcs], case_timeout=20)
    model = C.run_lines([drv], ["D fx=" + FX + " " + " ".join("-" if m is None else str(m) for m in ms) for ms in cases], indexed=False)
    if len(impl) != len(cases) or len(model) != len(cases):
        fl.broken.append({"what": "discr stream: tool output length mismatch", "impl": len(impl), "model": len(model)})
        return
    diffs = 0
    first = None
    nontriv = set()
    for ms, src, out, mo in zip(cases, srcs, impl, model):
        toks = out.split(" ")
        got = []
        ndup = 0
        nbig = 0
        for t in toks:
            if t.startswith("T:SwitchDoesNotCoverVariant@"):
                ds = re.findall(r"discriminant:(\d+)", t)
                got.append(int(ds[-1]) if ds else -1)
            elif t.startswith("T:DiscriminantUsedAlready@"):
                ndup += 1
            elif t.startswith("T:IntTooBigForType@"):
                nbig += 1
        panic = next((t for t in toks if t.startswith("PANIC@")), None)
        impl_c = "PANIC" if panic else "OK %s ; dups %d ; big %d" % (" ".join(map(str, got)), ndup, nbig)
        mm = re.match(r"OK (.*) ; dups(.*) ; big(.*)$", mo)
        model_c = ("OK %s ; dups %d ; big %d" % (mm.group(1).strip(), len(mm.group(2).split()), len(mm.group(3).split()))) \
            if mm else ("PANIC" if mo.startswith("CRASH") else mo)
        payload = {"key": "discr:" + C.sha(src), "stream": "discr", "manual_discriminants": ms, "source": src,
                   "implementation": impl_c, "model": model_c}
        if any(m is not None for m in ms):
            nontriv.add(C.sha(src))
        if impl_c != model_c:
            diffs += 1
            first = first or payload
        if panic:
            v.failing("enum-declaration-panics", payload)
            continue
        # direct oracle on the implementation's discriminants
        if len(got) != len(ms) or len(set(got)) != len(got):
            v.failing("enum-discriminants-not-distinct", dict(payload, spec="pairwise distinct, one per variant"))
        seen = set()
        for m, g in zip(ms, got):
            if m is not None and m not in seen:
                seen.add(m)
                if g != m:
                    v.failing("enum-manual-discriminant-not-kept", dict(payload, spec="manual value kept"))
        if any(g > 255 for g in got) and nbig == 0:
            # (a declaration that is reported as too big is rejected: nothing of it reaches the tag)
            # narrow syntactic class: a manual discriminant within (number of variants) of 256
            cls = K2 if any(m is not None and m + len(ms) > 255 for m in ms) else "enum-discriminant-exceeds-u8:unexplained"
            v.failing(cls, dict(payload, spec="every discriminant < 256 (the tag is loaded as i8)"))
    fl.stream("discriminants: front end vs assign_discriminants", len(cases), diffs, first)
    v.coverage["evaluations"] += len(cases)
    v.coverage["distinct_nontrivial"] += len(nontriv)
    v.add_samples([{"stream": "discr", "manual": cases[6], "implementation": impl[6]}])


def is_nontrivial(case):
    kinds = [a[0] for a in case["arms"]]
    reg = regular_arms(case)
    named = [a[1] for a in reg if a[0] in ("S", "F")]
    return bool(reg) and (len(named) != len(set(named)) or any(k in ("SX", "FT", "FG", "FN", "NT", "D") for k in kinds)
                          or len(set(named)) < len(members(case["sum"])) or bool(case["wraps"]))


def stream_frontend(fl, drv, har, tier, hist):
    v = fl.v
    r = fl.rng.fork("frontend")
    n = 4000 if tier == "quick" else 40000
    cases = corpus_cases()
    ncorpus = len(cases)
    for _ in range(n):
        cases.append(gen_case(r, clean=r.chance(1, 5)))
    srcs = [frontend_source(c) for c in cases]
    impl = C.run_lines([har], [s[0].encode().hex() for s in srcs], case_timeout=20)
    model = C.run_lines([drv], [model_line(c) for c in cases], indexed=False)
    if len(impl) != len(cases) or len(model) != len(cases):
        fl.broken.append({"what": "front-end stream: tool output length mismatch", "impl": len(impl), "model": len(model)})
        return
    diffs = 0
    first = None
    nontriv = set()
    for c, (src, starts, sw), out, mo in zip(cases, srcs, impl, model):
        if mo.startswith("ERROR") or mo.startswith("!"):
            fl.broken.append({"what": "model driver failed", "input": model_line(c), "output": mo})
            continue
        m = parse_kv(mo)
        discr = [int(x) for x in m["discr"].split(",")] if m["discr"] != "-" else None
        got, lower, panic, other = canon_impl(c, out, starts, discr)
        ft = features(c)
        bump(hist["sum_kind"], ft["kind"] + ("+wrapped" if ft["wrapped"] else ""))
        bump(hist["members"], ft["n"])
        bump(hist["arms"], ft["arms"])
        lexp = lowering_expect(c)
        dup_manual = False
        if c["sum"]["kind"] == "enum":
            ms = [x for _, x in c["sum"]["variants"] if x is not None]
            dup_manual = len(ms) != len(set(ms))
        big_decl = m.get("big", "0") != "0"
        other = [o for o in other if not (o == "DiscriminantUsedAlready" and dup_manual)
                 and not (o == "IntTooBigForType" and big_decl)]
        dup_manual = dup_manual or big_decl      # the declaration itself is rejected
        mcheck = "CRASH" if m["check"].startswith("CRASH") else m["check"]
        key = C.sha(src)
        if is_nontrivial(c):
            nontriv.add(key)
        payload = {"key": "fe:" + key, "stream": "front-end", "case": c, "source": src, "model_input": model_line(c),
                   "implementation": got, "implementation_panic": panic, "lowering_diagnostics": lower,
                   "other_diagnostics": other, "model": m["check"], "spec_accepts": m["spec"] == "1",
                   "known_class_flag": m["kcheck"]}
        # correspondence: model of the checker vs the real front end
        if got != mcheck or other or sorted(lower) != sorted(lexp):
            diffs += 1
            first = first or payload
        # direct oracle: accepted iff the specification accepts
        impl_accepts = (got == "OK:" and not lower and not other and not dup_manual)
        spec_accepts = (m["spec"] == "1" and not lexp and not dup_manual
                        and not any(a[0] == "NT" for a in c["arms"]))
        outcome = "panic" if got == "CRASH" else ("accepted" if impl_accepts else "rejected")
        bump(hist["frontend_outcome"], outcome + ("/spec-accepts" if spec_accepts else "/spec-rejects"))
        if got == "CRASH" or got == "DIED":
            flag = m["kcheck"]
            if flag in ("K1", "K3") and panic and "globals.rs" in panic and "unreachable" in panic:
                bump(hist["known_class"], flag)
                v.failing(KMAP[flag], payload)
            else:
                v.failing("switch-check-panics:unexplained", payload)
        elif impl_accepts and not spec_accepts:
            v.failing("switch-accepted-but-not-exhaustive-or-redundant-or-foreign", payload)
        elif spec_accepts and not impl_accepts:
            v.failing("acceptable-switch-rejected", payload)
    fl.stream("front end: diagnostics of the real checker vs check_switch", len(cases), diffs, first)
    v.coverage["evaluations"] += len(cases)
    v.coverage["distinct_nontrivial"] += len(nontriv)
    v.coverage["corpus_cases"] = ncorpus
    v.add_samples([{"stream": "front-end", "model_input": model_line(cases[i]), "implementation": impl[i],
                    "model": model[i]} for i in range(ncorpus, min(len(cases), ncorpus + 3))])


def stream_e2e(fl, drv, capy, tier, hist):
    v = fl.v
    r = fl.rng.fork("e2e")
    n = 640 if tier == "quick" else 8000
    per = 40
    cases = list(corpus_cases())
    # hand-picked shapes that must always be present
    cases.append({"sum": {"kind": "enum", "variants": [(None, 255), (None, 0), ("i32", None)]}, "wraps": [],
                  "arms": [("S", 1), ("D",)], "with_arg": True})
    cases.append({"sum": {"kind": "enum", "variants": [(None, 255), (None, None), (None, None)]}, "wraps": [],
                  "arms": [("S", 0), ("S", 1), ("S", 2)], "with_arg": False})
    cases.append({"sum": {"kind": "opt", "sub": "ptr"}, "wraps": [], "arms": [("F", 1), ("D",)], "with_arg": False})
    cases.append({"sum": {"kind": "opt", "sub": "ptr"}, "wraps": [], "arms": [("F", 1), ("F", 0)], "with_arg": True})
    cases.append({"sum": {"kind": "enum", "variants": [(None, None), ("ptr", None)]}, "wraps": [],
                  "arms": [("S", 0), ("S", 1)], "with_arg": True})
    for _ in range(n):
        c = gen_case(r, clean=True)
        if FX[0] == "1" and r.chance(1, 4):
            # K1 repaired: switches over distinct / variant wrappers are accepted and must dispatch
            c["wraps"] = [r.choice(["d", "d", "v"])] + (["d"] if r.chance(1, 4) else [])
        cases.append(c)
    if FX[0] != "1":
        cases = [c for c in cases if not c["wraps"]]
    model = C.run_lines([drv], [model_line(c) for c in cases], indexed=False)
    if len(model) != len(cases):
        fl.broken.append({"what": "e2e stream: model output length mismatch"})
        return
    good = []     # (case, parsed model)  compiled in batches
    crashy = []   # model predicts a compiler panic: compiled one by one
    for c, mo in zip(cases, model):
        if mo.startswith("ERROR") or mo.startswith("!"):
            fl.broken.append({"what": "model driver failed", "input": model_line(c), "output": mo})
            continue
        m = parse_kv(mo)
        if m["check"] != "OK:" or m["spec"] != "1" or lowering_expect(c):
            continue          # not an accepted switch (corpus case of the front-end stream)
        if c["sum"]["kind"] == "enum":
            ms = [x for _, x in c["sum"]["variants"] if x is not None]
            if len(ms) != len(set(ms)):
                continue      # DiscriminantUsedAlready: the declaration itself is rejected
        if m.get("big", "0") != "0":
            continue          # too-big discriminant reported (K2 repaired): the declaration is rejected
        if m["discr"] != "-" and any(int(x) > 255 for x in m["discr"].split(",")):
            c["_noref"] = True
        (crashy if m["comp"].startswith("CRASH") else good).append((c, m))
    batches = [good[i:i + per] for i in range(0, len(good), per)]
    progs = [e2e_program([(c, k) for k, (c, _) in enumerate(b)]) for b in batches]
    results = C.parallel_map(build_and_run, [(capy, p[0]) for p in progs])
    diffs = 0
    first = None
    ncase = 0
    nontriv = set()

    def judge(c, m, idx, text, ref_arg, src_of):
        """compare the printed text of one case with model and spec."""
        nonlocal diffs, first, ncase
        parts = text.split(";")
        mem = members(c["sum"])
        disp = m["disp"].split(",")
        sdisp = m["sdisp"].split(",")
        discr = [int(x) for x in m["discr"].split(",")] if m["discr"] != "-" else None
        for j in range(len(mem)):
            got = parts[j] if j < len(parts) else "<missing>"
            em = expected_output(c, disp[j], j, ref_arg)
            es = expected_output(c, sdisp[j], j, ref_arg)
            ncase += 1
            bump(hist["e2e_outcome"], "default" if sdisp[j] == "d" else "arm")
            payload = {"key": "e2e:%s:%d" % (C.sha(model_line(c)), j), "stream": "e2e", "case": c, "member": j,
                       "model_input": model_line(c), "implementation": got, "model": em, "spec": es,
                       "model_outcome": disp[j], "spec_outcome": sdisp[j], "source": src_of()}
            if not same(got, em):
                diffs += 1
                first = first or payload
            if not same(got, es):
                if has_big_discr(discr) and same(got, em):
                    v.failing(K2, payload)
                else:
                    v.failing("wrong-arm-or-payload:unexplained", payload)

    for b, (src, refs), res in zip(batches, progs, results):
        if res.get("build_failed") or res.get("rc", 0) != 0:
            # the batch does not build or dies at run time: find the culprit(s) by running every case on its own
            key = "e2e_batches_not_built" if res.get("build_failed") else "e2e_batches_died_at_run_time_rerun_case_by_case"
            v.coverage[key] = v.coverage.get(key, 0) + 1
            singles = [e2e_program([(c, 0)]) for c, _ in b]
            sres = C.parallel_map(build_and_run, [(capy, s[0]) for s in singles])
            for (c, m), (ssrc, srefs), sr in zip(b, singles, sres):
                if sr.get("build_failed"):
                    ncase += 1
                    diffs += 1
                    payload = {"key": "e2e-build:" + C.sha(model_line(c)), "stream": "e2e", "case": c,
                               "model_input": model_line(c), "implementation": "capy build failed: " + sr["output"],
                               "model": "compiles (comp=%s)" % m["comp"], "source": ssrc}
                    first = first or payload
                    v.failing("accepted-switch-does-not-compile:unexplained", payload)
                else:
                    if len(members(c["sum"])) >= 2:
                        nontriv.add(C.sha(model_line(c)))
                    judge(c, m, 0, sr["stdout"].split("|")[0], srefs[0],
                          lambda s=ssrc, rc=sr.get("rc"): "// exit status %s\n%s" % (rc, s))
            continue
        texts = res["stdout"].split("|")
        for k, (c, m) in enumerate(b):
            if len(members(c["sum"])) >= 2:
                nontriv.add(C.sha(model_line(c)))
            judge(c, m, k, texts[k] if k < len(texts) else "", refs[k],
                  lambda c=c: e2e_program([(c, 0)])[0])
    # cases on which the model of the code generator panics: the real compiler must panic too
    singles = [e2e_program([(c, 0)]) for c, _ in crashy]
    sres = C.parallel_map(build_and_run, [(capy, s[0]) for s in singles])
    for (c, m), (ssrc, _), sr in zip(crashy, singles, sres):
        ncase += 1
        discr = [int(x) for x in m["discr"].split(",")] if m["discr"] != "-" else None
        payload = {"key": "e2e-crash:" + C.sha(model_line(c)), "stream": "e2e", "case": c, "model_input": model_line(c),
                   "implementation": ("capy panicked: " + sr.get("output", "")) if sr.get("build_failed") else
                   "compiled; printed %r" % sr.get("stdout"), "model": m["comp"], "spec": m["sdisp"],
                   "known_class_flag": m["kgen"], "source": ssrc}
        if not (sr.get("build_failed") and sr.get("panic")):
            diffs += 1
            first = first or payload
            # does it now behave as specified?
            if not sr.get("build_failed"):
                text = sr["stdout"].split("|")[0].split(";")
                ok = all((text[j] if j < len(text) else None) == expected_output(c, o, j, True)
                         for j, o in enumerate(m["sdisp"].split(",")))
                if not ok:
                    v.failing("wrong-arm-or-payload:unexplained", payload)
            continue
        out = sr.get("output", "")
        if m["kgen"] == "K4" and "default.is_none()" in out:
            bump(hist["known_class"], "K4")
            v.failing(K4, payload)
        elif m["kgen"] == "K5" and "is_non_zero" in out:
            bump(hist["known_class"], "K5")
            v.failing(K5, payload)
        elif m["comp"] == "CRASH273" and has_big_discr(discr) and "does not fit" in out:
            bump(hist["known_class"], "K2")
            v.failing(K2, payload)
        else:
            v.failing("accepted-switch-does-not-compile:unexplained", payload)
    fl.stream("end to end: capy vs dispatch (model of Expr::Switch code generation)", ncase, diffs, first)
    v.coverage["evaluations"] += ncase
    v.coverage["distinct_nontrivial"] += len(nontriv)
    v.coverage["e2e_switches"] = len(good) + len(crashy)
    v.coverage["e2e_programs"] = len(batches) + len(crashy)
    if good:
        v.add_samples([{"stream": "e2e", "model_input": model_line(good[0][0]), "model": good[0][1]["disp"],
                        "printed": (results[0].get("stdout") or "").split("|")[0]}])


def replay(path):
    """Re-run the failing input of a replay file on the current tree: front-end cases through the harness,
    end-to-end cases through capy; the extracted model/specification are re-evaluated too."""
    from .. import cargotools, coqtools
    r = json.load(open(path))
    print(json.dumps({k: r[k] for k in r if k != "source"}, indent=1)[:4000])
    c = r.get("case")
    if not c:
        return 0
    c["arms"] = [tuple(a) for a in c["arms"]]
    if c["sum"]["kind"] == "enum":
        c["sum"]["variants"] = [tuple(x) for x in c["sum"]["variants"]]
    ok, _, drv = coqtools.build_driver("C11")
    if not ok:
        print("model driver does not build")
        return 1
    m = parse_kv(C.run_lines([drv], [model_line(c)], indexed=False)[0])
    print("model/spec now:", m)
    discr = [int(x) for x in m["discr"].split(",")] if m.get("discr", "-") != "-" else None
    if r.get("stream") == "front-end":
        ok, _, har = cargotools.build_harness("h_c11")
        if not ok:
            print("harness does not build")
            return 1
        src, starts, _ = frontend_source(c)
        out = C.run_lines([har], [src.encode().hex()], case_timeout=30)[0]
        got, lower, panic, other = canon_impl(c, out, starts, discr)
        print("front end now: %s lowering=%s other=%s panic=%s" % (got, lower, other, panic))
        impl_accepts = got == "OK:" and not lower and not other
        spec_accepts = m["spec"] == "1" and not lowering_expect(c) and not any(a[0] == "NT" for a in c["arms"])
        bad = got in ("CRASH", "DIED") or impl_accepts != spec_accepts
        print("replayed: %s" % ("property still fails on this input" if bad else "property holds on this input"))
        return 1 if bad else 0
    if r.get("stream") == "e2e":
        ok, _, capy = cargotools.build_capy()
        if not ok:
            print("capy does not build")
            return 1
        if discr and any(d > 255 for d in discr):
            c["_noref"] = True
        src, refs = e2e_program([(c, 0)])
        res = build_and_run((capy, src))
        if res.get("build_failed"):
            print("capy build failed: %s" % res["output"])
            return 1
        parts = res["stdout"].split("|")[0].split(";")
        bad = False
        for j, o in enumerate(m["sdisp"].split(",")):
            exp = expected_output(c, o, j, refs[0])
            got = parts[j] if j < len(parts) else "<missing>"
            print("member %d: printed %r, specification %r" % (j, got, exp))
            bad |= not same(got, exp)
        print("replayed: %s" % ("property still fails on this input" if bad else "property holds on this input"))
        return 1 if bad else 0
    return 0
