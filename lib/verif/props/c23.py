"""C23 — Parsing is total, terminating and lossless (DESIGN.md C23/C24).

Every case goes through the REAL lexer and parser::parse_source_file / parse_repl_line with
catch_unwind and a per-case timeout.  Direct oracle per case: no panic, no hang, time within a
generous linear budget, tree text == input, every syntax-error position within the input.
Correspondence (cases run with the `t` flag): the real event list (hook parser::verif::events) and
token list are fed to the extracted Sink model; its tree must equal the real tree, the extracted
checkers must accept the real events (balanced) and the tree (lossless), and the model must predict
a crash exactly where the real sink panics.
"""
import glob
import itertools
import json
import os
import re

from .. import common as C
from ..flow import Flow

# Which variant of the two repaired behaviours /repo is in (Model/Grammar.v takes them as a parameter; the
# theorems hold for both).  Flip to True when the corresponding patch has been committed to /repo:
#   fix_bump  <-> .cache/prompts/C23-1-fix.diff      (Parser::bump skips trivia; closes C23-1 and C24-1)
#   fix_loops <-> .cache/prompts/C23-loops-fix.diff  (list loops stop when nothing was consumed; closes C23-2/3/4)
MODEL_VARIANT = {"fix_bump": True, "fix_loops": True}   # repo fixes d7fa2e4, 3c3ff74
# (for experiments on a patched scratch tree: C23_MODEL_VARIANT=ff|fu|uf|uu overrides, f = fixed)
_ov = os.environ.get("C23_MODEL_VARIANT")
if _ov and len(_ov) == 2:
    MODEL_VARIANT = {"fix_bump": _ov[0] == "f", "fix_loops": _ov[1] == "f"}

REDUCED = ["a", "1", "(", ")", "{", "}", "[", "]", ".", ",", ":", ";", "=", "+", "if", "^"]
VOCAB = REDUCED + ["as", "else", "while", "loop", "switch", "in", "distinct", "mut", "extern", "struct", "enum",
                   "comptime", "return", "break", "continue", "defer", "try", "catch", "true", "1.5", "0x1f", "0b1",
                   "\"s\"", "'c'", "\"\\n", "-", "*", "/", "%", "<", "<<", "<=", ">", ">>", ">=", "!", "!=", "&",
                   "&&", "|", "||", "==", "~", "...", "?", "->", "=>", "`", "#", "@", "é", "_", "import", "mod",
                   "rawptr", "//x\n", "// \n"]
QUICK_OPS = ["+", "-", "|", "~", "*", "/", "%", "&", "<<", ">>"]

# syntactic class of known finding C23-1: trivia between `.` and `(` / `try` / `{`, or between a
# quick-assignment operator and `=`
TRIV = r"(?:[ \t\r\n]|//[^\n]*(?:\n|$))+"
RE_DOT = re.compile(r"\." + TRIV + r"(?=\(|try\b|\{)")
RE_QA = re.compile(r"(\+|-|\||~|\*|/|%|&|<<|>>)" + TRIV + r"(?==(?!=))")



# ---- recovery stress: every looping construct, unterminated, in every embedding position, followed by every
# token of every recovery set (derived from the grammar: expr.rs / stmt.rs) ------------------------------------
# each looping grammar function with the prefixes of its body at which the loop can be entered / resumed
LOOP_BODIES = {
    "struct decl (parse_struct_decl)": ["struct", "struct {", "struct { a", "struct { a:", "struct { a: i32", "struct { a: i32,",
                                        "struct { a: i32, b"],
    "enum decl (parse_enum_decl)": ["enum", "enum {", "enum { A", "enum { A:", "enum { A: i32", "enum { A |", "enum { A | 1",
                                    "enum { A,", "enum { A: i32 | 1,"],
    "lambda params (parse_lambda)": ["(a:", "(a: i32", "(a: i32,", "(comptime a", "(comptime a: i32", "(a: ...", "(a: ...i32",
                                     "(a: i32) ->", "(a: i32) -> i32", "() ->", "(a,"],
    "call args (parse_post_operators)": ["f(", "f(a", "f(a,", "f(a, b"],
    "directive args (parse_directive)": ["#d", "#d(", "#d(a", "#d(a,", "#"],
    "old import (parse_var_ref)": ['import "x"', 'mod "x"', 'import "x'],
    "block (parse_block)": ["{", "{ a", "{ a;", "{ x :=", "{ x := 1", "{ x :: 1;", "{ return", "{ break `l", "{ defer a",
                            "`l: {", "`l:", "`l"],
    "switch (parse_switch)": ["switch", "switch x", "switch x {", "switch x { A", "switch x { A =>", "switch x { A => 1",
                              "switch x { A => 1,", "switch x { .A", "switch x { .A =>", "switch x { _ =>", "switch a in x {",
                              "switch a in", "switch a in x { T =>"],
    "struct literal (parse_struct_literal)": ["S.{", "S.{ a", "S.{ a =", "S.{ a = 1", "S.{ a = 1,", ".{", ".{ a", ".{ a = 1,",
                                               "S {", "S { a = 1", "S { a : 1,", "a.b {"],
    "array literal (parse_array_literal)": [".[", ".[1", ".[1,", "T.[", "T.[1,", "T[a,", "T[a, b", "[3]T{", "[3]T{1,", "[]T.[1,"],
    "array decl / index": ["[", "[3", "[3]", "a[", "a[1", "a[b +"],
    "paren / cast": ["(", "(a", "(a +", "T.(", "T.(a", "T.(a,"],
    "if / while / loop": ["if", "if a", "if a {", "if a {}", "if a {} else", "if a {} else if", "while", "while a", "while a {",
                          "loop", "loop {", "`l: while a", "`l: loop"],
    "string / char": ['"abc', "'a", '"a\\'],
    "prefix / type forms": ["comptime", "distinct", "?", "^", "^mut", "mut", "mut rawptr", "-", "!", "a !", "a as", "a.", "a.try",
                            "a +", "a + b *"],
}
# every position that hands a recovery set (or an expected closing token) down to the expression / type it contains
EMBEDDINGS = {
    "top-level value": "x :: ",
    "type annotation (DEF_SET)": "x : ",
    "local value": "{ x := ",
    "lambda parameter type (PARAM_RS)": "f :: (p: ",
    "second lambda parameter type": "f :: (p: i32, q: ",
    "lambda return type (+LBrace)": "f :: () -> ",
    "if condition (+LBrace, If, Else)": "if ",
    "else-if condition": "if a {} else if ",
    "while condition (+LBrace)": "while ",
    "switch scrutinee (+LBrace)": "switch ",
    "switch arm variant (+FatArrow)": "switch x { ",
    "switch arm body": "switch x { A => ",
    "cast operand (+Comma, RParen)": "T.(",
    "call argument": "f(",
    "second call argument": "f(a, ",
    "directive argument": "#d(",
    "index": "a[",
    "struct literal member value (+Comma, RBrace)": "S.{ a = ",
    "array literal item": ".[",
    "typed array literal item": "T.[1, ",
    "struct decl field type (+Comma, RBrace)": "struct { a: ",
    "enum variant type (+Comma, RBrace)": "enum { A: ",
    "enum discriminant": "enum { A | ",
    "array size": "[",
    "array element type (+LBrace)": "[3]",
    "paren": "(",
    "block statement": "{ ",
    "prefix operand": "-",
    "ref operand": "^",
    "binary rhs": "a + ",
    "distinct / optional / comptime": "distinct ",
    "return value": "{ return ",
    "assignment value": "{ a = ",
    "repl expression": "",
}
# every token of every recovery set (DEFAULT, PARAM_RS, DEF_SET, {LBrace}, {If, Else}, {Comma, RParen}, {Comma, RBrace},
# {FatArrow}, {Arrow, LBrace, Hash}, {Comma, RParen, Ellipsis}) plus closers, EOF and an ordinary token
FOLLOWS = [")", ",", "...", "=", ":", "{", "}", ";", "if", "else", "=>", "->", "#", "]", "|", "", "a", "extern", "in"]
TAILS = ["", " b ;"]


def recovery_stress(rng, n_two_level, tails=TAILS):
    out = []
    bodies = [(k, b) for k, bs in LOOP_BODIES.items() for b in bs]
    embs = list(EMBEDDINGS.items())
    for (ek, e) in embs:
        for (bk, b) in bodies:
            for fo in FOLLOWS:
                for tl in tails:
                    if fo == "" and tl:
                        continue
                    out.append(e + b + (" " + fo if fo else "") + tl)
    # two embedding levels (recovery sets accumulate by union), sampled
    for _ in range(n_two_level):
        (e1k, e1) = rng.choice(embs)
        (e2k, e2) = rng.choice(embs)
        (bk, b) = rng.choice(bodies)
        fo = rng.choice(FOLLOWS)
        fo2 = rng.choice(FOLLOWS)
        out.append(e1 + e2 + b + (" " + fo if fo else "") + (" " + fo2 if fo2 and rng.chance(1, 2) else ""))
    return out


RECOVERY_SET12 = ["a", "(", ")", "{", ":", "=", ",", "struct", "enum", "switch", "if", "else"]

def glue(text):
    """remove exactly the trivia that the known finding is about"""
    t = RE_DOT.sub(".", text)
    t = RE_QA.sub(lambda m: m.group(1), t)
    return t


def render(toks, mode):
    """mode 'g': single spaces, but nothing after `.` and nothing before `=` (avoids the known
    raw-double-bump shapes); 'w': single spaces everywhere; 'c': newline/comment trivia"""
    out = []
    for i, t in enumerate(toks):
        if i > 0:
            if mode == "w":
                out.append(" ")
            elif mode == "c":
                out.append(" // c\n" if i % 4 == 0 else "\n" if i % 4 == 2 else " ")
            else:
                prev = toks[i - 1]
                if not (prev == "." or t == "="):
                    out.append(" ")
                elif prev[-1].isalnum() and t[0].isalnum():
                    out.append(" ")
        out.append(t)
    return "".join(out)


def corpus_sources():
    files = sorted(glob.glob(os.path.join(C.REPO, "crates/parser/src/tests/*/*.test"))) + \
        sorted(glob.glob(os.path.join(C.REPO, "examples", "*.capy"))) + \
        sorted(glob.glob(os.path.join(C.REPO, "core", "src", "*.capy"))) + \
        sorted(glob.glob(os.path.join(C.REPO, "core", "src", "**", "*.capy"), recursive=True))
    out = []
    seen = set()
    for f in files:
        if f in seen:
            continue
        seen.add(f)
        try:
            t = open(f, encoding="utf-8").read()
        except Exception:
            continue
        if f.endswith(".test"):
            t = t.replace("\r", "").split("\n===\n")[0]
        out.append((f, t))
    return out


def mutate_text(rng, t):
    b = bytearray(t.encode())
    if len(b) > 65536:
        a = rng.below(len(b) - 65536)
        b = b[a:a + 65536]
    junk = [b"(", b")", b"{", b"}", b"[", b"]", b";", b".", b",", b":", b"=", b"\"", b"'", b"//", b"\n", b" ", b"^",
            b"if ", b"else ", b"struct ", b"`", b"#", b"\\", b"+", b"- ", b"0x", b"1e", b"\xc3\xa9"]
    for _ in range(rng.range(1, 8)):
        k = rng.below(5)
        pos = rng.below(len(b) + 1)
        if k == 0 and b:
            n = rng.range(1, 12)
            del b[pos:pos + n]
        elif k == 1:
            b[pos:pos] = rng.choice(junk)
        elif k == 2 and b:
            j = min(pos, len(b) - 1)
            b[j:j + 1] = rng.choice(junk)
        elif k == 3 and b:
            # duplicate a slice
            n = rng.range(1, 40)
            b[pos:pos] = b[pos:pos + n]
        elif b:
            # truncate
            if rng.chance(1, 3):
                del b[pos:]
    return b.decode("utf-8", "ignore")


def nesting(n):
    out = []
    for op, cl in [("(", ")"), ("[", "]"), ("{", "}"), ("a(", ")"), ("a[", "]"), ("a.(", ")"), ("if a {", "}"),
                   ("- ", ""), ("^", ""), ("struct { a: ", " }"), (".{ a = ", " }"), (".[", "]"), ("() -> ", ""),
                   ("x :: ", ";"), ("loop {", "}"), ("?", ""), ("distinct ", ""), ("comptime ", "")]:
        out.append(op * n + "a" + cl * n)
        out.append(op * n)
        out.append(op * n + "a")
        out.append("a" + cl * n)
    return out


def strip_node_ranges(tree):
    return re.sub(r"\((\w+) \d+ \d+", r"(\1", tree)


def run(tier, seed):
    fl = Flow("C23", tier, seed, "proof")
    v = fl.v
    fl.proof_stage()
    drv = fl.driver()
    har = fl.harness("h_c23")
    if drv and har:
        rng = fl.rng
        quick = tier == "quick"
        cases = []   # (stream, text)
        # corpus
        try:
            for l in open(os.path.join(C.CORPUS, "C23", "inputs.jsonl")):
                l = l.strip()
                if l:
                    cases.append(("corpus", json.loads(l)))
        except OSError:
            pass
        # 1. exhaustive token sequences over the reduced set
        maxlen = 4 if quick else 5
        for n in range(0, maxlen + 1):
            for t in itertools.product(REDUCED, repeat=n):
                cases.append(("exhaustive<=%d" % maxlen, render(t, "g")))
        r1 = rng.fork("longer")
        for i in range(10000 if quick else 200000):
            n = r1.range(maxlen + 1, 8)
            cases.append(("sampled %d..8 tokens (reduced set)" % (maxlen + 1), render([r1.choice(REDUCED) for _ in range(n)], "g")))
        # 1b. recovery stress (see LOOP_BODIES / EMBEDDINGS / FOLLOWS) and a second exhaustive enumeration over a
        # keyword-bearing token set (shortest trigger of a decl loop inside a condition: `if struct { else`)
        for t in recovery_stress(rng.fork("stress"), 20000 if quick else 300000, [""] if quick else TAILS):
            cases.append(("recovery stress: loop body x embedding x recovery-set token", t))
        for n in range(1, 5):
            for t in itertools.product(RECOVERY_SET12, repeat=n):
                cases.append(("exhaustive<=4 over {a ( ) { : = , struct enum switch if else}", render(t, "g")))
        # 2. soups over the full vocabulary, all trivia styles (these re-derive finding C23-1)
        r2 = rng.fork("soup")
        for i in range(9000 if quick else 100000):
            n = r2.range(1, 40 if i % 10 else 400)
            toks = [r2.choice(VOCAB) for _ in range(n)]
            cases.append(("token soup", render(toks, "gwc"[i % 3])))
        # 3. mutations of fixtures / examples / core
        srcs = corpus_sources()
        r3 = rng.fork("mut")
        for f, t in srcs:
            cases.append(("fixtures+examples+core unchanged", t[:65536]))
        for i in range(2500 if quick else 40000):
            f, t = r3.choice(srcs)
            cases.append(("byte/token mutations of fixtures, examples, core", mutate_text(r3, t)))
        # 4. nesting
        for n in ([1, 2, 3, 10, 50, 200] if quick else [1, 2, 3, 5, 10, 20, 50, 100, 150, 200]):
            for t in nesting(n):
                cases.append(("nesting<=200", t))
        # trivia-only / empty inputs (previous_token_range_safe's boundary)
        for t in ["", " ", "\n", "// c", "// c\n", " // c\n ", "\t\r\n", "//", ";", " ;", "; "]:
            cases.append(("trivia-only", t))

        # de-duplicate per (text), keep first stream name
        seen = {}
        for s, t in cases:
            if t not in seen:
                seen[t] = s
        texts = list(seen.keys())
        lines = []
        meta = []
        for t in texts:
            hx = t.encode().hex()
            # events/tokens/tree dump (Sink correspondence) for everything but the bulk of the thorough tier's
            # length-5 enumeration and 5..8 sampling, which only go through the direct oracle
            bulk = (not quick) and (seen[t].startswith("sampled") or (seen[t].startswith("exhaustive") and len(t.split()) >= 5))
            if seen[t].startswith("recovery stress"):
                # the direct oracle sees every stress case; events/tokens/tree (Sink and grammar-model comparison) a sample
                bulk = (int(C.sha(t), 16) % (8 if quick else 3)) != 0
            full = "t" if (len(t) <= 4096 and not bulk) else ""
            for m in ("S", "R"):
                lines.append("%s%s %s" % (m, full, hx))
                meta.append((seen[t], t, m, bool(full)))
        # address-space limit: a runaway parser must not exhaust the machine
        hcmd = ["bash", "-c", "ulimit -v 4000000; exec %s" % har]
        impl = C.run_lines(hcmd, lines, case_timeout=20)
        # ---- oracle ---------------------------------------------------------------
        streams = {}
        worst = (0.0, None)
        tot_us = 0
        sizes = {}
        errkinds = {"no-error": 0, "errors": 0, "panic": 0}
        glue_checks = []
        model_in = []
        model_idx = []
        for k, ((stream, t, m, full), r) in enumerate(zip(meta, impl)):
            st = streams.setdefault(stream, {"cases": 0, "diffs": 0})
            st["cases"] += 1
            nb = len(t.encode())
            b = "0" if nb == 0 else "<=16" if nb <= 16 else "<=256" if nb <= 256 else "<=4096" if nb <= 4096 else ">4096"
            sizes[b] = sizes.get(b, 0) + 1
            payload = {"key": "%s:%s" % (m, C.sha(t)), "stream": stream, "entry": "source_file" if m == "S" else "repl_line",
                       "input": t if nb <= 2000 else t[:2000] + "...", "input_hex": t.encode().hex() if nb <= 70000 else None,
                       "implementation": (r or "")[:400]}
            if r is None or r.startswith("!"):
                v.failing("hang" if r in ("!TIMEOUT", "!DIED:99") else "abort", payload)
                continue
            if r.startswith("PANIC:VERIF-NO-PROGRESS"):
                # hook parser::verif::no_progress: an error-recovery loop that records errors forever without
                # consuming a token (the real parser would hang and exhaust memory); class = the looping construct
                errkinds["hang(no-progress loop)"] = errkinds.get("hang(no-progress loop)", 0) + 1
                mm = re.search(r"expected \[([^\]]*)\]", r)
                what = mm.group(1) if mm else "?"
                v.failing("no-progress-loop:" + what, payload)
                continue
            if r.startswith("PANIC"):
                errkinds["panic"] += 1
                g = glue(t)
                if g != t:
                    glue_checks.append((k, g, payload))
                else:
                    v.failing("panic", payload)
                if full:
                    parts = r.split(" | ")
                    if len(parts) >= 3 and not parts[1].startswith("PANIC-IN-PARSER"):
                        model_in.append(parts[1] + " | " + parts[2])
                        model_idx.append((k, None))
                continue
            f = r.split(" ", 8)
            lossless, nerr, bad, us, ntok = int(f[1]), int(f[2]), int(f[3]), int(f[4]), int(f[5])
            errkinds["errors" if nerr else "no-error"] += 1
            tot_us += us
            if lossless != 1:
                v.failing("tree-text-differs-from-input", payload)
            if bad != 0:
                v.failing("error-position-outside-input", payload)
            budget = 300000 + 400 * nb          # microseconds; debug build, 16 parallel workers
            if us > budget:
                v.failing("time-not-linear", dict(payload, micros=us, budget=budget))
            ratio = us / (ntok + 1.0)
            if ntok >= 50 and ratio > worst[0]:
                worst = (ratio, {"bytes": nb, "tokens": ntok, "micros": us, "stream": stream})
            if full:
                parts = r.split(" | ")
                if len(parts) == 4:
                    model_in.append(parts[1] + " | " + parts[2])
                    model_idx.append((k, strip_node_ranges(parts[3]).strip()))
        # known-finding classification: the panic must disappear when exactly the trivia after `.` /
        # before `=` is removed
        if glue_checks:
            gl = ["%s %s" % (meta[k][2], g.encode().hex()) for (k, g, _p) in glue_checks]
            gi = C.run_lines(hcmd, gl, case_timeout=20)
            for (k, g, payload), r in zip(glue_checks, gi):
                ok = r is not None and r.startswith("ok 1 ") and r.split(" ")[3] == "0"
                mm = re.search(r"VERIF-NO-PROGRESS.*expected \[([^\]]*)\]", r or "")
                if ok:
                    v.failing("raw-double-bump-over-trivia", dict(payload, glued_input=g[:2000], glued_result=r[:200]))
                elif mm:
                    # both defects in one input: without the trivia the parser runs into a no-progress loop
                    v.failing("no-progress-loop:" + mm.group(1), dict(payload, glued_input=g[:2000], glued_result=r[:200]))
                else:
                    v.failing("panic", dict(payload, glued_input=g[:2000], glued_result=(r or "")[:200]))
        # ---- correspondence: Sink model on the real events -----------------------------
        mout = C.run_lines([drv], model_in, indexed=False)
        mdiffs = 0
        mfirst = None
        crash_pred = 0
        for (k, real_tree), mi, mo in zip(model_idx, model_in, mout):
            head, _, mtree = mo.partition(" | ")
            hf = head.split()
            good = False
            if real_tree is None:
                # the real sink panicked: the model must crash in add_token (site 6) and count more AddTokens
                good = mtree.strip() == "CRASH6" and len(hf) >= 3 and int(hf[1]) > int(hf[2])
                crash_pred += 1 if good else 0
            else:
                good = (len(hf) == 4 and hf[0] == "true" and hf[1] == hf[2] and hf[3] == "true"
                        and mtree.strip() == real_tree)
            if not good:
                mdiffs += 1
                if mfirst is None:
                    mfirst = {"input": meta[k][1][:500], "entry": meta[k][2], "model": mo[:600],
                              "implementation_tree": (real_tree or "PANIC")[:600]}
        fl.stream("Sink model vs real tree on real events (balanced, counts, lossless, crash prediction)",
                  len(model_in), mdiffs, mfirst)
        # ---- correspondence: the whole-grammar model (Model/Grammar.v) produces the real event list ----------
        fb = "f" if MODEL_VARIANT["fix_bump"] else "u"
        flp = "f" if MODEL_VARIANT["fix_loops"] else "u"
        g_in = []
        g_idx = []
        cap = 45000 if quick else 120000
        stress_cap = 12000 if quick else 60000
        n_stress = 0
        # cases on which the real parser did not terminate first (they must all reach the model), then the rest
        order = sorted(range(len(meta)), key=lambda k: 0 if (impl[k] and "PANIC-IN-PARSER:VERIF-NO-PROGRESS" in impl[k]) else 1)
        for k in order:
            (stream, t, m, full), r = meta[k], impl[k]
            if not full or r is None or r.startswith("!") or len(g_in) >= cap:
                continue
            if stream.startswith("exhaustive") and len(t.split()) >= 4:
                continue            # the bulk of the enumeration is covered by the Sink stream and the oracle
            hung_here = "PANIC-IN-PARSER:VERIF-NO-PROGRESS" in r
            if stream.startswith("recovery stress") and not hung_here:
                # every non-terminating case goes to the model; of the rest a deterministic sample
                n_stress += 1
                if n_stress > stress_cap and (k % 7) != 0:
                    continue
            parts = r.split(" | ")
            if len(parts) < 3:
                continue
            hung = parts[1].startswith("PANIC-IN-PARSER:VERIF-NO-PROGRESS")
            if parts[1].startswith("PANIC-IN-PARSER") and not hung:
                continue
            if hung:
                # the real parser never terminates here: the model (unfixed loops) must exhaust its LINEAR fuel
                g_in.append("G %s %s %s | %s" % (m, fb, flp, parts[2]))
                g_idx.append((k, "HUNG", "", False))
                continue
            rerr = ""
            if r.startswith("ok "):
                ff = r.split(" | ")[0].split(" ")
                rerr = ff[7] if len(ff) > 7 and ff[7] != "-" else ""
            g_in.append("G %s %s %s | %s" % (m, fb, flp, parts[2]))
            g_idx.append((k, parts[1].strip(), rerr, r.startswith("ok ")))
        g_out = C.run_lines([drv], g_in, indexed=False)
        gd = 0
        gfirst = None
        hung_pred = 0
        for (k, rev, rerr, okr), o in zip(g_idx, g_out):
            st, _, rest = o.partition(" | ")
            mev, _, merr = rest.partition(" | ")
            if rev == "HUNG":
                good = st == "FUEL"
                hung_pred += 1 if good else 0
            else:
                good = st == "ok" and mev.strip() == rev and ((not okr) or len(rerr) >= 3990 or merr.strip() == rerr)
            if not good:
                gd += 1
                if gfirst is None:
                    gfirst = {"input": meta[k][1][:500], "entry": meta[k][2], "model": o[:700],
                              "implementation_events": rev[:500], "implementation_errors": rerr[:200]}
        fl.stream("whole-grammar model vs real parser: event list and error positions", len(g_in), gd, gfirst)
        v.coverage["grammar_model_variant"] = dict(MODEL_VARIANT)
        v.coverage["non_termination_predicted_by_grammar_model"] = hung_pred
        for name, st in streams.items():
            fl.stream(name, st["cases"], 0, None)
        v.coverage["evaluations"] += len(lines)
        v.coverage["distinct_nontrivial"] += sum(1 for t in texts if len(t.split()) >= 2 or len(t) > 8)
        v.coverage["exhaustive"] = True
        v.coverage["rule"] = ("each distinct input text parsed as source file and as REPL line; exhaustive = every sequence of <= %d "
                              "tokens over the reduced set %s rendered with single spaces (no trivia after `.` / before `=`); "
                              "non-trivial = at least two whitespace-separated items or more than 8 bytes. NOT exhaustive up to 8 "
                              "tokens (16^8 is out of reach): lengths %d..8 are sampled" % (maxlen, " ".join(REDUCED), maxlen + 1))
        v.coverage["input_size_histogram"] = sizes
        v.coverage["outcome_histogram"] = errkinds
        v.coverage["sink_crashes_predicted_by_model"] = crash_pred
        v.coverage["max_micros_per_token_measured(test, not a theorem)"] = {"value": round(worst[0], 2), "case": worst[1]}
        v.coverage["total_parse_micros"] = tot_us
        v.add_samples([{"entry": meta[i][2], "input": meta[i][1][:200], "implementation": (impl[i] or "")[:300]}
                       for i in (len(meta) // 7, len(meta) // 2, len(meta) - 3)])
    v.assumptions = [
        "the grammar functions (grammar.rs, stmt.rs, expr.rs) are NOT part of the C23 model (only expressions, in C24): termination / "
        "linear time / absence of panics of the real grammar are tested (per-case timeout, linear time budget), not proved: "
        "C23_parse_terminates_partial",
        "expected_syntax bookkeeping (Option::take().unwrap() in error_with_recovery_set_no_default) is not modelled",
        "eventree's SyntaxBuilder is modelled as a stack of open nodes; its panics are Crash 7",
        "token texts concatenate to the input (C22 lex_concat); token lengths are taken from the real lexer",
        "stack depth of the recursive-descent parser is a runtime matter: nesting is explored up to 200",
    ]
    return fl.finish()


def replay(path):
    r = json.load(open(path))
    print(json.dumps(r, indent=1))
    return 0
