"""C06 -- The compiler never crashes or hangs, whatever it is given (DESIGN.md C06).

Coq (Properties/C06.v): no-crash theorems for diagnostics rendering (Model/Diag.v: exact
conditions + crash witnesses) and re-exports of the line-index and lexer totality theorems.
Correspondence: the extracted Diag model vs the REAL `Diagnostic::display` (harness/c06) on
exhaustive small texts x all ranges and on random multi-line texts: same rows / same panic site.
Run time (the part no model can carry): child-process fuzzing of the real `capy build`:
exit status / signal / panic site / Cranelift verifier text / timeout.  Every distinct panic site is
a class `panic:<file>:<line>`; sites listed in known_findings.d/C06.json (each reproduced, witness
in corpus/C06/) print KNOWN-FINDING, any other site is a VIOLATION with a shrunk input.

quick tier: corpus/C06 + a seeded, fixed-size stream (deterministic for a VERIF_SEED).
thorough tier: open-ended exploration (much larger streams, 64 KiB inputs, depth-200 nesting)."""
import glob
import itertools
import json
import os
import re

from .. import common as C
from .. import mutate as M
from ..flow import Flow

ALPHABET = [b"a", b"\n", b"\t", "é".encode(), b"\r"]

# model crash site (line of diagnostics/src/lib.rs) <-> real panic location
SITE_76 = "text-size-1.1.1/src/size.rs"


def diag_cases(rng, tier):
    cases = []
    maxlen = 4 if tier == "quick" else 5
    for n in range(maxlen + 1):
        for t in itertools.product(ALPHABET, repeat=n):
            txt = b"".join(t)
            L = len(txt)
            for s in range(L + 1):
                for e in range(s, L + 1):
                    cases.append((txt, s, e, 0))
                if s + 1 <= L + 1:
                    cases.append((txt, s, s + 1, 1))
    # random multi-line texts (omission of the middle, wide line numbers, tabs, CRLF, multi-byte)
    n_rand = 1500 if tier == "quick" else 20000
    words = ["x", "foo", "\t", "  ", "été", "中", "(", ");", "{", "}", ":=", "\"s\"", "\U0001F600"]
    for i in range(n_rand):
        r = rng.fork("d%d" % i)
        nl = r.range(1, 40 if r.chance(1, 4) else 8)
        lines = []
        for _ in range(nl):
            lines.append("".join(r.choice(words) for _ in range(r.below(6))))
        sep = "\r\n" if r.chance(1, 8) else "\n"
        txt = sep.join(lines) + (sep if r.chance(1, 2) else "")
        b = txt.encode()
        L = len(b)
        for _ in range(4):
            s = r.below(L + 1)
            e = r.range(s, min(L, s + (r.below(200) if r.chance(1, 3) else r.below(12))))
            if r.chance(1, 6):
                cases.append((b, s, s + 1, 1))
            else:
                cases.append((b, s, e, 0))
    return cases


def norm_real(x):
    if x.startswith("PANIC@"):
        loc = x[6:]
        m = re.match(r"(.*):(\d+)$", loc)
        if m and "diagnostics/src/lib.rs" in m.group(1):
            return "CRASH" + m.group(2)
        if m and SITE_76 in m.group(1):
            return "CRASH76"
        return "PANIC@" + M.norm_site(loc)
    return x


# ------------------------------------------------------------------------------------------------
# fuzz inputs
# ------------------------------------------------------------------------------------------------

def fuzz_inputs(rng, tier):
    """[(origin, text)] -- a pure function of rng and tier."""
    quick = tier == "quick"
    out = []
    for f in sorted(glob.glob(os.path.join(C.CORPUS, "C06", "*.capy"))):
        out.append(("corpus/" + os.path.basename(f), open(f, encoding="utf-8", errors="surrogateescape").read()))
    pool = [(t, s) for t, s in M.corpus() if len(s.encode("utf-8", "replace")) <= 65536]
    small = [(t, s) for t, s in pool if len(s) < 5000]
    r = rng.fork("plain")
    sel = list(pool)
    r.shuffle(sel)
    for t, s in sel[:(170 if quick else len(sel))]:
        out.append((t, s))
        if not M.has_main(s) and r.chance(1, 2):
            out.append((t + "+main", M.ensure_main(s)))
    # corpus mutations (1..3 token-level mutations), alone / with an entry point
    r = rng.fork("mut")
    for i in range(200 if quick else 6000):
        t, s = r.choice(small)
        k = r.range(1, 3)
        m = M.text_mutate(r.fork("m%d" % i), s, k)
        if r.chance(1, 2):
            m = M.ensure_main(m)
        out.append(("%s/mut%d" % (t, i), m))
    # generated well-typed programs with 0..3 mutations (semantic sabotage and/or token-level)
    r = rng.fork("gen")
    for i in range(120 if quick else 3000):
        g = r.fork("g%d" % i)
        base, bad = M.gen_near_valid(g, size=2 + i % 3, with_core=(i % 9 == 4))
        p = bad if (bad is not None and i % 3 != 0) else base
        txt = p.text
        k = g.below(3) if i % 3 != 0 else 0
        if k:
            txt = M.text_mutate(g.fork("t"), txt, k)
        out.append(("gen#%d%s+%dmut" % (i, "/sab" if p is bad else "", k), txt))
    # semantic single mutations of snippets
    r = rng.fork("sem")
    for i in range(50 if quick else 1500):
        t, s = r.choice(small)
        m = M.semantic_mutate(r.fork("s%d" % i), M.ensure_main(s))
        if m:
            out.append(("%s/sem%d" % (t, i), m[0]))
    # random UTF-8
    r = rng.fork("rand")
    for i in range(60 if quick else 2000):
        out.append(("random#%d" % i, M.random_utf8(r.fork("u%d" % i), 60 if i % 3 else 600)))
    # nesting up to the bound of the quantifier (200)
    r = rng.fork("nest")
    for i in range(16 if quick else 120):
        d = r.choice([20, 50, 100, 150, 200])
        out.append(("nest#%d/depth%d" % (i, d), M.deep_nest(r.fork("n%d" % i), d)))
    # large inputs (<= 64 KiB)
    r = rng.fork("big")
    for i in range(2 if quick else 20):
        parts = []
        size = 0
        j = 0
        while size < 60000:
            t, s = r.choice(small)
            s = re.sub(r"\bmain\b", "main_%d" % j, s)
            s = re.sub(r"(?m)^(\s*)([A-Za-z_]\w*)(\s*:\s*[^:=\n]*[:=])", lambda m: "%s%s_%d%s" % (m.group(1), m.group(2), j, m.group(3)), s)
            parts.append(s)
            size += len(s.encode("utf-8", "replace")) + 1
            j += 1
        txt = "\n".join(parts)
        b = txt.encode("utf-8", "replace")[:65000].decode("utf-8", "ignore")
        out.append(("big#%d" % i, M.ensure_main(b)))
    # de-duplicate, keep order
    seen = set()
    res = []
    for o, t in out:
        k = C.sha(t.encode("utf-8", "surrogateescape"))
        if k in seen:
            continue
        seen.add(k)
        res.append((o, t))
    return res


def failure_class(r):
    k = r["kind"]
    if k == "panic":
        m = re.search(r"VERIF-NO-PROGRESS at token \d+ expected \[([^\]]*)\]", r["msg"])
        if m:
            # the parser hook of C23/C24 (cfg capy_verif) turns a parser livelock -- an error recorded
            # for ever at the same token, until memory is exhausted -- into this panic: it IS a hang
            return "hang:parser-no-progress:[%s]" % m.group(1)
        return "panic:" + r["site"]
    if k == "verifier":
        msg = re.sub(r"\d+", "N", r["msg"])[:80]
        return "verifier:" + re.sub(r"\s+", "_", msg.strip())
    if k == "cranelift-error":
        return "cranelift-error"
    if k == "signal":
        return r["site"]
    if k == "timeout":
        # more than 10 s of CPU time; narrow by what happens when it is left running
        m = re.search(r"outcome when left running: (\S+) (\S*)", r["msg"])
        then = (m.group(2) or m.group(1)) if m else "killed"
        if then in ("timeout", "") or r["rc"] is None:
            then = "killed"
        return "hang:then-" + re.sub(r"\d+", "N", then)[:70]
    if k.startswith("exit:") and k != "exit:1":
        return "abnormal-" + k
    return None


def run_one(capy, text):
    return M.run_capy(capy, {"main.capy": text.encode("utf-8", "surrogateescape")}, args=("--no-exec",), timeout=10.0)


HELLO = "core :: #mod(\"core\");\n\nmain :: () {\n    core.println(\"Hello, World!\");\n}\n"
HELLO_CPU = 1.0     # generous nominal CPU seconds of compiling HELLO (measured 0.5 - 0.9 s on an idle machine)


def recalibrate(capy, results, v, inputs=None):
    """The 10 s of the property are measured as CPU time of the child.  On a heavily overloaded machine
    even CPU time inflates (page faults, cache thrash: 10x was observed), so when some input exceeded the
    limit the same measurement is made for a reference program, 8 copies in parallel, and the limit is
    scaled by the observed slowdown.  A killed child (150 s wall) that is over the scaled limit, or any
    child over it, stays a hang; the others get their ordinary classification back."""
    slow = [i for i, r in enumerate(results) if r["kind"] == "timeout"]
    if not slow:
        return results
    refs = C.parallel_map(lambda _: M.run_capy(capy, {"main.capy": HELLO}, timeout=1e9), range(8), workers=8)
    factor = max(1.0, max(r["cpu"] for r in refs) / HELLO_CPU)
    v.coverage["cpu_limit_scaled_by"] = round(factor, 2)
    for i in slow:
        r = results[i]
        if r["cpu"] <= 10.0 * factor and not (r["killed"] and r["cpu"] > 10.0):
            k, s_, m = r["plain"]
            if r["killed"]:
                continue          # killed although not CPU-bound: blocked -> stays a hang
            r = dict(r)
            r["kind"], r["site"], r["msg"] = k, s_, m
            results[i] = r
    # a slow run that FINISHED normally when left running is only believed when it is slow again when
    # re-run alone, one at a time (a single stalled child -- 17.8 s of CPU for a 0.3 s compile -- was
    # observed once on an otherwise idle machine)
    if inputs is not None:
        again = 0
        for i in slow:
            r = results[i]
            if r["kind"] == "timeout" and not r["killed"]:
                r2 = run_one(capy, inputs[i][1])
                again += 1
                if r2["kind"] != "timeout":
                    results[i] = r2
        v.coverage["slow_runs_rerun_alone"] = again
    return results


def shrink(capy, text, cls, budget=70):
    """greedy delta debugging over lines, then over tokens; keeps the failure class."""
    def bad(t):
        r = run_one(capy, t)
        return failure_class(r) == cls
    best = text
    runs = 0
    for unit in ("line", "token"):
        if unit == "line":
            parts = best.split("\n")
            join = "\n".join
        else:
            toks = M.tokens(best)
            if not toks or len(toks) > 400:
                continue
            parts = []
            last = 0
            for a, b in toks:
                parts.append(best[last:b])
                last = b
            parts.append(best[last:])
            join = "".join
        n = 2
        while len(parts) >= 2 and runs < budget:
            size = max(1, len(parts) // n)
            removed = False
            i = 0
            while i < len(parts) and runs < budget:
                cand = parts[:i] + parts[i + size:]
                runs += 1
                if cand and bad(join(cand)):
                    parts = cand
                    removed = True
                else:
                    i += size
            if not removed:
                if size == 1:
                    break
                n = min(len(parts), n * 2)
        best = join(parts)
    return best


def run(tier, seed):
    fl = Flow("C06", tier, seed, "proof")   # evidence schema has no "partial": see coverage["claim"]
    v = fl.v
    fl.proof_stage()
    drv = fl.driver()
    har = fl.harness("h_c06")
    capy = fl.capy()
    # ---- correspondence: Diag model vs real Diagnostic::display ---------------------------------------
    if drv and har:
        cases = diag_cases(fl.rng.fork("diag"), tier)
        lines = ["%s %d %d %d" % (t.hex(), s, e, m) for (t, s, e, m) in cases]
        real = C.run_lines([har, "diag"], lines)
        model = C.run_lines([drv], lines, indexed=False)
        diffs, first, crashes, ok_rows = 0, None, {}, 0
        if len(real) != len(lines) or len(model) != len(lines):
            fl.broken.append({"what": "diag stream: tool output length mismatch", "real": len(real), "model": len(model)})
        else:
            for ln, a, b in zip(lines, real, model):
                a = norm_real(a or "")
                if b.startswith("CRASH"):
                    crashes[b] = crashes.get(b, 0) + 1
                else:
                    ok_rows += 1
                if a != b:
                    diffs += 1
                    if first is None:
                        first = {"case": ln, "real_display": a, "model": b}
            fl.stream("Diag model vs real Diagnostic::display (exhaustive small texts x ranges + random multi-line)",
                      len(lines), diffs, first)
        v.coverage["evaluations"] += len(lines)
        v.coverage["diag_cases"] = {"total": len(lines), "rendered": ok_rows, "model_crash_sites": crashes}
        v.coverage["distinct_nontrivial"] += ok_rows
    # ---- the run-time property: fuzz the real executable ---------------------------------------------------
    if capy:
        inputs = fuzz_inputs(fl.rng.fork("fuzz"), tier)
        results = C.parallel_map(lambda it: run_one(capy, it[1]), inputs)
        results = recalibrate(capy, results, v, inputs)
        hist, kinds, sizes = {}, {}, {"<100": 0, "<1k": 0, "<10k": 0, "<64k": 0}
        by_class = {}
        reached = 0
        for (origin, text), r in zip(inputs, results):
            cls = failure_class(r)
            kinds[origin.split("#")[0].split("/")[0]] = kinds.get(origin.split("#")[0].split("/")[0], 0) + 1
            n = len(text.encode("utf-8", "surrogateescape"))
            sizes["<100" if n < 100 else "<1k" if n < 1000 else "<10k" if n < 10000 else "<64k"] += 1
            hist[cls or r["kind"]] = hist.get(cls or r["kind"], 0) + 1
            if r["kind"] in ("ok", "errors") or cls:
                reached += 1
            if cls:
                by_class.setdefault(cls, []).append((origin, text, r))
        for cls, items in sorted(by_class.items()):
            items.sort(key=lambda x: len(x[1]))
            origin, text, r = items[0]
            known = v.classify(cls) is not None
            wit = text
            if not known and len(text) < 20000:
                wit = shrink(capy, text, cls)
            for k, (o, t, rr) in enumerate(items):
                v.failing(cls, {"key": cls, "class_detail": cls, "origin": o, "source": wit if k == 0 else t[:4000],
                                "original_source": text[:4000] if k == 0 else None,
                                "exit": rr["rc"], "message": rr["msg"], "retried_after_timeout": rr["retried"],
                                "output_tail": rr["out"][-1200:]})
        v.coverage["evaluations"] += len(inputs)
        v.coverage["distinct_nontrivial"] += reached
        v.coverage["fuzz"] = {"inputs": len(inputs), "outcomes": dict(sorted(hist.items(), key=lambda kv: -kv[1])),
                              "input_kinds": kinds, "input_sizes": sizes,
                              "distinct_failure_classes": len(by_class)}
        v.add_samples([{"origin": o, "outcome": failure_class(r) or r["kind"], "bytes": len(t)}
                       for (o, t), r in list(zip(inputs, results))[:3] + list(zip(inputs, results))[-3:]])
    v.coverage["rule"] = ("diag stream: every text of length <= N over {a, LF, TAB, e-acute, CR} x every range start<=end<=len "
                          "(+ a Missing diagnostic at every offset) and random multi-line texts, real display vs extracted model "
                          "(rows, highlighted segments, omission, arrow column, or the panic site); non-trivial = rendered without "
                          "crash. fuzz stream: corpus/C06 witnesses, repository sources (examples, core, parser fixtures, hir/hir_ty/"
                          "codegen test snippets) as they are and with 1-3 token-level mutations, generated well-typed programs with "
                          "0-3 mutations, single semantic mutations, random UTF-8, nesting depth up to 200, inputs up to 64 KiB; each "
                          "through `capy build --no-exec` in a child process (10 s timeout, re-run alone with 90 s before a hang is "
                          "reported); non-trivial = the compiler ran to diagnostics / object / failure.")
    v.coverage["claim"] = 'partial: Coq proves no-crash theorems only for the modelled components (diagnostics rendering; line index and lexer by re-export); the property itself (no panic / hang / verifier error of the running compiler) is explored by child-process fuzzing, not proved'
    v.assumptions = [
        "Coq carries only the modelled components (diagnostics rendering; line index and lexer by re-export); the run-time "
        "behaviours (stack overflow, Cranelift verifier, allocator, wall time, everything not modelled) are explored, not proved",
        "capy is built in the dev profile: integer overflow panics (a release build wraps; Model/Diag.v site 76 documents the one "
        "modelled instance)",
        "display_no_crash is proved for texts without CR; CRLF texts are covered by the correspondence stream",
        "a timeout is only reported after a second run alone with 90 s (the machine may be overloaded)",
    ]
    return fl.finish()


def replay(path):
    r = json.load(open(path))
    print(json.dumps({k: r[k] for k in r if k not in ("source", "original_source", "output_tail")}, indent=1))
    src = r.get("source")
    if src is None:
        return 0
    print("---- source ----")
    print(src)
    from .. import cargotools
    ok, out, capy = cargotools.build_capy()
    if ok:
        res = run_one(capy, src)
        print("---- capy build now ----")
        print("class:", failure_class(res), "exit:", res["rc"])
        print(res["out"][-1500:])
    return 0
