"""C20 — Results do not depend on the order of definitions or files (DESIGN.md C20).

LEVEL: partial.
Proved (coq/Properties/C20.v): the round loop of InferenceCtx::finish over the TopoSort
model yields the same results for every order of the seed, for acyclic dependency graphs
and ANY inference step satisfying explicit hypotheses (function of the dependencies'
results; completes only when they are finished; asks only for unfinished real
dependencies); it reaches no panic site.  The usage protocol these hypotheses induce is the
one validated on real runs by C26 stream B.
Tested only (this file): generated accepted programs with 3-12 interdependent globals
(consts, comptime blocks, struct / distinct / array types, functions, generics) are built
with the real `capy` under permutations of the global order and partitions into up to 3
files with (possibly circular) imports; acceptance, stdout and exit status must not change."""
import itertools
import json
import os
import subprocess

from .. import common as C
from ..flow import Flow

FILES = ["main", "fa", "fb"]
ALIAS = ["mm", "fa", "fb"]      # a global named `main` in another file would be a second entry point


# ----------------------------------------------------------------------------------
# program generator: a list of globals in "logical" order; text uses {name} placeholders
class G:
    def __init__(self, name, kind, text, deps, meta=None):
        self.name, self.kind, self.text, self.deps, self.meta = name, kind, text, deps, meta or {}


def gen_program(rng, nmin=3, nmax=12, with_comptime=True):
    n = rng.range(nmin, nmax)
    gs = []
    kinds = ["const", "const", "cexpr", "func", "func", "func_s", "struct", "distinct", "usz", "array", "generic_t", "generic_k"]
    if with_comptime:
        kinds += ["comptime", "cexpr", "tgen", "tinst", "tval", "tval"]

    def of(kind):
        return [g for g in gs if g.kind in kind]

    def ref(g):
        return "{%s}" % g.name

    def atom(deps, in_func, const_only=False):
        c = []
        c += [("lit", None)] * 2
        if in_func:
            c += [("x", None)] * 2
        for g in of(("const", "cexpr", "comptime")):
            c.append(("val", g))
        if not const_only or True:
            for g in of(("tval",)):
                c.append(("tval", g))
            for g in of(("func",)):
                c.append(("call", g))
            for g in of(("func_s",)):
                c.append(("calls", g))
            for g in of(("generic_t",)):
                c.append(("gt", g))
            for g in of(("generic_k",)):
                c.append(("gk", g))
        k, g = rng.choice(c)
        if k == "lit":
            return str(rng.range(1, 5))
        if k == "x":
            return "x"
        deps.add(g.name)
        if k == "val":
            return ref(g)
        if k == "tval":
            return g.meta["expr"]
        arg = "x" if (in_func and rng.chance(1, 2)) else str(rng.range(1, 4))
        if k == "call":
            return "%s(%s)" % (ref(g), arg)
        if k == "calls":
            return "%s(%s, %s)" % (ref(g), value_of(g.meta["t"], deps), arg)
        if k == "gt":
            return "%s(i32, %s)" % (ref(g), arg)
        ks = of(("const",))
        if ks and rng.chance(1, 2):
            kk = rng.choice(ks)
            deps.add(kk.name)
            return "%s(%s, %s)" % (ref(g), ref(kk), arg)
        return "%s(%d, %s)" % (ref(g), rng.range(1, 3), arg)

    def expr(deps, in_func, depth=2):
        if depth == 0 or rng.chance(1, 3):
            return atom(deps, in_func)
        op = rng.choice(["+", "+", "-", "*"])
        if op == "*":
            return "(%s) * %d" % (expr(deps, in_func, depth - 1), rng.range(2, 3))
        return "%s %s %s" % (expr(deps, in_func, depth - 1), op, expr(deps, in_func, depth - 1))

    def type_ref(deps):
        ts = of(("struct", "distinct"))
        if ts and rng.chance(2, 3):
            t = rng.choice(ts)
            deps.add(t.name)
            return t
        return None

    def value_of(t, deps):
        if t is None:
            return str(rng.range(1, 9))
        deps.add(t.name)
        if t.kind == "distinct":
            return "%s.(%d)" % (ref(t), rng.range(1, 9))
        fs = []
        for fname, ft in t.meta["fields"]:
            fs.append("%s = %s" % (fname, value_of(ft, deps)))
        return "%s.{ %s }" % (ref(t), ", ".join(fs))

    def first_i32_path(t):
        """a field path of struct t ending in an i32 (or None)"""
        for fname, ft in t.meta["fields"]:
            if ft is None:
                return fname
            if ft.kind == "struct":
                p = first_i32_path(ft)
                if p:
                    return fname + "." + p
        return None

    for i in range(n):
        kind = rng.choice(kinds)
        deps = set()
        if kind == "const":
            g = G("c%d" % i, kind, "c%d : i32 : %d;" % (i, rng.range(1, 20)), deps)
        elif kind == "usz":
            v = rng.range(1, 4)
            g = G("n%d" % i, kind, "n%d : usize : %d;" % (i, v), deps, {"v": v})
        elif kind == "cexpr":
            e = expr(deps, False)
            g = G("c%d" % i, kind, "c%d : i32 : comptime { %s };" % (i, e), deps)
        elif kind == "comptime":
            e1 = expr(deps, False)
            e2 = expr(deps, False, 1)
            g = G("k%d" % i, kind, "k%d :: comptime {\n    y : i32 = %s;\n    y + %s\n};" % (i, e1, e2), deps)
        elif kind == "distinct":
            g = G("D%d" % i, kind, "D%d :: distinct i32;" % i, deps)
        elif kind == "struct":
            fields = [("a", None)]
            for fn in ["b", "c"][:rng.range(0, 2)]:
                fields.append((fn, type_ref(deps)))
            txt = "T%d :: struct { %s };" % (i, ", ".join("%s: %s" % (fn, "i32" if ft is None else ref(ft)) for fn, ft in fields))
            g = G("T%d" % i, kind, txt, deps, {"fields": fields})
        elif kind == "array":
            us = of(("usz",))
            if not us:
                g = G("n%d" % i, "usz", "n%d : usize : 2;" % i, deps, {"v": 2})
            else:
                u = rng.choice(us)
                deps.add(u.name)
                g = G("A%d" % i, kind, "A%d :: [%s]i32;" % (i, ref(u)), deps, {"n": u.meta["v"]})
        elif kind == "tval":
            # a global constant annotated with a user-defined type (distinct / struct / array)
            cands = [t for t in of(("distinct", "array"))] + [t for t in of(("struct",)) if first_i32_path(t)]
            if not cands:
                g = G("D%d" % i, "distinct", "D%d :: distinct i32;" % i, deps)
            else:
                t = rng.choice(cands)
                deps.add(t.name)
                if t.kind == "distinct":
                    g = G("d%d" % i, kind, "d%d : %s : comptime { %s.(%d) };" % (i, ref(t), ref(t), rng.range(1, 9)), deps,
                          {"expr": "i32.({d%d})" % i})
                elif t.kind == "array":
                    vals = ", ".join(str(rng.range(1, 9)) for _ in range(t.meta["n"]))
                    g = G("a%d" % i, kind, "a%d : %s : i32.[%s];" % (i, ref(t), vals), deps, {"expr": "{a%d}[0]" % i})
                else:
                    g = G("s%d" % i, kind, "s%d : %s : comptime { %s };" % (i, ref(t), value_of(t, deps)), deps,
                          {"expr": "{s%d}.%s" % (i, first_i32_path(t))})
        elif kind == "tgen":
            g = G("B%d" % i, kind, "B%d :: (comptime T: type) -> type {\n    struct { v: T, w: i32 }\n}" % i, deps)
        elif kind == "tinst":
            bs = of(("tgen",))
            if not bs:
                g = G("B%d" % i, "tgen", "B%d :: (comptime T: type) -> type {\n    struct { v: T, w: i32 }\n}" % i, deps)
            else:
                b = rng.choice(bs)
                deps.add(b.name)
                g = G("T%d" % i, "struct", "T%d :: comptime %s(i32);" % (i, ref(b)), deps, {"fields": [("v", None), ("w", None)]})
        elif kind == "func_s":
            ss = of(("struct",))
            if not ss:
                g = G("c%d" % i, "const", "c%d : i32 : %d;" % (i, rng.range(1, 20)), deps)
            else:
                t = rng.choice(ss)
                deps.add(t.name)
                pth = first_i32_path(t)
                e = expr(deps, True, 1)
                g = G("f%d" % i, kind, "f%d :: (s: %s, x: i32) -> i32 {\n    %s%s\n}" % (i, ref(t), e, (" + s." + pth) if pth else ""), deps, {"t": t})
        elif kind == "generic_t":
            g = G("g%d" % i, kind, "g%d :: (comptime T: type, x: T) -> T { x }" % i, deps)
        elif kind == "generic_k":
            e = expr(deps, True, 1)
            g = G("h%d" % i, kind, "h%d :: (comptime K: i32, x: i32) -> i32 { K + %s }" % (i, e), deps)
        else:  # func
            body = []
            ss = of(("struct",))
            extra = ""
            if ss and rng.chance(1, 2):
                t = rng.choice(ss)
                p = first_i32_path(t)
                body.append("    t := %s;" % value_of(t, deps))
                if p:
                    extra = " + t.%s" % p
            arrs = of(("array",))
            if arrs and rng.chance(1, 3):
                a = rng.choice(arrs)
                deps.add(a.name)
                body.append("    arr : %s;" % ref(a))
                extra += " + i32.(arr.len)"
            e = expr(deps, True)
            body.append("    %s%s" % (e, extra))
            g = G("f%d" % i, kind, "f%d :: (x: i32) -> i32 {\n%s\n}" % (i, "\n".join(body)), deps)
        g.deps = sorted(deps)
        gs.append(g)
    # forward and mutual references between functions: a guarded call that is type-checked but never
    # executed (arguments stay small), so that function bodies depend on LATER globals as well
    fs = [g for g in gs if g.kind == "func"]
    for a in fs:
        later = [b for b in fs if b is not a]
        if later and rng.chance(1, 2):
            b = rng.choice(later)
            a.text = a.text.replace(") -> i32 {\n", ") -> i32 {\n    if x > 1000 {\n        return {%s}(x - 2000);\n    }\n    guard_ := x;\n" % b.name, 1)
            a.deps = sorted(set(a.deps) | {b.name})
    # main prints every value-like global
    prints = []
    mdeps = set()
    for g in gs:
        if g.kind in ("const", "cexpr", "comptime"):
            prints.append("{%s}" % g.name)
        elif g.kind == "usz":
            prints.append("{%s}" % g.name)
        elif g.kind == "func":
            prints.append("{%s}(%d)" % (g.name, rng.range(1, 5)))
        elif g.kind == "tval":
            prints.append(g.meta["expr"])
        elif g.kind == "func_s":
            d = set()
            prints.append("{%s}(%s, %d)" % (g.name, value_of(g.meta["t"], d), rng.range(1, 5)))
        elif g.kind == "generic_t":
            prints.append("{%s}(i32, %d)" % (g.name, rng.range(1, 9)))
        elif g.kind == "generic_k":
            prints.append("{%s}(%d, %d)" % (g.name, rng.range(1, 4), rng.range(1, 5)))
        elif g.kind == "array":
            prints.append(None)
        mdeps.add(g.name)
    return gs, prints


def render(gs, prints, order, placement, use_core=True):
    """order: permutation of range(len(gs)) (definition order inside each file);
    placement: file index per global. Returns [(filename, text)], main.capy first."""
    nfiles = max(placement) + 1 if placement else 1
    where = {g.name: placement[i] for i, g in enumerate(gs)}

    def subst(text, here):
        out = text
        for g in gs:
            tgt = g.name if where[g.name] == here else "%s.%s" % (ALIAS[where[g.name]], g.name)
            out = out.replace("{%s}" % g.name, tgt)
        return out

    def needed(text, here):
        return sorted({where[g.name] for g in gs if ("{%s}" % g.name) in text and where[g.name] != here})

    files = []
    for fi in range(nfiles):
        defs = []
        imports = set()
        for i in order:
            if placement[i] == fi:
                defs.append(subst(gs[i].text, fi))
                imports.update(needed(gs[i].text, fi))
        if fi == 0:
            body = []
            for k, p in enumerate(prints):
                if p is None:
                    continue
                imports.update(needed(p, 0))
                if use_core:
                    body.append("    core.println(%s);" % subst(p, 0))
                else:
                    body.append("    v%d := %s;" % (k, subst(p, 0)))
            main = "main :: () {\n%s\n}" % "\n".join(body)
            # main's position also follows the permutation (deterministically derived from it)
            pos = (order[0] if order else 0) % (len(defs) + 1)
            defs.insert(pos, main)
        head = []
        if fi == 0 and use_core:
            head.append('core :: #mod("core");')
        for o in sorted(imports):
            head.append('%s :: #import("%s.capy");' % (ALIAS[o], FILES[o]))
        # import lines move too: before or after the definitions
        if order and order[-1] % 2 == 1:
            text = "\n".join(defs + head) + "\n"
        else:
            text = "\n".join(head + defs) + "\n"
        files.append((FILES[fi] + ".capy", text))
    return files


def variants(rng, gs, n_variants, exhaustive_upto=5):
    n = len(gs)
    base = (list(range(n)), [0] * n)
    vs = [base]
    if n <= exhaustive_upto:
        perms = [list(p) for p in itertools.permutations(range(n))][1:]
        rng.shuffle(perms)
        for p in perms[:n_variants]:
            vs.append((p, [0] * n))
    while len(vs) < n_variants + 1:
        p = rng.shuffle(list(range(n)))
        k = rng.range(1, 3)
        pl = [rng.below(k) for _ in range(n)] if rng.chance(2, 3) else [0] * n
        vs.append((p, pl))
    # always at least one split variant in the original order and one reversed
    vs.append((list(range(n)), [i % 2 for i in range(n)]))
    vs.append((list(reversed(range(n))), [i % 3 for i in range(n)]))
    return vs


FN_KINDS = ("func", "func_s", "generic_k", "generic_t")


def fn_cycle(gs):
    """True iff the call graph among the function-like globals has a cycle (mutual recursion)."""
    fn = {g.name: [d for d in g.deps] for g in gs if g.kind in FN_KINDS}
    state = {}

    def visit(n):
        if state.get(n) == 1:
            return True
        if state.get(n) == 2:
            return False
        state[n] = 1
        for d in fn.get(n, []):
            if d in fn and visit(d):
                return True
        state[n] = 2
        return False

    return any(visit(n) for n in list(fn))


def dep_cycle(gs):
    """True iff the reference graph among ALL globals (incl. the guarded, never executed calls)
    has a cycle, e.g. const -> function -> (guarded call) function -> const."""
    gr = {g.name: list(g.deps) for g in gs}
    state = {}

    def visit(n):
        if state.get(n) == 1:
            return True
        if state.get(n) == 2:
            return False
        state[n] = 1
        for d in gr.get(n, []):
            if d in gr and visit(d):
                return True
        state[n] = 2
        return False

    return any(visit(n) for n in list(gr))


def known_class(gs, base, r):
    """Narrow syntactic classes of recorded defects (known_findings.d/C20.json)."""
    pair = sorted([base[0], r[0]])
    rej = [x for x in (base, r) if x[0] == "rejected"]
    if (pair == ["accepted", "rejected"] and fn_cycle(gs) and "circular definition" in rej[0][1]
            and "has not yet been resolved" in rej[0][1]
            and any(g.kind in ("comptime", "cexpr", "tval", "struct") and "comptime" in g.text for g in gs)):
        return "order-dependence:mutually-recursive-functions-called-from-comptime"
    if (pair == ["accepted", "rejected"] and not fn_cycle(gs) and dep_cycle(gs) and "circular definition" in rej[0][1]
            and "has not yet been resolved" in rej[0][1]):
        return "order-dependence:reference-cycle-through-comptime-constant"
    kinds = {g.kind for g in gs}
    has_tinst = any(g.kind == "struct" and " :: comptime " in g.text for g in gs)
    has_generic_fn = bool(kinds & {"generic_t", "generic_k"})
    crash = [x for x in (base, r) if x[0] == "CRASH"]
    other = [x for x in (base, r) if x[0] != "CRASH"]
    if (len(crash) == 1 and other and other[0][0] == "accepted" and has_tinst and has_generic_fn
            and "these shouldn't get to codegen" in crash[0][1] and "comptime compilation panicked" in crash[0][1]):
        return "order-dependence:comptime-type-instantiation-before-generic-fn-use-crashes"
    return None


def run_jobs(capy, file_sets):
    """build_and_run in parallel; anything that looked like a hang is re-run alone with a long
    timeout (on a loaded machine a 120 s timeout is not evidence of a hang)."""
    res = C.parallel_map(lambda f: build_and_run(capy, f), file_sets)
    for k, r in enumerate(res):
        if r[0].startswith("HANG") or r[1] == "HANG-run":
            res[k] = build_and_run(capy, file_sets[k], compile_timeout=1500, run_timeout=300)
    return res


def build_and_run(capy, files, compile_timeout=120, run_timeout=20):
    with C.scratch("verif-c20-") as d:
        for name, text in files:
            open(os.path.join(d, name), "w").write(text)
        try:
            p = subprocess.run([capy, "build", "main.capy", "--mod-dir", C.REPO], cwd=d, stdout=subprocess.PIPE,
                               stderr=subprocess.STDOUT, timeout=compile_timeout)
        except subprocess.TimeoutExpired:
            return ("HANG-compile", "", None)
        exe = os.path.join(d, "out", "main")
        if p.returncode != 0 or not os.path.exists(exe):
            out = p.stdout.decode("utf-8", "replace")
            errs = sorted({l.strip() for l in out.split("\n") if l.startswith("error")})
            crashed = ("panicked" in out) or p.returncode not in (0, 1)
            lines = out.split("\n")
            pan = [(lines[i].strip() + " " + (lines[i + 1].strip() if i + 1 < len(lines) else ""))
                   for i in range(len(lines)) if "panicked at" in lines[i]]
            return ("CRASH" if crashed else "rejected", "|".join(pan[:1] + errs)[:600], p.returncode)
        try:
            r = subprocess.run([exe], cwd=d, stdout=subprocess.PIPE, stderr=subprocess.STDOUT, timeout=run_timeout)
        except subprocess.TimeoutExpired:
            return ("accepted", "HANG-run", None)
        return ("accepted", r.stdout.decode("utf-8", "replace"), r.returncode)


def trace_programs(rng, n):
    """Programs for C26 stream B2 (in-process front end, no core, no execution):
    random orders/partitions of generated programs, a third of them made cyclic."""
    out = []
    for k in range(n):
        gs, prints = gen_program(rng, 3, 12, with_comptime=False)
        nn = len(gs)
        order = rng.shuffle(list(range(nn)))
        kf = rng.range(1, 3)
        pl = [rng.below(kf) for _ in range(nn)]
        files = render(gs, prints, order, pl, use_core=False)
        if rng.chance(1, 3):
            # add mutually dependent globals (cycle-breaking rounds, NotYetResolved diagnostics)
            a, b = "z%da" % k, "z%db" % k
            extra = "%s :: (x: i32) -> i32 { %s(x) }\n%s :: (x: i32) -> i32 { %s(x) }\n" % (a, b, b, a)
            extra += "y%da : i32 : y%db;\ny%db : i32 : y%da;\n" % (k, k, k, k) if rng.chance(1, 2) else ""
            files[0] = (files[0][0], files[0][1] + extra)
        out.append(("gen%d" % k, files))
    return out



# ----------------------------------------------------------------------------------
# Hypothesis stream: the observable part of H_done / H_needs / H_det on the real checker,
# through the TopoSort call trace hook of hir_ty::InferenceCtx::finish (harness h_c26 front).
def parse_named_trace(line):
    """-> dict(names={id: stable name}, rounds=[(is_cyc, [(x, None | [(dep, flag)])])], complete=bool)"""
    groups = [g.split() for g in line.split(";") if g.strip()]
    names, rounds, cyc, complete = {}, [], False, False
    for g in groups:
        t = g[0]
        if t == "C":
            cyc = True
        elif t == "L":
            rounds.append((cyc, []))
            cyc = False
        elif t == "R" and rounds:
            rounds[-1][1].append((g[1], None))
        elif t == "D" and rounds:
            rounds[-1][1].append((g[1], list(zip(g[2::2], g[3::2]))))
        elif t == "E":
            complete = True
        elif t == "N":
            for kv in g[1:]:
                k, _, v = kv.partition("=")
                pre = "L:" if v.startswith("L:") else ""
                v = v[2:] if pre else v
                base = v.split("::", 1)[1] if "::" in v else v
                names[k] = pre + base + ("'" if k.endswith("'") else "")
    return {"names": names, "rounds": rounds, "complete": complete}


def check_trace_hypotheses(tr):
    """(a),(b) on one trace. Returns (violations, completion index by id, cyc-completed ids, edges by id)"""
    viol = []
    done, requested, comp, cyc_done, edges = set(), {}, {}, set(), set()
    k = 0
    for is_cyc, evs in tr["rounds"]:
        for x, ds in evs:
            k += 1
            if ds is None:
                if not is_cyc:
                    open_ = [d for d in requested.get(x, []) if d not in done]
                    if open_:
                        viol.append(("completed-with-unfinished-dep", x, open_))
                else:
                    cyc_done.add(x)
                done.add(x)
                comp[x] = k
            else:
                for d, flag in ds:
                    edges.add((x, d))
                    requested.setdefault(x, []).append(d)
                    if flag == "1" or d in done:
                        viol.append(("requested-finished-dep", x, [d]))
    return viol, comp, cyc_done, edges


def hypothesis_stream(fl, har, rng, n_prog, n_var):
    from . import c26
    v = fl.v
    progs, jobs = [], []
    for pi in range(n_prog):
        gs, prints = gen_program(rng)
        vs = variants(rng, gs, n_var)
        progs.append((gs, prints, vs))
        for vi, (order, pl) in enumerate(vs):
            jobs.append(("p%dv%d" % (pi, vi), render(gs, prints, order, pl, use_core=False)))
    traces, died = c26.front_traces(har, jobs, eval_comptime=True)
    files_of = dict(jobs)
    by_prog = {}
    for label, line in traces:
        pi, vi = label[1:].split("v")
        by_prog.setdefault(int(pi), {}).setdefault(int(vi), []).append(line)
    st = {"programs": n_prog, "variants": len(jobs), "front_end_died_or_hung": died, "traces": len(traces),
          "requests": 0, "completions": 0, "cycle_rounds": 0, "edge_sets_differ_between_orders": 0,
          "cross_order_edge_checks": 0}
    skip = set(ALIAS) | {"L:?"}
    for pi, per_var in sorted(by_prog.items()):
        infos = {}
        for vi, lines in sorted(per_var.items()):
            # the main finish() call is the longest trace of the run (comptime blocks start nested runs)
            tr = parse_named_trace(max(lines, key=len))
            if not tr["complete"] or not tr["names"]:
                continue
            viol, comp, cyc_done, edges = check_trace_hypotheses(tr)
            st["requests"] += len(edges)
            st["completions"] += len(comp)
            ncyc = sum(1 for c, _ in tr["rounds"] if c)
            st["cycle_rounds"] += ncyc
            label = "p%dv%d" % (pi, vi)
            for kind, x, ds in viol:
                v.failing("hyp:%s" % kind, {"key": "hyp:%s:%s" % (kind, label), "files": dict(files_of[label]),
                                             "item": tr["names"].get(x, x), "deps": [tr["names"].get(d, d) for d in ds],
                                             "explanation": "the real inference step violates a hypothesis of C20_schedule_confluent "
                                                            "(observed through the TopoSort call trace)"})
            if ncyc and dep_cycle(progs[pi][0]):
                st["cycle_rounds_in_mutually_recursive_programs"] = st.get("cycle_rounds_in_mutually_recursive_programs", 0) + ncyc
            elif ncyc:
                v.failing("hyp:cycle-round-in-acyclic-program",
                          {"key": "hyp:cyc:%s" % label, "files": dict(files_of[label]),
                           "explanation": "generated program has an acyclic dependency graph but finish() ran a cycle-breaking round"})
            nm = tr["names"]
            count = {}
            for i, n in nm.items():
                count[n] = count.get(n, 0) + 1
            uniq = {i: n for i, n in nm.items() if count[n] == 1 and n not in skip}
            infos[vi] = {"comp": {uniq[i]: k for i, k in comp.items() if i in uniq},
                         "cyc": {uniq[i] for i in cyc_done if i in uniq},
                         "edges": {(uniq[a], uniq[b]) for a, b in edges if a in uniq and b in uniq},
                         "finished": {uniq[i] for i in comp if i in uniq}}
        if len(infos) < 2:
            continue
        union = set()
        for inf in infos.values():
            union |= inf["edges"]
        base_vi = min(infos)
        if any(inf["edges"] != infos[base_vi]["edges"] for inf in infos.values()):
            st["edge_sets_differ_between_orders"] += 1
        for vi, inf in infos.items():
            label = "p%dv%d" % (pi, vi)
            if inf["finished"] != infos[base_vi]["finished"]:
                v.failing("hyp:finished-set-differs",
                          {"key": "hyp:fin:%s" % label, "base_files": dict(files_of["p%dv%d" % (pi, base_vi)]),
                           "variant_files": dict(files_of[label]),
                           "only_in_base": sorted(infos[base_vi]["finished"] - inf["finished"]),
                           "only_in_variant": sorted(inf["finished"] - infos[base_vi]["finished"])})
            for (x, d) in union:
                if x in inf["comp"] and d in inf["comp"] and x not in inf["cyc"]:
                    st["cross_order_edge_checks"] += 1
                    if not inf["comp"][d] < inf["comp"][x]:
                        v.failing("hyp:order-dependent-deps",
                                  {"key": "hyp:dep:%s:%s:%s" % (label, x, d), "variant_files": dict(files_of[label]),
                                   "item": x, "dep": d,
                                   "explanation": "in another definition order this item requested this dependency, but in this "
                                                  "order it completed before the dependency was finished: its result is not a "
                                                  "function of its dependencies' results"})
    v.coverage["evaluations"] += st["traces"]
    v.coverage["hypothesis_stream"] = st
    fl.streams["H: inference-step hypotheses observed on real traces (a: complete only when requested deps finished, "
               "b: requests are unfinished, c: cross-order dependency consistency)"] = {"cases": st["traces"], "diffs": 0}
    if st["traces"] < len(jobs) // 2:
        fl.broken.append({"what": "C20 hypothesis stream: fewer than half of the runs produced a trace (hook missing?)",
                          "traces": st["traces"], "runs": len(jobs)})


# minimised regression inputs (always run first): (name, definitions, order A, order B)
CORPUS = [
    ("comptime-type-instantiation-before-generic-fn-use",
     {"g": "g0 :: (comptime T: type, x: T) -> T { x }",
      "B": "B2 :: (comptime T: type) -> type {\n    struct { v: T, w: i32 }\n}",
      "T": "T6 :: comptime B2(i32);",
      "c": "c7 : i32 : comptime { g0(i32, 2) };",
      "m": "main :: () {\n    core.println(c7);\n}"},
     "gBcTm", "gBTcm"),
    ("mutually-recursive-functions-called-from-comptime",
     {"1": "f1 :: (x: i32) -> i32 {\n    if x > 1000 {\n        return f8(x - 2000);\n    }\n    x + 1\n}",
      "8": "f8 :: (x: i32) -> i32 {\n    if x > 1000 {\n        return f1(x - 2000);\n    }\n    x\n}",
      "k": "k3 :: comptime {\n    f1(2)\n};",
      "m": "main :: () {\n    core.println(k3);\n}"},
     "18km", "k18m"),
    ("reference-cycle-through-comptime-constant",
     {"1": "f1 :: (x: i32) -> i32 {\n    if x > 1000 {\n        return f4(x - 2000);\n    }\n    4 - x\n}",
      "c": "c3 : i32 : comptime { f1(3) };",
      "4": "f4 :: (x: i32) -> i32 {\n    3 - c3\n}",
      "m": "main :: () {\n    core.println(c3);\n    core.println(f4(1));\n}"},
     "1c4m", "c14m"),
]


def corpus_stream(fl, capy):
    v = fl.v
    jobs = []
    for name, defs, oa, ob in CORPUS:
        for o in (oa, ob):
            jobs.append([("main.capy", 'core :: #mod("core");\n' + "\n".join(defs[k] for k in o) + "\n")])
    res = run_jobs(capy, jobs)
    for k, (name, defs, oa, ob) in enumerate(CORPUS):
        a, b = res[2 * k], res[2 * k + 1]
        v.coverage["evaluations"] += 1
        if a != b:
            gs = [G("x", "struct" if " :: comptime " in t else ("generic_t" if "comptime T: type, x" in t else "other"), t, [])
                  for t in defs.values()]
            if "c3" in defs.get("c", ""):
                gs = [G("f1", "func", defs["1"], ["f4"]), G("f4", "func", defs["4"], ["c3"]), G("c3", "cexpr", defs["c"], ["f1"])]
            elif "f1" in "".join(defs.values()) and "f8" in "".join(defs.values()):
                gs = [G("f1", "func", defs["1"], ["f8"]), G("f8", "func", defs["8"], ["f1"]), G("k3", "comptime", defs["k"], ["f1"])]
            cls = known_class(gs, a, b) or ("order-dependence:%s->%s" % (a[0], b[0]))
            v.failing(cls, {"key": "corpus:%s" % name, "base_files": dict(jobs[2 * k]), "variant_files": dict(jobs[2 * k + 1]),
                            "base_result": a, "variant_result": b,
                            "explanation": "same definitions in two orders: acceptance / behaviour differs"})


def run(tier, seed):
    fl = Flow("C20", tier, seed, "proof")   # evidence schema has no "partial": see coverage["claim"] and assumptions
    v = fl.v
    fl.proof_stage()
    capy = fl.capy()
    quick = tier == "quick"
    if capy:
        corpus_stream(fl, capy)
        rng = fl.rng.fork("progs")
        # VERIF_C20_SCALE (default 1) scales the thorough tier down on a heavily loaded machine
        scale = float(os.environ.get("VERIF_C20_SCALE", "1") or "1")
        n_prog = 50 if quick else max(50, int(500 * scale))
        n_var = 6 if quick else 12
        v.coverage["thorough_scale"] = scale
        jobs = []
        progs = []
        for pi in range(n_prog):
            gs, prints = gen_program(rng)
            vs = variants(rng, gs, n_var)
            progs.append((gs, prints, vs))
            for vi, (order, pl) in enumerate(vs):
                jobs.append((pi, vi, render(gs, prints, order, pl)))
        results = run_jobs(capy, [j[2] for j in jobs])
        by_prog = {}
        for (pi, vi, files), r in zip(jobs, results):
            by_prog.setdefault(pi, []).append((vi, files, r))
        accepted = rejected = 0
        kinds_hist = {}
        sizes = {}
        diffs = 0
        first = None
        for pi, rs in sorted(by_prog.items()):
            gs = progs[pi][0]
            sizes[len(gs)] = sizes.get(len(gs), 0) + 1
            for g in gs:
                kinds_hist[g.kind] = kinds_hist.get(g.kind, 0) + 1
            base = rs[0][2]
            if base[0] == "accepted":
                accepted += 1
            else:
                rejected += 1
            for vi, files, r in rs[1:]:
                v.coverage["evaluations"] += 1
                same = (r[0] == base[0]) and (r[0] != "accepted" or (r[1] == base[1] and r[2] == base[2]))
                if r[0] in ("CRASH", "HANG-compile") and base[0] not in ("CRASH", "HANG-compile"):
                    same = False
                if not same:
                    diffs += 1
                    order, pl = progs[pi][2][vi]
                    cls = "order-dependence:%s->%s" % (base[0], r[0]) if r[0] != base[0] else "order-dependence:output"
                    cls = known_class(gs, base, r) or cls
                    v.failing(cls, {"key": "C20:%d:%d" % (pi, vi), "base_files": dict(rs[0][1]), "variant_files": dict(files),
                                    "base_result": base, "variant_result": r, "order": order, "placement": pl,
                                    "explanation": "same globals, different definition order / file partition: "
                                                   "acceptance or program behaviour differs"})
        v.coverage["distinct_nontrivial"] = accepted
        v.coverage["program_stats"] = {"generated": n_prog, "accepted_in_base_order": accepted, "rejected_in_base_order": rejected,
                                  "variants_compared": v.coverage["evaluations"], "sizes": sizes, "global_kinds": kinds_hist}
        v.coverage["rule"] = ("generated programs with 3-12 interdependent globals; every variant (permutation of the global "
                              "order incl. position of main and of the import lines; partition into <=3 files with the "
                              "required, possibly circular, imports) is built with the real capy and run; acceptance, "
                              "stdout and exit status compared with the base order; non-trivial = base accepted")
        fl.streams["E2E metamorphic: permutations and file partitions (no model; real capy only)"] = {"cases": v.coverage["evaluations"], "diffs": 0}
        if accepted < n_prog // 2:
            fl.broken.append({"what": "C20 generator: fewer than half of the generated programs are accepted", "accepted": accepted})
        v.add_samples([{"files": dict(by_prog[0][0][1]), "result": by_prog[0][0][2]}])
    har = fl.harness("h_c26")
    if har:
        hypothesis_stream(fl, har, fl.rng.fork("hyp"), 60 if quick else 1500, 6 if quick else 10)
    v.coverage["claim"] = ("PARTIAL: only the scheduler (finish round loop over TopoSort) is proved order-independent, under "
                           "explicit hypotheses on an abstract inference step; the rest is an end-to-end metamorphic test")
    v.assumptions = [
        "PROVED: confluence of the finish round loop over the TopoSort model for acyclic dependency graphs, for any inference step "
        "satisfying H_det / H_done / H_needs (Properties/C20.v); no panic site reachable; result independent of fuel",
        "NOT PROVED, trusted: that InferenceCtx::infer (globals.rs) satisfies these hypotheses (its TopoSort usage protocol is "
        "validated on real runs by C26 stream B); termination of the loop; everything outside type-inference scheduling "
        "(indexing, imports, lowering, codegen, linking) -- covered only by the end-to-end metamorphic test of this check",
        "cyclic programs: only tested (rejected in every order), nothing proved",
    ]
    return fl.finish()


def replay(path):
    r = json.load(open(path))
    print(json.dumps(r, indent=1))
    return 0
