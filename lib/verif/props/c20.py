"""C20 — Results do not depend on the order of definitions or files (DESIGN.md C20).

LEVEL: partial.
Proved (coq/Properties/C20.v): the round loop of InferenceCtx::finish over the TopoSort
model yields the same results for every order of the seed, for acyclic dependency graphs
and ANY inference step satisfying explicit hypotheses (function of the dependencies'
results; completes only when they are finished; asks only for unfinished real
dependencies); it reaches no panic site.  The usage protocol these hypotheses induce is the
one validated on real runs by C26 stream B.
Tested only (this file): generated accepted programs with 3-12 interdependent globals
(consts, comptime blocks, struct / distinct / array types, functions, generics) are built
with the real `capy` under permutations of the global order and partitions into up to 3
files with (possibly circular) imports; acceptance, stdout and exit status must not change."""
import itertools
import json
import os
import subprocess

from .. import common as C
from ..flow import Flow

FILES = ["main", "fa", "fb"]
ALIAS = ["mm", "fa", "fb"]      # a global named `main` in another file would be a second entry point


# ----------------------------------------------------------------------------------
# program generator: a list of globals in "logical" order; text uses {name} placeholders
class G:
    def __init__(self, name, kind, text, deps, meta=None):
        self.name, self.kind, self.text, self.deps, self.meta = name, kind, text, deps, meta or {}


def gen_program(rng, nmin=3, nmax=12, with_comptime=True):
    n = rng.range(nmin, nmax)
    gs = []
    kinds = ["const", "const", "cexpr", "func", "func", "struct", "distinct", "usz", "array", "generic_t", "generic_k"]
    if with_comptime:
        kinds += ["comptime", "cexpr"]

    def of(kind):
        return [g for g in gs if g.kind in kind]

    def ref(g):
        return "{%s}" % g.name

    def atom(deps, in_func, const_only=False):
        c = []
        c += [("lit", None)] * 2
        if in_func:
            c += [("x", None)] * 2
        for g in of(("const", "cexpr", "comptime")):
            c.append(("val", g))
        if not const_only or True:
            for g in of(("func",)):
                c.append(("call", g))
            for g in of(("generic_t",)):
                c.append(("gt", g))
            for g in of(("generic_k",)):
                c.append(("gk", g))
        k, g = rng.choice(c)
        if k == "lit":
            return str(rng.range(1, 5))
        if k == "x":
            return "x"
        deps.add(g.name)
        if k == "val":
            return ref(g)
        arg = "x" if (in_func and rng.chance(1, 2)) else str(rng.range(1, 4))
        if k == "call":
            return "%s(%s)" % (ref(g), arg)
        if k == "gt":
            return "%s(i32, %s)" % (ref(g), arg)
        ks = of(("const",))
        if ks and rng.chance(1, 2):
            kk = rng.choice(ks)
            deps.add(kk.name)
            return "%s(%s, %s)" % (ref(g), ref(kk), arg)
        return "%s(%d, %s)" % (ref(g), rng.range(1, 3), arg)

    def expr(deps, in_func, depth=2):
        if depth == 0 or rng.chance(1, 3):
            return atom(deps, in_func)
        op = rng.choice(["+", "+", "-", "*"])
        if op == "*":
            return "(%s) * %d" % (expr(deps, in_func, depth - 1), rng.range(2, 3))
        return "%s %s %s" % (expr(deps, in_func, depth - 1), op, expr(deps, in_func, depth - 1))

    def type_ref(deps):
        ts = of(("struct", "distinct"))
        if ts and rng.chance(2, 3):
            t = rng.choice(ts)
            deps.add(t.name)
            return t
        return None

    def value_of(t, deps):
        if t is None:
            return str(rng.range(1, 9))
        deps.add(t.name)
        if t.kind == "distinct":
            return "%s.(%d)" % (ref(t), rng.range(1, 9))
        fs = []
        for fname, ft in t.meta["fields"]:
            fs.append("%s = %s" % (fname, value_of(ft, deps)))
        return "%s.{ %s }" % (ref(t), ", ".join(fs))

    def first_i32_path(t):
        """a field path of struct t ending in an i32 (or None)"""
        for fname, ft in t.meta["fields"]:
            if ft is None:
                return fname
            if ft.kind == "struct":
                p = first_i32_path(ft)
                if p:
                    return fname + "." + p
        return None

    for i in range(n):
        kind = rng.choice(kinds)
        deps = set()
        if kind == "const":
            g = G("c%d" % i, kind, "c%d : i32 : %d;" % (i, rng.range(1, 20)), deps)
        elif kind == "usz":
            v = rng.range(1, 4)
            g = G("n%d" % i, kind, "n%d : usize : %d;" % (i, v), deps, {"v": v})
        elif kind == "cexpr":
            e = expr(deps, False)
            g = G("c%d" % i, kind, "c%d : i32 : comptime { %s };" % (i, e), deps)
        elif kind == "comptime":
            e1 = expr(deps, False)
            e2 = expr(deps, False, 1)
            g = G("k%d" % i, kind, "k%d :: comptime {\n    y : i32 = %s;\n    y + %s\n};" % (i, e1, e2), deps)
        elif kind == "distinct":
            g = G("D%d" % i, kind, "D%d :: distinct i32;" % i, deps)
        elif kind == "struct":
            fields = [("a", None)]
            for fn in ["b", "c"][:rng.range(0, 2)]:
                fields.append((fn, type_ref(deps)))
            txt = "T%d :: struct { %s };" % (i, ", ".join("%s: %s" % (fn, "i32" if ft is None else ref(ft)) for fn, ft in fields))
            g = G("T%d" % i, kind, txt, deps, {"fields": fields})
        elif kind == "array":
            us = of(("usz",))
            if not us:
                g = G("n%d" % i, "usz", "n%d : usize : 2;" % i, deps, {"v": 2})
            else:
                u = rng.choice(us)
                deps.add(u.name)
                g = G("A%d" % i, kind, "A%d :: [%s]i32;" % (i, ref(u)), deps, {"n": u.meta["v"]})
        elif kind == "generic_t":
            g = G("g%d" % i, kind, "g%d :: (comptime T: type, x: T) -> T { x }" % i, deps)
        elif kind == "generic_k":
            e = expr(deps, True, 1)
            g = G("h%d" % i, kind, "h%d :: (comptime K: i32, x: i32) -> i32 { K + %s }" % (i, e), deps)
        else:  # func
            body = []
            ss = of(("struct",))
            extra = ""
            if ss and rng.chance(1, 2):
                t = rng.choice(ss)
                p = first_i32_path(t)
                body.append("    t := %s;" % value_of(t, deps))
                if p:
                    extra = " + t.%s" % p
            arrs = of(("array",))
            if arrs and rng.chance(1, 3):
                a = rng.choice(arrs)
                deps.add(a.name)
                body.append("    arr : %s;" % ref(a))
                extra += " + i32.(arr.len)"
            e = expr(deps, True)
            body.append("    %s%s" % (e, extra))
            g = G("f%d" % i, kind, "f%d :: (x: i32) -> i32 {\n%s\n}" % (i, "\n".join(body)), deps)
        g.deps = sorted(deps)
        gs.append(g)
    # main prints every value-like global
    prints = []
    mdeps = set()
    for g in gs:
        if g.kind in ("const", "cexpr", "comptime"):
            prints.append("{%s}" % g.name)
        elif g.kind == "usz":
            prints.append("{%s}" % g.name)
        elif g.kind == "func":
            prints.append("{%s}(%d)" % (g.name, rng.range(1, 5)))
        elif g.kind == "generic_t":
            prints.append("{%s}(i32, %d)" % (g.name, rng.range(1, 9)))
        elif g.kind == "generic_k":
            prints.append("{%s}(%d, %d)" % (g.name, rng.range(1, 4), rng.range(1, 5)))
        elif g.kind == "array":
            prints.append(None)
        mdeps.add(g.name)
    return gs, prints


def render(gs, prints, order, placement, use_core=True):
    """order: permutation of range(len(gs)) (definition order inside each file);
    placement: file index per global. Returns [(filename, text)], main.capy first."""
    nfiles = max(placement) + 1 if placement else 1
    where = {g.name: placement[i] for i, g in enumerate(gs)}

    def subst(text, here):
        out = text
        for g in gs:
            tgt = g.name if where[g.name] == here else "%s.%s" % (ALIAS[where[g.name]], g.name)
            out = out.replace("{%s}" % g.name, tgt)
        return out

    def needed(text, here):
        return sorted({where[g.name] for g in gs if ("{%s}" % g.name) in text and where[g.name] != here})

    files = []
    for fi in range(nfiles):
        defs = []
        imports = set()
        for i in order:
            if placement[i] == fi:
                defs.append(subst(gs[i].text, fi))
                imports.update(needed(gs[i].text, fi))
        if fi == 0:
            body = []
            for k, p in enumerate(prints):
                if p is None:
                    continue
                imports.update(needed(p, 0))
                if use_core:
                    body.append("    core.println(%s);" % subst(p, 0))
                else:
                    body.append("    v%d := %s;" % (k, subst(p, 0)))
            main = "main :: () {\n%s\n}" % "\n".join(body)
            # main's position also follows the permutation (deterministically derived from it)
            pos = (order[0] if order else 0) % (len(defs) + 1)
            defs.insert(pos, main)
        head = []
        if fi == 0 and use_core:
            head.append('core :: #mod("core");')
        for o in sorted(imports):
            head.append('%s :: #import("%s.capy");' % (ALIAS[o], FILES[o]))
        # import lines move too: before or after the definitions
        if order and order[-1] % 2 == 1:
            text = "\n".join(defs + head) + "\n"
        else:
            text = "\n".join(head + defs) + "\n"
        files.append((FILES[fi] + ".capy", text))
    return files


def variants(rng, gs, n_variants, exhaustive_upto=5):
    n = len(gs)
    base = (list(range(n)), [0] * n)
    vs = [base]
    if n <= exhaustive_upto:
        perms = [list(p) for p in itertools.permutations(range(n))][1:]
        rng.shuffle(perms)
        for p in perms[:n_variants]:
            vs.append((p, [0] * n))
    while len(vs) < n_variants + 1:
        p = rng.shuffle(list(range(n)))
        k = rng.range(1, 3)
        pl = [rng.below(k) for _ in range(n)] if rng.chance(2, 3) else [0] * n
        vs.append((p, pl))
    # always at least one split variant in the original order and one reversed
    vs.append((list(range(n)), [i % 2 for i in range(n)]))
    vs.append((list(reversed(range(n))), [i % 3 for i in range(n)]))
    return vs


def build_and_run(capy, files):
    with C.scratch("verif-c20-") as d:
        for name, text in files:
            open(os.path.join(d, name), "w").write(text)
        try:
            p = subprocess.run([capy, "build", "main.capy", "--mod-dir", C.REPO], cwd=d, stdout=subprocess.PIPE,
                               stderr=subprocess.STDOUT, timeout=120)
        except subprocess.TimeoutExpired:
            return ("HANG-compile", "", None)
        exe = os.path.join(d, "out", "main")
        if p.returncode != 0 or not os.path.exists(exe):
            out = p.stdout.decode("utf-8", "replace")
            errs = sorted({l.strip() for l in out.split("\n") if l.startswith("error")})
            crashed = ("panicked" in out) or p.returncode not in (0, 1)
            return ("CRASH" if crashed else "rejected", "|".join(errs)[:600], p.returncode)
        try:
            r = subprocess.run([exe], cwd=d, stdout=subprocess.PIPE, stderr=subprocess.STDOUT, timeout=20)
        except subprocess.TimeoutExpired:
            return ("accepted", "HANG-run", None)
        return ("accepted", r.stdout.decode("utf-8", "replace"), r.returncode)


def trace_programs(rng, n):
    """Programs for C26 stream B2 (in-process front end, no core, no execution):
    random orders/partitions of generated programs, a third of them made cyclic."""
    out = []
    for k in range(n):
        gs, prints = gen_program(rng, 3, 12, with_comptime=False)
        nn = len(gs)
        order = rng.shuffle(list(range(nn)))
        kf = rng.range(1, 3)
        pl = [rng.below(kf) for _ in range(nn)]
        files = render(gs, prints, order, pl, use_core=False)
        if rng.chance(1, 3):
            # add mutually dependent globals (cycle-breaking rounds, NotYetResolved diagnostics)
            a, b = "z%da" % k, "z%db" % k
            extra = "%s :: (x: i32) -> i32 { %s(x) }\n%s :: (x: i32) -> i32 { %s(x) }\n" % (a, b, b, a)
            extra += "y%da : i32 : y%db;\ny%db : i32 : y%da;\n" % (k, k, k, k) if rng.chance(1, 2) else ""
            files[0] = (files[0][0], files[0][1] + extra)
        out.append(("gen%d" % k, files))
    return out


def run(tier, seed):
    fl = Flow("C20", tier, seed, "proof")   # evidence schema has no "partial": see coverage["claim"] and assumptions
    v = fl.v
    fl.proof_stage()
    capy = fl.capy()
    quick = tier == "quick"
    if capy:
        rng = fl.rng.fork("progs")
        n_prog = 50 if quick else 500
        n_var = 6 if quick else 12
        jobs = []
        progs = []
        for pi in range(n_prog):
            gs, prints = gen_program(rng)
            vs = variants(rng, gs, n_var)
            progs.append((gs, prints, vs))
            for vi, (order, pl) in enumerate(vs):
                jobs.append((pi, vi, render(gs, prints, order, pl)))
        results = C.parallel_map(lambda j: build_and_run(capy, j[2]), jobs)
        by_prog = {}
        for (pi, vi, files), r in zip(jobs, results):
            by_prog.setdefault(pi, []).append((vi, files, r))
        accepted = rejected = 0
        kinds_hist = {}
        sizes = {}
        diffs = 0
        first = None
        for pi, rs in sorted(by_prog.items()):
            gs = progs[pi][0]
            sizes[len(gs)] = sizes.get(len(gs), 0) + 1
            for g in gs:
                kinds_hist[g.kind] = kinds_hist.get(g.kind, 0) + 1
            base = rs[0][2]
            if base[0] == "accepted":
                accepted += 1
            else:
                rejected += 1
            for vi, files, r in rs[1:]:
                v.coverage["evaluations"] += 1
                same = (r[0] == base[0]) and (r[0] != "accepted" or (r[1] == base[1] and r[2] == base[2]))
                if r[0] in ("CRASH", "HANG-compile") and base[0] not in ("CRASH", "HANG-compile"):
                    same = False
                if not same:
                    diffs += 1
                    order, pl = progs[pi][2][vi]
                    cls = "order-dependence:%s->%s" % (base[0], r[0]) if r[0] != base[0] else "order-dependence:output"
                    v.failing(cls, {"key": "C20:%d:%d" % (pi, vi), "base_files": dict(rs[0][1]), "variant_files": dict(files),
                                    "base_result": base, "variant_result": r, "order": order, "placement": pl,
                                    "explanation": "same globals, different definition order / file partition: "
                                                   "acceptance or program behaviour differs"})
        v.coverage["distinct_nontrivial"] = accepted
        v.coverage["program_stats"] = {"generated": n_prog, "accepted_in_base_order": accepted, "rejected_in_base_order": rejected,
                                  "variants_compared": v.coverage["evaluations"], "sizes": sizes, "global_kinds": kinds_hist}
        v.coverage["rule"] = ("generated programs with 3-12 interdependent globals; every variant (permutation of the global "
                              "order incl. position of main and of the import lines; partition into <=3 files with the "
                              "required, possibly circular, imports) is built with the real capy and run; acceptance, "
                              "stdout and exit status compared with the base order; non-trivial = base accepted")
        fl.streams["E2E metamorphic: permutations and file partitions (no model; real capy only)"] = {"cases": v.coverage["evaluations"], "diffs": 0}
        if accepted < n_prog // 2:
            fl.broken.append({"what": "C20 generator: fewer than half of the generated programs are accepted", "accepted": accepted})
        v.add_samples([{"files": dict(by_prog[0][0][1]), "result": by_prog[0][0][2]}])
    v.coverage["claim"] = ("PARTIAL: only the scheduler (finish round loop over TopoSort) is proved order-independent, under "
                           "explicit hypotheses on an abstract inference step; the rest is an end-to-end metamorphic test")
    v.assumptions = [
        "PROVED: confluence of the finish round loop over the TopoSort model for acyclic dependency graphs, for any inference step "
        "satisfying H_det / H_done / H_needs (Properties/C20.v); no panic site reachable; result independent of fuel",
        "NOT PROVED, trusted: that InferenceCtx::infer (globals.rs) satisfies these hypotheses (its TopoSort usage protocol is "
        "validated on real runs by C26 stream B); termination of the loop; everything outside type-inference scheduling "
        "(indexing, imports, lowering, codegen, linking) -- covered only by the end-to-end metamorphic test of this check",
        "cyclic programs: only tested (rejected in every order), nothing proved",
    ]
    return fl.finish()


def replay(path):
    r = json.load(open(path))
    print(json.dumps(r, indent=1))
    return 0
