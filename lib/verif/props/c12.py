"""C12 — Implicit conversion is consistent, order-independent and weaker than casting
(DESIGN.md C12/C13).  Also hosts the machinery shared with C13 (type universe,
API-level stream A, law evaluation)."""
import json
import os

from .. import common as C
from .. import coqtools
from ..flow import Flow

# ------------------------------------------------------------------ type universe
# Types are token strings in the syntax documented in ocaml/C12/driver.ml.

INT_W = [8, 16, 32, 64, 128, 255]
PRIMS = (["i%d" % w for w in INT_W] + ["u%d" % w for w in INT_W] +
         ["i0", "u0", "f0", "f32", "f64", "BOOL", "STR", "CHAR", "TYPE", "ANY",
          "RP 0", "RP 1", "RS", "NIL", "VOID"])
SPECIAL = ["UNK", "NYR", "AJ", "FILE 1", "PF 1"]
SMALL = ["i32", "u8", "i0", "u0", "f0", "f32", "BOOL", "STR", "VOID", "NIL", "i64", "CHAR"]


class Nominals:
    """uid pool: every nominal shape (kind, definition) owns 3 uids, so types with the
    same uid always have the same definition and there are 3 structurally identical
    nominal types of every shape."""

    def __init__(self):
        self.ids = {}

    def uid(self, kind, shape, k):
        key = (kind, shape)
        if key not in self.ids:
            self.ids[key] = len(self.ids)
        return 1000 + 3 * self.ids[key] + k


NOM = Nominals()


def distinct(t, k):
    return "D %d %s" % (NOM.uid("D", t, k), t)


def members(ms):
    return "%d %s" % (len(ms), " ".join("%d %s" % (n, t) for n, t in ms))


def struct(ms, k):
    body = members(ms)
    return "S %d %s" % (NOM.uid("S", body, k), body)


def anon(ms):
    return "AS " + members(ms)


def mk_enum(euid, vuid0, payloads):
    vs = ["V %d %d %d %s %d" % (euid, i, vuid0 + i, p, i) for i, p in enumerate(payloads)]
    return "E %d %d %s" % (euid, len(vs), " ".join(vs)), vs


PAY = ["i32", "VOID", "S 40 1 0 i32", "f32"]
E1, V1 = mk_enum(1, 10, PAY)
E2, V2 = mk_enum(2, 20, PAY)            # same names and payloads as E1, different uids
E3, V3 = mk_enum(3, 30, ["VOID", "VOID"])   # zero-sized variants only
ENUMS = [E1, E2, E3]
ATOMS = [E1, E2, E3] + V1 + V2 + V3
FN_PTRS = ["FP 0 VOID", "FP 1 -1,0,0 i32 i32", "FP 1 -1,0,0 i32 VOID", "FP 2 -1,0,0 i32 -1,0,0 u8 BOOL",
           "FN 1 -1,0,0 i32 i32 1", "FN 1 -1,0,0 i32 i32 2", "FN 1 0,0,0 TYPE i32 3", "FN 0 VOID 4", "PF 2"]

UNARY = [
    ("AA2", lambda t: "AA 2 " + t), ("A2", lambda t: "A 2 " + t), ("A0", lambda t: "A 0 " + t),
    ("A3", lambda t: "A 3 " + t),
    ("SL", lambda t: "SL " + t), ("P0", lambda t: "P 0 " + t), ("P1", lambda t: "P 1 " + t),
    ("O", lambda t: "O " + t), ("D0", lambda t: distinct(t, 0)), ("D1", lambda t: distinct(t, 1)),
    ("S0", lambda t: struct([(0, t)], 0)), ("S1", lambda t: struct([(0, t)], 1)),
    ("AS", lambda t: anon([(0, t)])),
]

# types outside the well-formed / uid-consistent universe: only compared model vs implementation
ODD = ["i7", "u63", "i200", "f16", "f128", "u1",
       "D 1000 BOOL", "S 1003 1 0 BOOL",                     # uid reused with another definition
       "AS 2 0 i32 0 BOOL", "S 77 2 0 i32 0 BOOL", "S 78 2 0 BOOL 0 i32",   # duplicate member names
       "V 9 0 90 i32 0", "V 9 1 91 i32 1", "V 9 2 92 VOID 2",   # enum 9 is never registered
       "V 1 0 10 BOOL 0",                                     # variant uid reused
       "E 1 1 V 1 0 10 i32 0",                                # enum uid reused with another variant list
       "E 4 1 i32",                                           # enum whose variant list holds a non-variant
       "AS 0", "S 50 0", "AA 0 i32", "AA 2 UNK", "EU STR STR"]


def build_universe(rng, size):
    """Deterministic core + seeded sample up to `size` types (no duplicates)."""
    seen = set()
    out = []

    def add(t):
        if t not in seen:
            seen.add(t)
            out.append(t)

    for t in PRIMS + SPECIAL + ATOMS + FN_PTRS:
        add(t)
    lvl1_small = []
    for b in SMALL + [V1[0], V2[0], V1[1], E1]:
        for _, f in UNARY:
            lvl1_small.append(f(b))
    lvl1_small += ["EU STR i32", "EU STR u8", "EU i32 STR", "EU STR VOID", "EU %s i32" % E1, "EU STR i0",
                   "EU %s %s" % (distinct("STR", 0), "i32"), "EU STR f32",
                   anon([(0, "i32"), (1, "BOOL")]), anon([(1, "BOOL"), (0, "i32")]), anon([(0, "i0"), (1, "BOOL")]),
                   struct([(0, "i32"), (1, "BOOL")], 0), struct([(0, "i32"), (1, "BOOL")], 1),
                   struct([(1, "BOOL"), (0, "i32")], 0), anon([(0, "i32"), (2, "BOOL")]),
                   struct([], 0), anon([])]
    # the must-have related shapes first (regression of the known findings)
    core2 = []
    for inner in (struct([(0, "i32")], 0), struct([(0, "i32")], 1), distinct("i32", 0), distinct("i32", 1),
                  V1[0], V2[0], anon([(0, "i32")]), anon([(0, "i0")])):
        for f in ("AA 2 ", "A 2 ", "SL ", "O ", "P 0 ", "P 1 "):
            core2.append(f + inner)
        core2.append(distinct(inner, 0))
        core2.append("EU STR " + inner)
    core2 += ["O " + V1[1], "O " + V3[1], "O VOID", "O TYPE", "EU STR " + V1[1], "EU STR " + V3[1],
              struct([(0, "i32")], 2), "V 7 0 70 %s 0" % struct([(0, "i32")], 0)]
    for t in core2:
        add(t)
    pool1 = list(lvl1_small)
    rng.shuffle(pool1)
    # level 1 over the remaining primitives, level 2 over level 1 (sampled)
    lvl1_rest = [f(b) for b in PRIMS + SPECIAL + ATOMS if b not in SMALL for _, f in UNARY]
    lvl2 = [f(b) for b in lvl1_small + core2 for _, f in UNARY]
    lvl2 += ["EU %s %s" % (a, b) for a in ("STR", distinct("STR", 0), E1) for b in lvl1_small[:60]]
    rng.shuffle(lvl1_rest)
    rng.shuffle(lvl2)
    budget = max(0, size - len(out))
    q1 = min(len(pool1), budget * 2 // 5)
    for t in pool1[:q1]:
        add(t)
    q2 = (size - len(out)) // 4
    for t in lvl1_rest[:q2]:
        add(t)
    for t in lvl2:
        if len(out) >= size:
            break
        add(t)
    return out


# ------------------------------------------------------------------ stream A
BLOCK = 250


def pair_lines(universe_a, universe_b, enums):
    """One line per (a, block of b's)."""
    lines = []
    index = []
    pre = "PAIRS " + " ".join(enums)
    for ia, a in enumerate(universe_a):
        for s in range(0, len(universe_b), BLOCK):
            blk = universe_b[s:s + BLOCK]
            lines.append("%s ; %s ; %s" % (pre, a, " ; ".join(blk)))
            index.append((ia, s, len(blk)))
    return lines, index


def resolve_max(code, a, b):
    if code == "A":
        return a
    if code == "B":
        return b
    if code.startswith("="):
        return code[1:].replace("_", " ")
    return code       # N or P


class PairResults:
    """Parsed outputs of one tool over the pair matrix (model words carry '|<classes>')."""

    def __init__(self, ua, ub):
        self.ua = ua
        self.ub = ub
        self.unary = [None] * len(ua)
        self.unary_x = [""] * len(ua)
        self.rows = [[None] * len(ub) for _ in ua]
        self.extra = [[""] * len(ub) for _ in ua]

    def load(self, index, outputs):
        bad = 0
        for (ia, s, n), out in zip(index, outputs):
            ws = out.split(" ")
            if out.startswith("!") or len(ws) != n + 1:
                bad += 1
                continue
            u = ws[0].split("|")
            self.unary[ia] = u[0]
            self.unary_x[ia] = u[1] if len(u) > 1 else ""
            for k, w in enumerate(ws[1:]):
                p = w.split("|")
                self.rows[ia][s + k] = p[0]
                self.extra[ia][s + k] = p[1] if len(p) > 1 else ""
        return bad


def run_stream_a(fl, drv, har, ua, ub, name, enums=ENUMS):
    """Runs model and implementation on ua x ub. Returns (impl, model) PairResults or None."""
    lines, index = pair_lines(ua, ub, enums)
    impl_out = C.run_lines([har, "api"], lines, case_timeout=30)
    model_out = C.run_lines(drv, lines, indexed=False)
    impl = PairResults(ua, ub)
    model = PairResults(ua, ub)
    bi = impl.load(index, impl_out)
    bm = model.load(index, model_out)
    if bi or bm:
        fl.broken.append({"what": "stream '%s': tool failed on %d (impl) / %d (model) lines" % (name, bi, bm),
                          "first_impl": next((o for o in impl_out if o.startswith("!")), None),
                          "first_model": next((o for o in model_out if o.startswith("!")), None)})
        return None
    diffs = 0
    first = None
    for ia, a in enumerate(ua):
        if impl.unary[ia] != model.unary[ia]:
            diffs += 1
            if first is None:
                first = {"a": a, "functions": "might_be_weak,is_zero_sized,can_be_created_from_nothing",
                         "implementation": impl.unary[ia], "model": model.unary[ia]}
        ri = impl.rows[ia]
        rm = model.rows[ia]
        if ri == rm:
            continue
        for ib, b in enumerate(ub):
            if ri[ib] != rm[ib]:
                diffs += 1
                if first is None:
                    first = {"a": a, "b": b, "format": WORD_FORMAT,
                             "implementation": ri[ib], "model": rm[ib]}
    fl.stream(name, len(ua) * len(ub), diffs, first)
    return impl, model


WORD_FORMAT = ("fit,cast,weak,feq(false),feq(true),has_semantics_of,can_differentiate_from:"
               "max(N none|P panic|A =a|B =b|=type):fit(a,max),fit(b,max)")

MAX_CLASS = {"0": "max-not-accepting:unclassified", "1": "max-not-accepting:distinct-arm",
             "2": "max-not-accepting:zero-sized-to-type-under-sum"}
NT_CLASS = {"3": "nominal-into-own-wrapper", "5": "struct-into-variant-payload",
            "4": "nominal-crossing:unclassified"}


def check_laws(v, U, impl, model, prop):
    """Direct oracle: the laws evaluated on the IMPLEMENTATION's answers for every ordered pair
    of value types of the (square) universe U; classes come from the extracted classifiers."""
    n = len(U)
    val = [model.unary_x[i][1:2] == "1" for i in range(n)]
    kw = [model.unary_x[i][0:1] == "1" for i in range(n)]
    nominal = [model.unary_x[i][2:3] == "1" for i in range(n)]
    zs = [impl.unary[i][1:2] == "1" for i in range(n)]
    stats = {"pairs_checked": 0, "fit": 0, "weak": 0, "max_some": 0, "nominal_accepted": 0}
    for ia in range(n):
        if not val[ia]:
            continue
        a = U[ia]
        row = impl.rows[ia]
        for ib in range(n):
            if not val[ib]:
                continue
            b = U[ib]
            w = row[ib]
            head, mx, fits = w.split(":")
            stats["pairs_checked"] += 1
            fit, cast, weak = head[0], head[1], head[2]

            def payload(law, **kw_):
                d = {"key": "%s:%s:%s" % (law, a, b), "law": law, "a": a, "b": b, "format": WORD_FORMAT,
                     "implementation": w, "model": model.rows[ia][ib], "model_classes": model.extra[ia][ib]}
                d.update(kw_)
                return d
            if prop == "C12":
                if ia == ib and fit != "1":
                    v.failing("fit-not-reflexive", payload("fit_refl"))
                if fit == "1":
                    stats["fit"] += 1
                    if cast != "1":
                        v.failing("fit-not-cast", payload("fit_implies_cast"))
                if weak == "1":
                    stats["weak"] += 1
                    if fit != "1":
                        v.failing("weak-not-fit:anon-array-of-nominal" if kw[ia] else "weak-not-fit:unclassified",
                                  payload("weak_implies_fit"))
                if mx == "P":
                    v.failing("max-panics", payload("max_no_crash"))
                elif mx != "N":
                    stats["max_some"] += 1
                    c = resolve_max(mx, a, b)
                    acc_a = fits[0] == "1" or (c == "TYPE" and zs[ia])
                    acc_b = fits[1] == "1" or (c == "TYPE" and zs[ib])
                    if not (acc_a and acc_b):
                        v.failing(MAX_CLASS.get(model.extra[ia][ib][0:1], MAX_CLASS["0"]),
                                  payload("max_accepts_both", max=c, accepts_a=acc_a, accepts_b=acc_b))
                if ia < ib:
                    _, mx2, _ = impl.rows[ib][ia].split(":")
                    c1 = resolve_max(mx, a, b)
                    c2 = resolve_max(mx2, b, a)
                    if c1 != c2:
                        v.failing("max-order-dependent:known-order-class" if model.extra[ia][ib][2:3] == "1"
                                  else "max-order-dependent", payload("max_comm", max_ab=c1, max_ba=c2))
            else:
                if nominal[ia] and fit == "1":
                    stats["nominal_accepted"] += 1
                    code = model.extra[ia][ib][1:2]
                    if code in NT_CLASS:
                        v.failing(NT_CLASS[code], payload("nominal_never_crosses", ntarget_code=code))
                    if cast != "1":
                        v.failing("fit-not-cast", payload("fit_implies_cast"))
                # explicit casts distinct <-> underlying
                ta = a.split()
                if ta[0] == "D" and " ".join(ta[2:]) == b:
                    if cast != "1":
                        v.failing("cast-distinct-to-underlying-rejected", payload("cast_from_distinct"))
                    back = impl.rows[ib][ia].split(":")[0]
                    if back[1] != "1":
                        v.failing("cast-underlying-to-distinct-rejected", payload("cast_to_distinct"))
                    stats["distinct_casts"] = stats.get("distinct_casts", 0) + 1
    return stats


# ------------------------------------------------------------------ stream B (program level)
PRELUDE = """D1 :: distinct i32;
D2 :: distinct i32;
S1 :: struct { a: i32 };
S2 :: struct { a: i32 };
En1 :: enum { A: i32, B };
En2 :: enum { A: i32, B };
DS1 :: distinct S1;
DF :: distinct f32;
"""
EN1 = "E 5 2 V 5 0 6 i32 0 V 5 1 7 VOID 1"
EN2 = "E 8 2 V 8 0 9 i32 0 V 8 1 10 VOID 1"
# source text -> model type (uids are arbitrary but different per declaration)
SRC_TYPES = [
    ("i32", "i32"), ("i64", "i64"), ("u8", "u8"), ("f32", "f32"), ("bool", "BOOL"), ("str", "STR"),
    ("D1", "D 1 i32"), ("D2", "D 2 i32"), ("S1", "S 3 1 0 i32"), ("S2", "S 4 1 0 i32"),
    ("En1", EN1), ("En2", EN2), ("En1.A", "V 5 0 6 i32 0"), ("En2.A", "V 8 0 9 i32 0"),
    ("?i32", "O i32"), ("?D1", "O D 1 i32"), ("[2]i32", "A 2 i32"), ("[2]D1", "A 2 D 1 i32"),
    ("^i32", "P 0 i32"), ("^D1", "P 0 D 1 i32"), ("^D2", "P 0 D 2 i32"),
    ("DS1", "D 11 S 3 1 0 i32"), ("DF", "D 12 f32"), ("distinct'x", None),
]
SRC_TYPES = [(s, m) for s, m in SRC_TYPES if m is not None]
# untyped literals as provided values (C13's admitted exception): (expression, model type)
LITERALS = [("lit:5", "u0"), ("lit:1.5", "f0"), ("lit:.[1, 2]", "AA 2 u0")]
POSITIONS = ["annotation", "argument", "return", "assignment", "compound_add", "binary_add", "binary_eq",
             "if_else", "else_if"]


def program(pos, exp_src, prov_src):
    p = _program(pos, exp_src, "i32" if prov_src.startswith("lit:") else prov_src)
    if prov_src.startswith("lit:"):
        # use the literal instead of the parameter v (v stays declared, unused)
        lit = prov_src[4:]
        head, _, body = p.rpartition("t :: ")
        sig, brace, rest = body.partition("{")
        rest = rest.replace(" v;", " %s;" % lit).replace("{ v }", "{ %s }" % lit).replace("f(v)", "f(%s)" % lit) \
                   .replace(" v }", " %s }" % lit)
        p = head + "t :: " + sig + brace + rest
    return p


def _program(pos, exp_src, prov_src):
    p = PRELUDE
    if pos == "annotation":
        p += "t :: (v : %s) { x : %s = v; }\n" % (prov_src, exp_src)
    elif pos == "argument":
        p += "f :: (p : %s) {}\nt :: (v : %s) { f(v); }\n" % (exp_src, prov_src)
    elif pos == "return":
        p += "t :: (v : %s) -> %s { v }\n" % (prov_src, exp_src)
    elif pos == "assignment":
        p += "t :: (v : %s, w : %s) { x := w; x = v; }\n" % (prov_src, exp_src)
    elif pos == "compound_add":
        p += "t :: (v : %s, w : %s) { x := w; x += v; }\n" % (prov_src, exp_src)
    elif pos == "binary_add":
        p += "t :: (v : %s, w : %s) { r := w + v; }\n" % (prov_src, exp_src)
    elif pos == "binary_eq":
        p += "t :: (v : %s, w : %s) { r := w == v; }\n" % (prov_src, exp_src)
    elif pos == "if_else":
        p += "t :: (v : %s, w : %s, c : bool) { r := if c { w } else { v }; }\n" % (prov_src, exp_src)
    elif pos == "else_if":
        p += "t :: (v : %s, w : %s, c : bool) { r := if c { v } else { w }; }\n" % (prov_src, exp_src)
    return p + "main :: () {}\n"


def classify_prog(out):
    if out.startswith("PANIC"):
        return "PANIC"
    if out == "ok":
        return "ACCEPT"
    if out.startswith("diag:"):
        kinds = out[5:].split(",")
        if any(k in ("ty.Mismatch", "ty.IfMismatch", "ty.BinaryOpMismatch") for k in kinds):
            return "MISMATCH"
        if all(k.startswith("validation.") or k in ("ty.UnusedLocal",) for k in kinds):
            return "ACCEPT"
        return "OTHER:" + out[5:][:80]
    return "OTHER:" + out[:80]


def run_stream_b(fl, drv, har, prop):
    """Every (expected, provided) pair of SRC_TYPES in every position through the real front end;
    expect_match / max model decides accepted vs Mismatch vs panic."""
    v = fl.v
    cases = []
    for pos in POSITIONS:
        for es, em in SRC_TYPES:
            for ps, pm in SRC_TYPES + LITERALS:
                cases.append((pos, es, em, ps, pm))
    progs = [program(pos, es, ps) for (pos, es, em, ps, pm) in cases]
    outs = C.run_lines([har, "prog"], [p.encode().hex() for p in progs], case_timeout=20)
    # model: annotation/argument/return = expect_match(found=provided, Concrete expected);
    #        if/else = max(body, else) is Some
    mlines = []
    for (pos, es, em, ps, pm) in cases:
        if pos in ("annotation", "argument"):
            mlines.append("EM %s %s ; %d ; %s ; %s" % (EN1, EN2, 1 if ps == "lit:5" else 0, pm, em))
        elif pos == "return":
            # the body block of a function with a declared return type: expect_block_match, then expect_match
            mlines.append("ER %s %s ; %s ; %s" % (EN1, EN2, pm, em))
        elif pos == "assignment":
            mlines.append("ASSIGN %s %s ; %s ; %s" % (EN1, EN2, pm, em))
        elif pos in ("compound_add", "binary_add"):
            mlines.append("BIN %s %s ; add ; %s ; %s" % (EN1, EN2, em, pm))
        elif pos == "binary_eq":
            mlines.append("BIN %s %s ; eq ; %s ; %s" % (EN1, EN2, em, pm))
        elif pos == "if_else":
            mlines.append("PAIRS %s %s ; %s ; %s" % (EN1, EN2, em, pm))
        else:
            mlines.append("PAIRS %s %s ; %s ; %s" % (EN1, EN2, pm, em))
    mouts = C.run_lines(drv, mlines, indexed=False)
    diffs = 0
    first = None
    hist = {}
    crossing = []
    for (pos, es, em, ps, pm), prog, out, mo in zip(cases, progs, outs, mouts):
        got = classify_prog(out)
        if mo.startswith("PAIRS") or " " in mo:
            w = mo.split(" ")[1].split("|")[0]
            mx = w.split(":")[1]
            want = "PANIC" if mx == "P" else ("MISMATCH" if mx == "N" else "ACCEPT")
        else:
            want = {"ACCEPT": "ACCEPT", "MISMATCH": "MISMATCH", "SILENT": "ACCEPT"}.get(mo, "PANIC" if mo.startswith("PANIC") else mo)
        hist[(pos, got)] = hist.get((pos, got), 0) + 1
        reinfer_panic = got == "PANIC" and "is not weak replaceable by" in out
        if got != want and not reinfer_panic:
            diffs += 1
            if first is None:
                first = {"position": pos, "expected": es, "provided": ps, "program": prog,
                         "implementation": out, "model": mo}
        # direct oracle at program level
        if got == "PANIC":
            cls = ("program-panics:weak-not-fit" if "is_weak_replaceable_by" in out else
                   "program-panics:reinfer-not-weak-replaceable" if reinfer_panic else "program-panics:other")
            v.failing(cls, {"key": "prog:%s:%s:%s" % (pos, es, ps), "position": pos, "expected": es,
                            "provided": ps, "program": prog, "implementation": out})
        if prop == "C13" and pos in ("annotation", "argument", "return", "assignment") and got == "ACCEPT":
            nominal_src = {"D1", "D2", "S1", "S2", "En1.A", "En2.A", "DS1", "DF"}
            allowed = {("En1.A", "En1"), ("En2.A", "En2")}
            if ps in nominal_src and es != ps and (ps, es) not in allowed and \
                    es in (nominal_src | {"i32", "f32", "En1", "En2"}):
                crossing.append((pos, es, em, ps, pm, prog, out))
    if crossing:
        # classify with the extracted ntarget (provided -> expected): a known wrapper / payload target
        # keeps its API-level class, anything else is a crossing in that position
        codes = C.run_lines(drv, ["PAIRS %s %s ; %s ; %s" % (EN1, EN2, pm, em) for (_, _, em, _, pm, _, _) in crossing],
                            indexed=False)
        for (pos, es, em, ps, pm, prog, out), mo in zip(crossing, codes):
            try:
                code = mo.split(" ")[1].split("|")[1][1:2]
            except Exception:
                code = "?"
            cls = {"3": "nominal-into-own-wrapper", "5": "struct-into-variant-payload"}.get(
                code, "program-accepts-nominal-crossing:" + pos)
            v.failing(cls, {"key": "progx:%s:%s:%s" % (pos, es, ps), "position": pos, "expected": es,
                            "provided": ps, "program": prog, "implementation": out, "ntarget_code": code})
    # regression corpus: programs that must keep their recorded outcome class
    import glob
    files = sorted(glob.glob(os.path.join(C.CORPUS, prop, "*.capy")))
    couts = C.run_lines([har, "prog"], [open(f, "rb").read().hex() for f in files], case_timeout=20)
    for f, out in zip(files, couts):
        got = classify_prog(out)
        hist[("corpus", got)] = hist.get(("corpus", got), 0) + 1
        if got == "PANIC":
            cls = "program-panics:weak-not-fit" if "is_weak_replaceable_by" in out else "program-panics:other"
            v.failing(cls, {"key": "corpus:" + os.path.basename(f), "file": f, "program": open(f).read(),
                            "implementation": out})
    v.coverage["binary_distinct_with_strong_underlying_accepted"] = sorted(
        "%s: %s op %s" % (pos, es, ps) for (pos, es, em, ps, pm), out in zip(cases, outs)
        if pos in ("binary_add", "compound_add", "binary_eq") and classify_prog(out) == "ACCEPT"
        and {es, ps} in ({"D1", "i32"}, {"DF", "f32"}, {"DS1", "S1"}))
    fl.stream("B: programs (expected, provided) x positions through hcommon::frontend vs ExpectMatch/max model",
              len(cases), diffs, first)
    v.coverage["stream_b_outcomes"] = {"%s/%s" % k: n for k, n in sorted(hist.items())}
    return len(cases)


# ------------------------------------------------------------------ the check
def sizes(tier):
    return (600, 120) if tier == "quick" else (1800, 300)


PROBES = [  # (flag, a, b, index into the pair word, value under the pinned code)
    ("max", "O D 1 i32", "D 1 i32", "max", "B"),      # C12-2: max(?D, D) = D
    ("weak", "AA 1 D 1 i32", "A 1 D 2 i32", 2, "1"),  # C12-1: weak although not fit
    ("feq", "S 1 1 0 i32", "S 2 1 0 i32", 3, "1"),    # C13-2: two named structs equivalent
]


def detect_fixes(har):
    """Which fix patches of ty.rs are in force in the implementation (probed on the witnesses);
    selects the model variant (TyRel.fixes flags) the extracted model is run with."""
    lines = ["PAIRS ; %s ; %s" % (a, b) for (_, a, b, _, _) in PROBES]
    outs = C.run_lines([har, "api"], lines, case_timeout=30)
    on = []
    for (flag, a, b, idx, pinned), out in zip(PROBES, outs):
        try:
            w = out.split(" ")[1]
            got = w.split(":")[1] if idx == "max" else w.split(":")[0][idx]
        except Exception:
            continue
        if got != pinned:
            on.append(flag)
    return on


def check(fl, drv, har, tier, prop):
    v = fl.v
    fixes = detect_fixes(har)
    drv = [drv] + (["fixes=" + ",".join(fixes)] if fixes else [])
    v.coverage["model_in_force"] = ("TyRel.fixes flags on: %s" % ",".join(fixes)) if fixes else "no_fixes (pinned ty.rs)"
    n, _ = sizes(tier)
    U = build_universe(fl.rng.fork("universe"), n)
    res = run_stream_a(fl, drv, har, U, U, "A: all ordered pairs of the type universe (%d types), real Ty methods vs extracted model" % len(U))
    stats = {}
    if res:
        impl, model = res
        stats = check_laws(v, U, impl, model, prop)
        v.add_samples([{"a": U[i], "b": U[j], "implementation": impl.rows[i][j], "format": WORD_FORMAT}
                       for i, j in ((40, 7), (len(U) // 2, len(U) // 3), (len(U) - 1, 60))])
    # odd types (ill-formed widths, reused uids, duplicate member names, unregistered enums):
    # correspondence only (panics included), no laws
    core = U[:140]
    r1 = run_stream_a(fl, drv, har, ODD, core + ODD, "A-odd: ill-formed / uid-inconsistent types x core (model vs implementation only)")
    r2 = run_stream_a(fl, drv, har, core, ODD, "A-odd (reverse)")
    nb = run_stream_b(fl, drv, har, prop)
    npairs = len(U) * len(U) + 2 * len(ODD) * len(core) + len(ODD) ** 2
    v.coverage["evaluations"] += npairs * 11 + nb
    v.coverage["distinct_nontrivial"] += sum(stats.get(k, 0) for k in ("fit", "weak", "max_some"))
    v.coverage["law_stats"] = stats
    v.coverage["universe_size"] = len(U)
    v.coverage["exhaustive"] = False
    hist = {}
    for t in U:
        h = t.split()[0]
        h = h if not (h[0] in "iuf" and h[1:].isdigit()) else h[0] + "N"
        hist[h] = hist.get(h, 0) + 1
    v.coverage["universe_head_constructors"] = hist
    v.coverage["rule"] = ("stream A: all ordered pairs of a universe of %d types (every primitive, weak ints/floats, nil, void, "
                          "placeholders, 3 enums + variants, fn types, and 1-2 nested constructors over a uid pool with 3 "
                          "structurally identical nominal types per shape; seeded sample of the depth-2 layer), 11 functions per pair; "
                          "non-trivial = pairs on which fit, weak or max answers positively. stream B: %d programs"
                          % (len(U), nb))


def run(tier, seed):
    fl = Flow("C12", tier, seed, "proof")
    v = fl.v
    fl.proof_stage()
    drv = fl.driver()
    har = fl.harness("h_c12")
    if drv and har:
        check(fl, drv, har, tier, "C12")
    v.assumptions = ASSUMPTIONS
    return fl.finish()


ASSUMPTIONS = [
    "Intern<Ty> equality = structural equality (internment); opaque keys (Name, FileName, locs, uids) modelled as N, only compared",
    "FxHashMap collect/get = association list with last-entry-wins lookup; iteration order irrelevant (no side effects in the loops)",
    "laws are stated for value types (no Unknown/NotYetResolved/AlwaysJumps inside): the relations treat those as wildcards on purpose",
    "max_accepts_both / order independence are proved for all types outside the exact classes known_max / known_order "
    "(Spec/TyLaws.v), which are also the run-time classifiers; wf_enum_map (set_enum_uid's own assertion) is a hypothesis",
    "the re-inference pass after weak-type replacement (reinfer_expr / should_actually_replace) is not modelled: its panic "
    "`X is not weak replaceable by Y` is reported as a failing input (known class), not as a model difference",
    "expect_match / assignment / binary-operator models cover the acceptance decision only (not the weak-type rewriting of "
    "expr_tys); binary operators are represented by `+` (arithmetic class) and `==` (equality class), compound assignment by `+=`",
]


def replay(path):
    r = json.load(open(path))
    print(json.dumps(r, indent=1))
    return 0
