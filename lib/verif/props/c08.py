"""C08 — Integer and float operations and casts have exact two's-complement semantics
(DESIGN.md C08).

Streams (all through the real `capy` executable, end to end):
  ops    generated programs with ~200 (type, operator, operands) / (from, to, value) triples each;
         every triple is evaluated at run time AND inside `comptime`; results are printed as hex
         bit patterns by a printer written in Capy over `putchar` (independent of core.fmt);
         the extracted model predicts every line (correspondence), the extracted spec checks
         every line (oracle).
  singles one-case programs for the cases the model predicts not to yield a value: TRAP (zero
         divisor, MIN / -1: the process must die with SIGFPE/SIGILL), FAULT (float & | ~: SIGSEGV),
         CRASH812 (i128 / %: compilation aborts inside Cranelift).
"""
import json
import os
import subprocess

from .. import common as C
from ..flow import Flow

# Which variant of cast_num the extracted model mirrors.  "0": the code before the repair of finding
# C08-1 (sextend only when both types are signed); "1": the repaired code (.cache/prompts/C08-1-fix.diff,
# extend by the source type's signedness).  Set the default to "1" once the repair is committed in /repo.
CAST_FIXED = os.environ.get("VERIF_C08_CAST_FIXED", "1") == "1"
DRV_ARGS = ["fixed"] if CAST_FIXED else []

INT_TYPES = {}
for _w in (8, 16, 32, 64, 128):
    INT_TYPES["i%d" % _w] = (True, _w)
    INT_TYPES["u%d" % _w] = (False, _w)
INT_TYPES["isize"] = (True, 64)
INT_TYPES["usize"] = (False, 64)
INT_TYPES["bool"] = (False, 8)
INT_TYPES["char"] = (False, 8)
FLOAT_TYPES = {"f32": 32, "f64": 64}
ALL_TYPES = list(INT_TYPES) + list(FLOAT_TYPES)
PLAIN_INTS = [t for t in INT_TYPES if t not in ("bool", "char")]


def width(t):
    return INT_TYPES[t][1] if t in INT_TYPES else FLOAT_TYPES[t]


ARITH = ["+", "-", "*", "/", "%"]
BITW = ["&", "|", "~"]
SHIFT = ["<<", ">>"]
CMP = ["<", ">", "<=", ">=", "==", "!="]
INT_BINOPS = ARITH + BITW + SHIFT + CMP
FLOAT_BINOPS = ["+", "-", "*", "/"] + CMP
BOOL_BINOPS = ["&", "|", "<", ">", "<=", ">=", "==", "!=", "&&", "||"]
CHAR_BINOPS = ["==", "!="]

PRELUDE = r"""
putchar :: (ch: char) -> i32 extern;

Pair :: struct { lo: u64, hi: u64 };

hexd :: (n: u8) {
    digits := "0123456789abcdef";
    d := (^[16]char.(rawptr.(digits)))^;
    putchar(d[usize.(n)]);
}

pr :: (p: rawptr, n: usize) {
    bytes := ^[16]u8.(p);
    i := n;
    while i > 0 {
        i = i - 1;
        b := bytes[i];
        hexd(b >> 4);
        hexd(b & 15);
    }
    putchar('\n');
}
"""


def prelude():
    s = PRELUDE
    for t in ALL_TYPES:
        if width(t) <= 64:
            s += "mk_%s :: (lo: u64) -> %s { x := lo; (^%s.(rawptr.(^x)))^ }\n" % (t, t, t)
    return s


# ---- operand generators ---------------------------------------------------------------
def int_operands(rng, t, n):
    s, w = INT_TYPES[t]
    if t == "bool":
        return [rng.below(2) for _ in range(n)]
    mask = (1 << w) - 1
    if s:
        mn, mx = -(1 << (w - 1)), (1 << (w - 1)) - 1
    else:
        mn, mx = 0, mask
    out = []
    for _ in range(n):
        k = rng.below(10)
        if k < 4:
            v = rng.choice([0, 1, -1, mn, mx, mn + 1, mx - 1, 2, -2, mx // 2, mx // 2 + 1])
        elif k < 6:
            e = rng.below(w)
            v = rng.choice([1 << e, (1 << e) - 1, -(1 << e), (1 << e) + 1])
        elif k < 7:
            v = rng.range(-20, 20)
        else:
            bits = rng.range(1, w)
            v = rng.next() | (rng.next() << 64)
            v &= (1 << bits) - 1
            if rng.chance(1, 2):
                v = -v
        out.append(v & mask)
    return out


F32_SPECIAL = [0x00000000, 0x80000000, 0x3f800000, 0xbf800000, 0x3f000000, 0x3fc00000, 0x40490fdb,
               0x7f7fffff, 0xff7fffff, 0x00000001, 0x00800000, 0x7f800000, 0xff800000, 0x7fc00000,
               0x4f000000, 0x4effffff, 0xcf000000, 0xcf000001, 0x4f800000, 0x4f7fffff, 0x4f32d05e,
               0x5f000000, 0x5effffff, 0xdf000000, 0x5f800000, 0x5f7fffff, 0x7e800000, 0x7f000000,
               0x42c80000, 0xc2c80000, 0x437f0000, 0x43800000, 0x42fe0000, 0x43000000, 0xc3000000,
               0xc3008000, 0x477fff00, 0x47800000, 0x46fffe00, 0x47000000, 0xc7000000, 0x4b7fffff,
               0x4b800000, 0x3f7fffff, 0xbf7fffff, 0x60ad78ec, 0x7149f2ca]
F64_SPECIAL = [0x0, 0x8000000000000000, 0x3ff0000000000000, 0xbff0000000000000, 0x3fe0000000000000,
               0x3ff8000000000000, 0x400921fb54442d18, 0x7fefffffffffffff, 0xffefffffffffffff, 0x1,
               0x0010000000000000, 0x7ff0000000000000, 0xfff0000000000000, 0x7ff8000000000000,
               0x41e0000000000000, 0x41dfffffffc00000, 0xc1e0000000000000, 0xc1e0000000200000,
               0x41f0000000000000, 0x41efffffffe00000, 0x43e0000000000000, 0x43dfffffffffffff,
               0xc3e0000000000000, 0x43f0000000000000, 0x43efffffffffffff, 0x47e0000000000000,
               0x47f0000000000000, 0x47efffffffffffff, 0xc7e0000000000000, 0x4059000000000000,
               0xc059000000000000, 0x406fe00000000000, 0x4070000000000000, 0x405fc00000000000,
               0x4060000000000000, 0xc060000000000000, 0xc060200000000000, 0x40efffe000000000,
               0x40f0000000000000, 0x40dfffc000000000, 0x40e0000000000000, 0x433fffffffffffff,
               0x4340000000000000, 0x3fefffffffffffff, 0x41e65a0bc0000000, 0x4415af1d78b58c40,
               0x47efffffe0000000, 0x47effffff0000000, 0x36a0000000000000, 0x3690000000000000,
               0x3ff0000010000000, 0x3ff0000030000000, 0x54b249ad2594c37d]


def float_operands(rng, t, n):
    w = FLOAT_TYPES[t]
    sp = F32_SPECIAL if w == 32 else F64_SPECIAL
    out = []
    for _ in range(n):
        k = rng.below(10)
        if k < 5:
            v = rng.choice(sp)
        elif k < 8:
            # a float that is an integer-ish magnitude: random exponent in the interesting range
            if w == 32:
                e = rng.range(127 - 4, 127 + 130)
                e = min(e, 254)
                v = (rng.below(2) << 31) | (e << 23) | (rng.next() & ((1 << 23) - 1))
                if rng.chance(1, 2):
                    v &= ~((1 << rng.below(24)) - 1)
            else:
                e = rng.range(1023 - 4, 1023 + 130)
                v = (rng.below(2) << 63) | (e << 52) | (rng.next() & ((1 << 52) - 1))
                if rng.chance(1, 2):
                    v &= ~((1 << rng.below(53)) - 1)
        else:
            v = rng.next() & ((1 << w) - 1)
        out.append(v)
    return out


def operands(rng, t, n):
    return int_operands(rng, t, n) if t in INT_TYPES else float_operands(rng, t, n)


# ---- case generation ---------------------------------------------------------------------
# a case: dict(kind B|U|C, line (driver input), types, values)
def gen_cases(rng, n, mixed_pairs):
    cases = []
    while len(cases) < n:
        k = rng.below(100)
        if k < 40:
            t = rng.choice(PLAIN_INTS)
            op = rng.choice(INT_BINOPS)
            a, b = operands(rng, t, 2)
            if op in SHIFT or (op in ("/", "%") and rng.chance(1, 2)):
                # keep most shift amounts below the width, most divisors small
                if op in SHIFT:
                    b = rng.below(width(t)) if rng.chance(9, 10) else b
                else:
                    b = rng.choice([1, 2, 3, 7, 10, (1 << width(t)) - 1, (1 << width(t)) - 2,
                                    (1 << (width(t) - 1)) - 1, 1 << (width(t) - 1)])
            cases.append(("B", t, t, op, a, b))
        elif k < 47:
            l, r = rng.choice(mixed_pairs)
            isf = l in FLOAT_TYPES or r in FLOAT_TYPES
            op = rng.choice(FLOAT_BINOPS if isf else INT_BINOPS)
            a = operands(rng, l, 1)[0]
            b = operands(rng, r, 1)[0]
            if op in SHIFT:
                b = rng.below(min(width(l), width(r)))
            cases.append(("B", l, r, op, a, b))
        elif k < 55:
            t = rng.choice(list(FLOAT_TYPES))
            op = rng.choice(FLOAT_BINOPS + (BITW if rng.chance(1, 40) else []))
            a, b = operands(rng, t, 2)
            cases.append(("B", t, t, op, a, b))
        elif k < 58:
            t = rng.choice(["bool", "bool", "char"])
            op = rng.choice(BOOL_BINOPS if t == "bool" else CHAR_BINOPS)
            a, b = operands(rng, t, 2)
            cases.append(("B", t, t, op, a, b))
        elif k < 66:
            t = rng.choice(PLAIN_INTS + ["f32", "f64", "bool"])
            if t == "bool":
                op = "!"
            elif t in FLOAT_TYPES:
                op = rng.choice(["-", "+"])
            else:
                op = rng.choice(["-", "~", "+"])
            cases.append(("U", t, op, operands(rng, t, 1)[0]))
        else:
            f = rng.choice(ALL_TYPES)
            t = rng.choice(ALL_TYPES)
            cases.append(("C", f, t, operands(rng, f, 1)[0]))
    return cases


def case_line(c):
    if c[0] == "B":
        return "B %s %s %s %x %x" % (c[1], c[2], c[3], c[4], c[5])
    if c[0] == "U":
        return "U %s %s %x" % (c[1], c[2], c[3])
    return "C %s %s %x" % (c[1], c[2], c[3])


# ---- program emission ---------------------------------------------------------------------
def opnd_stmts(name, t, v, indent):
    """statements defining local `name` of type t with bit pattern v"""
    if width(t) <= 64:
        return ["%s%s := mk_%s(0x%x);" % (indent, name, t, v)]
    return ["%sp%s := Pair.{lo = 0x%x, hi = 0x%x};" % (indent, name, v & C.MASK, v >> 64),
            "%s%s := (^%s.(rawptr.(^p%s)))^;" % (indent, name, t, name)]


def result_type(c, mixed_max):
    if c[0] == "B":
        if c[3] in CMP or c[3] in ("&&", "||"):
            return "bool"
        return c[1] if c[1] == c[2] else mixed_max[(c[1], c[2])]
    if c[0] == "U":
        if c[2] == "-" and c[1] in INT_TYPES and not INT_TYPES[c[1]][0]:
            return {"usize": "isize"}.get(c[1], "i" + c[1][1:])
        return c[1]
    return c[2]


def expr_of(c, a, b):
    if c[0] == "B":
        return "%s %s %s" % (a, c[3], b)
    if c[0] == "U":
        return "%s%s" % (c[2], a)
    return "%s.(%s)" % (c[2], a)


def emit_program(cases, mixed_max):
    out = [prelude(), "main :: () {"]
    for k, c in enumerate(cases):
        rt = result_type(c, mixed_max)
        size = width(rt) // 8
        ta = c[1]
        tb = c[2] if c[0] == "B" else None
        va = c[4] if c[0] == "B" else c[3]
        vb = c[5] if c[0] == "B" else None
        # run time
        out += opnd_stmts("a%d" % k, ta, va, "    ")
        if tb:
            out += opnd_stmts("b%d" % k, tb, vb, "    ")
        out.append("    r%d := %s;" % (k, expr_of(c, "a%d" % k, "b%d" % k)))
        out.append("    pr(rawptr.(^r%d), %d);" % (k, size))
        # comptime
        body = opnd_stmts("a", ta, va, "        ")
        if tb:
            body += opnd_stmts("b", tb, vb, "        ")
        if size <= 8:
            out.append("    c%d : %s = comptime {" % (k, rt))
            out += body
            out.append("        %s" % expr_of(c, "a", "b"))
        else:
            out.append("    c%d : Pair = comptime {" % k)
            out += body
            out.append("        r := %s;" % expr_of(c, "a", "b"))
            out.append("        (^Pair.(rawptr.(^r)))^")
        out.append("    };")
        out.append("    pr(rawptr.(^c%d), %d);" % (k, size))
    out.append("}")
    return "\n".join(out) + "\n"


def run_program(capy, src, timeout=300):
    """compile + run; returns (stdout lines or None, description)"""
    with C.scratch("verif-c08-") as d:
        open(os.path.join(d, "t.capy"), "w").write(src)
        try:
            p = subprocess.run([capy, "build", "t.capy", "--mod-dir", C.REPO], cwd=d, stdout=subprocess.PIPE,
                               stderr=subprocess.STDOUT, timeout=timeout, text=True, errors="replace")
        except subprocess.TimeoutExpired:
            return None, "compile timeout"
        exe = os.path.join(d, "out", "t")
        if p.returncode != 0 or not os.path.exists(exe):
            msg = "\n".join(l for l in p.stdout.split("\n") if not l.startswith("split_aggregate"))
            return None, "compile failed rc=%d: %s" % (p.returncode, msg[-1500:])
        try:
            q = subprocess.run([exe], stdout=subprocess.PIPE, stderr=subprocess.DEVNULL, timeout=60, text=True,
                               errors="replace")
        except subprocess.TimeoutExpired:
            return None, "run timeout"
        return q.stdout.split("\n")[:-1], "rc=%d" % q.returncode


def norm_hex(width_bits, hx):
    return "%d:%x" % (width_bits, int(hx, 16))


def canon_float(w, s):
    """canonicalise NaNs in a 'w:hex' string of a float-typed result"""
    ww, hx = s.split(":")
    v = int(hx, 16)
    if w == 32 and (v & 0x7f800000) == 0x7f800000 and (v & 0x7fffff):
        return "32:7fc00000"
    if w == 64 and (v & 0x7ff0000000000000) == 0x7ff0000000000000 and (v & 0xfffffffffffff):
        return "64:7ff8000000000000"
    return s


CLASS_NAMES = {"1": "cast-signed-to-wider-unsigned", "2": "cast-int-wider-than-float",
               "3": "cast-float-to-wider-int", "4": "i128-division-does-not-compile",
               "5": "float-bitwise-binop-faults"}


def mixed_table(drv):
    """ask the model which (l, r) pairs of distinct integer types have a common type"""
    nums = PLAIN_INTS + list(FLOAT_TYPES)
    pairs = [(l, r) for l in nums for r in nums if l != r]
    res = C.run_lines([drv] + DRV_ARGS, ["B %s %s + 0 0" % p for p in pairs], indexed=False)
    ok = {}
    for p, line in zip(pairs, res):
        m = line.split()[0]
        if ":" in m:
            ok[p] = None
    # common type name: the wider one following Ty::max (signed wins when mixed)
    for (l, r) in list(ok):
        if l in FLOAT_TYPES or r in FLOAT_TYPES:
            fl_ = [t for t in (l, r) if t in FLOAT_TYPES]
            ok[(l, r)] = max(fl_, key=lambda t: FLOAT_TYPES[t])
            continue
        sl, wl = INT_TYPES[l]
        sr, wr = INT_TYPES[r]
        rank = lambda t: {"isize": 255, "usize": 255}.get(t, INT_TYPES[t][1])
        if sl == sr:
            ok[(l, r)] = l if rank(l) >= rank(r) else r
        else:
            ok[(l, r)] = l if sl else r
    return ok


def run(tier, seed):
    fl = Flow("C08", tier, seed, "proof")
    v = fl.v
    fl.proof_stage()
    drv = fl.driver()
    capy = fl.capy()
    if drv and capy:
        mixed_max = mixed_table(drv)
        # i128/u128 vs isize/usize: Ty::max picks the pointer-sized type; keep them (truncation is modelled)
        mixed_pairs = sorted(mixed_max)
        nprog = 48 if tier == "quick" else 300
        per = 200
        rng = fl.rng.fork("ops")
        # corpus first
        corpus = []
        cdir = os.path.join(C.CORPUS, "C08")
        if os.path.isdir(cdir):
            for f in sorted(os.listdir(cdir)):
                if f.endswith(".json"):
                    corpus += [tuple(x) for x in json.load(open(os.path.join(cdir, f)))["cases"]]
        allcases = corpus + gen_cases(rng, nprog * per, mixed_pairs)
        lines = [case_line(c) for c in allcases]
        pred = C.run_lines([drv] + DRV_ARGS, lines, indexed=False)
        keep = []
        trapcases = []
        skipped = {"model-crash": 0, "trap": 0}   # "trap": run one per program in the singles stream
        for c, l, p in zip(allcases, lines, pred):
            f = p.split()
            if len(f) != 4:
                fl.broken.append({"what": "model driver output malformed", "line": l, "out": p})
                continue
            if f[0] in ("TRAP", "FAULT", "CRASH812"):
                skipped["trap"] += 1
                trapcases.append((c, l))
            elif f[0].startswith("CRASH") or f[0] in ("FUEL", "BADLINE") or f[0].startswith("ERR"):
                skipped["model-crash"] += 1
            else:
                keep.append((c, l, f))
        progs = list(C.chunks(keep, per))
        srcs = [emit_program([c for c, _, _ in pg], mixed_max) for pg in progs]
        outs = C.parallel_map(lambda s: run_program(capy, s), srcs)
        diffs = 0
        first = None
        evals = 0
        nontriv = set()
        hist = {}
        failing_seen = set()
        for pg, src, (lines_out, desc) in zip(progs, srcs, outs):
            if lines_out is None or len(lines_out) != 2 * len(pg):
                diffs += len(pg)
                if first is None:
                    first = {"program_failed": desc, "got_lines": None if lines_out is None else len(lines_out),
                             "want_lines": 2 * len(pg), "cases": [l for _, l, _ in pg][:400]}
                continue
            for k, (c, l, f) in enumerate(pg):
                rt = result_type(c, mixed_max)
                wbits = width(rt)
                isf = rt in FLOAT_TYPES
                got_rt = norm_hex(wbits, lines_out[2 * k])
                got_ct = norm_hex(wbits, lines_out[2 * k + 1])
                if isf:
                    got_rt = canon_float(wbits, got_rt)
                    got_ct = canon_float(wbits, got_ct)
                model_rt, model_ct, spec, cls = f
                evals += 2
                hist[c[0]] = hist.get(c[0], 0) + 1
                nontriv.add(l)
                for where, got, model in (("runtime", got_rt, model_rt), ("comptime", got_ct, model_ct)):
                    if got != model:
                        diffs += 1
                        if first is None:
                            first = {"case": l, "where": where, "implementation": got, "model": model,
                                     "spec": spec}
                    if spec != "-" and got != spec:
                        key = "%s/%s" % (l, where)
                        if key in failing_seen:
                            continue
                        failing_seen.add(key)
                        cname = CLASS_NAMES.get(cls)
                        klass = cname if cname else "wrong-result:%s:%s" % (
                            c[0], (c[3] if c[0] == "B" else c[2]))
                        v.failing(klass, {"key": key, "stream": "ops", "case": l, "where": where,
                                          "capy_expression": expr_of(c, "a", "b"),
                                          "operand_types": [c[1]] + ([c[2]] if c[0] == "B" else []),
                                          "operands_hex": ["%x" % x for x in (c[4:6] if c[0] == "B" else c[3:4])],
                                          "implementation": got, "spec": spec, "model": model})
        fl.stream("ops: %d-triple programs, run time and comptime, real capy vs extracted model" % per,
                  len(keep), diffs, first)
        v.coverage["evaluations"] += evals
        v.coverage["distinct_nontrivial"] += len(nontriv)
        v.coverage["kinds"] = hist
        v.coverage["skipped"] = skipped
        v.coverage["programs"] = len(progs)

        # ---- singles: cases the model predicts not to yield a value -----------------------
        # TRAP (SIGFPE), FAULT (SIGSEGV), CRASH812 (compilation aborts): one case per program
        ntrap = 14 if tier == "quick" else 80
        tsel = []
        seen_kind = {}
        for (c, l) in trapcases:
            kind = (c[3], width(c[1]), c[1] in FLOAT_TYPES)
            if seen_kind.get(kind, 0) < (1 if tier == "quick" else 3) and len(tsel) < ntrap:
                seen_kind[kind] = seen_kind.get(kind, 0) + 1
                tsel.append((c, l))
        # make sure every kind is present on every run
        fixed = [("B", "i32", "i32", "/", 5, 0), ("B", "i8", "i8", "/", 0x80, 0xff), ("B", "u64", "u64", "%", 9, 0),
                 ("B", "i64", "i64", "%", 1 << 63, C.MASK), ("B", "i128", "i128", "/", 7, 2),
                 ("B", "u128", "u128", "%", 7, 2), ("B", "f32", "f32", "&", 0x3f800000, 0x40490fdb),
                 ("B", "f64", "f64", "~", 0x3ff0000000000000, 0x4000000000000000)]
        tsel += [(c, case_line(c)) for c in fixed]
        tpred = C.run_lines([drv] + DRV_ARGS, [l for _, l in tsel], indexed=False)

        def single_prog(c):
            out = [prelude(), "main :: () {"]
            out += opnd_stmts("a", c[1], c[4], "    ")
            out += opnd_stmts("b", c[2], c[5], "    ")
            out.append("    r := a %s b;" % c[3])
            out.append("    pr(rawptr.(^r), %d);" % (width(result_type(c, mixed_max)) // 8))
            out.append("}")
            return "\n".join(out) + "\n"

        def run_single(c):
            with C.scratch("verif-c08t-") as d:
                open(os.path.join(d, "t.capy"), "w").write(single_prog(c))
                p = subprocess.run([capy, "build", "t.capy", "--mod-dir", C.REPO], cwd=d, stdout=subprocess.PIPE,
                                   stderr=subprocess.STDOUT, text=True, errors="replace")
                exe = os.path.join(d, "out", "t")
                if not os.path.exists(exe):
                    if "Unsupported(" in p.stdout or ("panicked at" in p.stdout and "cranelift-codegen" in p.stdout
                                                      and "/lower/" in p.stdout):
                        return "CRASH812"      # compilation aborts inside Cranelift's instruction selection
                    return "compile-failed:" + p.stdout[-300:]
                q = subprocess.run([exe], stdout=subprocess.PIPE, stderr=subprocess.DEVNULL, text=True, errors="replace")
                if q.returncode in (-8, -4):     # SIGFPE (hardware #DE) or SIGILL (Cranelift's explicit ud2 trap)
                    return "TRAP"
                if q.returncode == -11:
                    return "FAULT"
                if q.returncode == 0:
                    try:
                        return norm_hex(width(result_type(c, mixed_max)), q.stdout.strip())
                    except ValueError:
                        pass
                return "rc=%d:%s" % (q.returncode, q.stdout.strip())
        tres = C.parallel_map(lambda x: run_single(x[0]), tsel)
        tdiffs = 0
        tfirst = None
        for (c, l), p, got in zip(tsel, tpred, tres):
            f = p.split()
            want = f[0]
            if got != want:
                tdiffs += 1
                tfirst = tfirst or {"case": l, "implementation": got, "model": want}
            spec, cls = f[2], f[3]
            if spec != "-" and got != spec:
                v.failing(CLASS_NAMES.get(cls, "wrong-result:B:%s" % c[3]),
                          {"key": "single/" + l, "stream": "singles", "case": l, "capy_expression": expr_of(c, "a", "b"),
                           "operand_types": [c[1], c[2]], "operands_hex": ["%x" % c[4], "%x" % c[5]],
                           "implementation": got, "spec": spec, "model": want})
        fl.stream("singles: one-case programs where the model predicts SIGFPE (zero divisor, MIN/-1), SIGSEGV "
                  "(float & | ~) or a compilation abort (i128 / %)", len(tsel), tdiffs, tfirst)
        v.coverage["evaluations"] += len(tsel)
        v.add_samples([{"case": l, "model_runtime": f[0], "spec": f[2]} for _, l, f in keep[:3]])
        v.coverage["rule"] = ("ops: (type, operator, operand) triples over i8..i128, u8..u128, isize, usize, f32, f64, bool, char "
                              "with operands from {0,1,-1,MIN,MAX,MIN+1,MAX-1,2^k,2^k-1,-2^k} and random bit patterns; "
                              "same-type and mixed-type binary operators, unary operators, all 16x16 cast pairs; each "
                              "evaluated at run time and inside comptime by the real capy; distinct_nontrivial = distinct "
                              "triples executed; cases the model predicts to trap are run separately (traps stream)")
    v.assumptions = [
        "Cranelift instruction semantics as written in Common/Bits.v (integers) and Common/Floats.v over Flocq (floats) - "
        "trusted, validated by the ops stream on every run",
        "target x86_64: isize/usize are 64 bits (ptr_ty = I64 in the model)",
        "NaN payload/sign not specified; NaNs are canonicalised on both sides before comparing",
        "operands are materialised by reinterpreting u64 bit patterns through pointers, results are read back "
        "byte-wise; the Capy printer uses only u8 >> 4, u8 & 15, u8->usize, array indexing and putchar",
        "weak ({int}/{uint}/{float}) operand types are outside the theorems (C09 covers literal defaulting)",
        "CAST_FIXED=%s (variant of cast_num mirrored by the model: 1 = repaired, finding C08-1 fixed)" % CAST_FIXED,
    ]
    return fl.finish()


def replay(path):
    r = json.load(open(path))
    print(json.dumps(r, indent=1))
    return 0
