"""C21 -- Builds are reproducible (DESIGN.md C21).  Level: partial (mostly a run-time property).

Coq (Properties/C21.v): the order facet -- sorted iteration, commutative folds (incl. the unsafe
tracking loop of Model/Gate.v) are invariant under permutation of the container's iteration order;
first-use numbering is stable and injective but order dependent; diagnostic print order is NOT
permutation invariant (refuted), so reproducibility there rests on FxHashMap's determinism.
Run time: generated valid / invalid / multi-file programs and examples are compiled several times
by the real `capy build --no-exec` in FRESH processes (ASLR on), in different directories, with
and without a stale `out/` of a different previous compilation, with a different environment
size (shifts the stack); object bytes and the printed text (timing figures stripped) must be
identical.  Library level: harness/c07 loads the imported files in ascending and in descending
order (and in main.rs's hash order): the object must be the same."""
import glob
import json
import os
import re
import shutil
import subprocess
import tempfile

from .. import common as C
from .. import mutate as M
from ..flow import Flow

FIELD = re.compile(r"(\w+)=(\S*)")


def build_once(capy, files, variant):
    """one fresh-process build; returns (object bytes or None, normalised text, rc)"""
    d = tempfile.mkdtemp(prefix="verif-c21-%d-" % variant)
    try:
        for name, text in files.items():
            p = os.path.join(d, name)
            os.makedirs(os.path.dirname(p), exist_ok=True)
            open(p, "w", encoding="utf-8").write(text)
        env = dict(os.environ)
        env["RUST_BACKTRACE"] = "0"
        if variant == 1:
            # history: a different program was compiled into the same out/ just before
            open(os.path.join(d, "other.capy"), "w").write("main :: () -> i32 { x : [4]u64 = u64.[1, 2, 3, 4]; i32.(x[2]) }\n")
            subprocess.run([capy, "build", "other.capy", "--mod-dir", C.REPO, "--no-exec", "--color", "never", "-o", "main"],
                           cwd=d, env=env, stdin=subprocess.DEVNULL, stdout=subprocess.DEVNULL, stderr=subprocess.DEVNULL, timeout=300)
            os.remove(os.path.join(d, "other.capy"))
        if variant >= 2:
            env["VERIF_PADDING"] = "x" * (977 * variant)      # shifts the initial stack
        try:
            p = subprocess.run([capy, "build", "main.capy", "--mod-dir", C.REPO, "--no-exec", "--color", "never"],
                               cwd=d, env=env, stdin=subprocess.DEVNULL, stdout=subprocess.PIPE, stderr=subprocess.STDOUT,
                               timeout=300)
        except subprocess.TimeoutExpired:
            return None, "TIMEOUT", None
        out = M.strip_timing(p.stdout.decode("utf-8", "replace"))
        obj = None
        op = os.path.join(d, "out", "main.o")
        # with variant 1 a stale out/main.o exists: it only counts when this build reported success
        if os.path.exists(op) and "Finished" in out:
            obj = open(op, "rb").read()
        return obj, out, p.returncode
    finally:
        shutil.rmtree(d, ignore_errors=True)


def lib_build(har, files, order):
    d = tempfile.mkdtemp(prefix="verif-c21l-")
    try:
        for name, text in files.items():
            open(os.path.join(d, name), "w", encoding="utf-8").write(text)
        env = dict(os.environ)
        env["RUST_BACKTRACE"] = "0"
        try:
            p = subprocess.run([har, "main.capy", C.REPO, "norender"] + ([order] if order else []), cwd=d, env=env,
                               stdin=subprocess.DEVNULL, stdout=subprocess.PIPE, stderr=subprocess.DEVNULL, timeout=300)
        except subprocess.TimeoutExpired:
            return "TIMEOUT"
        for l in p.stdout.decode("utf-8", "replace").split("\n"):
            if l.startswith("@@C07 "):
                f = dict(FIELD.findall(l[6:]))
                return "errs=%s kinds=%s cg=%s" % (f.get("errs"), f.get("kinds"), f.get("cg"))
        return "DIED:%s" % p.returncode
    finally:
        shutil.rmtree(d, ignore_errors=True)


def multi_file(rng, i, broken):
    """main.capy importing 2-4 generated files; with `broken`, several files contain one error each
    (so diagnostics of several files are printed: their order is the FxHashMap order of main.rs)."""
    n = rng.range(2, 4)
    files = {}
    calls = []
    imports = []
    for k in range(n):
        name = "m%d_%d.capy" % (i, k)
        g = rng.fork("f%d" % k)
        if broken and rng.chance(2, 3):
            base, bad = M.gen_near_valid(g, size=2)
            p = bad or base
        else:
            p = M.gen_valid(g, size=2)
        # the generated file's `main` becomes an ordinary function `entry`
        files[name] = re.sub(r"(?m)^main ::", "entry ::", p.text)
        imports.append("f%d :: #import(\"%s\");" % (k, name))
        calls.append("    f%d.entry();" % k)
    files["main.capy"] = "\n".join(imports) + "\n\nmain :: () {\n" + "\n".join(calls) + "\n}\n"
    return files


def run(tier, seed):
    fl = Flow("C21", tier, seed, "proof")   # evidence schema has no "partial": see coverage["claim"]
    v = fl.v
    fl.proof_stage()
    capy = fl.capy()
    har = fl.harness("h_c07")
    quick = tier == "quick"
    builds = 3 if quick else 5
    if capy:
        rng = fl.rng.fork("progs")
        progs = []   # (origin, files)
        for f in sorted(glob.glob(os.path.join(C.CORPUS, "C21", "*.capy"))):
            progs.append(("corpus/" + os.path.basename(f), {"main.capy": open(f).read()}))
        for i in range(36 if quick else 300):
            g = rng.fork("g%d" % i)
            base, bad = M.gen_near_valid(g, size=2 + i % 3, with_core=(i % 10 == 3))
            if i % 2 == 0 or bad is None:
                progs.append(("gen#%d/valid" % i, {"main.capy": base.text}))
            else:
                progs.append(("gen#%d/%s" % (i, bad.sab_kind), {"main.capy": bad.text}))
        for i in range(14 if quick else 120):
            progs.append(("multi#%d%s" % (i, "/broken" if i % 2 else ""), multi_file(rng.fork("m%d" % i), i, i % 2 == 1)))
        ex = [(t, s) for t, s in M.corpus(("examples",))]
        r = rng.fork("ex")
        r.shuffle(ex)
        for t, s in ex[:(3 if quick else len(ex))]:
            files = {"main.capy": s}
            if "io.capy" in s:
                files["io.capy"] = open(os.path.join(C.REPO, "examples", "io.capy")).read()
            progs.append((t, files))
            m = M.semantic_mutate(r.fork(t), s)
            if m:
                files2 = dict(files)
                files2["main.capy"] = m[0]
                progs.append((t + "/sem", files2))
        jobs = [(pi, b) for pi in range(len(progs)) for b in range(builds)]
        res = C.parallel_map(lambda j: build_once(capy, progs[j[0]][1], j[1]), jobs)
        per = {}
        for (pi, b), rr in zip(jobs, res):
            per.setdefault(pi, []).append(rr)
        n_obj = n_diag = 0
        hist = {"object": 0, "diagnostics": 0, "other": 0}
        for pi, rs in sorted(per.items()):
            origin, files = progs[pi]
            objs = [o for (o, t, rc) in rs]
            texts = [t for (o, t, rc) in rs]
            if any(t == "TIMEOUT" for t in texts):
                continue
            if objs[0] is not None:
                n_obj += 1
                hist["object"] += 1
            elif "not compiling due to previous errors" in texts[0]:
                n_diag += 1
                hist["diagnostics"] += 1
            else:
                hist["other"] += 1
            multi = len(files) > 1
            if any((o is None) != (objs[0] is None) or (o is not None and o != objs[0]) for o in objs[1:]):
                k = next(i for i, o in enumerate(objs) if (o is None) != (objs[0] is None) or (o is not None and o != objs[0]))
                where = None
                if objs[0] is not None and objs[k] is not None:
                    where = next((i for i, (a, b) in enumerate(zip(objs[0], objs[k])) if a != b), min(len(objs[0]), len(objs[k])))
                v.failing("object-differs:%s" % ("multi-file" if multi else "single-file"),
                          {"key": "obj:%d" % pi, "origin": origin, "files": files, "build_a": 0, "build_b": k,
                           "first_differing_byte": where,
                           "sizes": [None if o is None else len(o) for o in objs]})
            if any(t != texts[0] for t in texts[1:]):
                k = next(i for i, t in enumerate(texts) if t != texts[0])
                a, b = texts[0].split("\n"), texts[k].split("\n")
                dl = next((i for i, (x, y) in enumerate(zip(a, b)) if x != y), min(len(a), len(b)))
                same_set = sorted(a) == sorted(b)
                v.failing("diagnostics-differ:%s:%s" % ("multi-file" if multi else "single-file",
                                                        "order-only" if same_set else "content"),
                          {"key": "diag:%d" % pi, "origin": origin, "files": files, "build_a": 0, "build_b": k,
                           "first_differing_line": dl, "line_a": a[dl] if dl < len(a) else None,
                           "line_b": b[dl] if dl < len(b) else None})
        v.coverage["evaluations"] += len(jobs)
        v.coverage["distinct_nontrivial"] += n_obj + n_diag
        v.coverage["program_stats"] = {"total": len(progs), "builds_each": builds, "with_object": n_obj,
                                  "with_diagnostics": n_diag, "outcomes": hist,
                                  "multi_file": sum(1 for o, f in progs if len(f) > 1)}
        v.add_samples([{"origin": progs[pi][0], "files": list(progs[pi][1]), "object_bytes": None if per[pi][0][0] is None else len(per[pi][0][0])}
                       for pi in list(per)[:3] + list(per)[-3:]])
        # ---- library level: order in which the files are loaded -------------------------------------------
        if har:
            multi = [(o, f) for o, f in progs if len(f) > 1 or "core ::" in f.get("main.capy", "")]
            multi = multi[:(16 if quick else 150)]
            ljobs = [(i, o) for i in range(len(multi)) for o in ("", "fwd", "rev")]
            lres = C.parallel_map(lambda j: lib_build(har, multi[j[0]][1], j[1]), ljobs)
            byp = {}
            for (i, o), rr in zip(ljobs, lres):
                byp.setdefault(i, {})[o] = rr
            ndiff = 0
            for i, d in sorted(byp.items()):
                vals = set(d.values())
                if "TIMEOUT" in vals:
                    continue
                if len(vals) > 1:
                    ndiff += 1
                    v.failing("library-load-order-changes-result", {"key": "lib:%d" % i, "origin": multi[i][0],
                                                                    "files": multi[i][1], "results_by_order": d})
            v.coverage["library_load_order"] = {"programs": len(multi), "orders": ["main.rs hash order", "ascending", "descending"],
                                                "differing": ndiff}
            v.coverage["evaluations"] += len(ljobs)
    v.coverage["rule"] = ("each program (generated well-typed, generated with one breaking construct, 2-4 file programs with "
                          "errors in several files, examples and mutated examples with core) is built %d times by fresh `capy build "
                          "--no-exec` processes in different directories (build 1 after a different program was compiled into the "
                          "same out/, builds >= 2 with a different environment size); object bytes and printed text (timing "
                          "stripped) are compared. non-trivial = the builds produced an object or diagnostics. Library level: "
                          "imports loaded in hash / ascending / descending order, object hash and error kinds compared." % builds)
    v.coverage["claim"] = 'partial: Coq proves the order facet (sorted iteration, commutative folds, first-use numbering; print order refuted); reproducibility under ASLR / pointer-keyed hashing / history is tested by repeated fresh-process builds, not proved'
    v.assumptions = [
        "run-time property: only the order facet is proved (Properties/C21.v); ASLR / pointer-keyed hashing / time are tested",
        "the CLI accepts one root file, so 'file order' has no degree of freedom at the CLI; it is exercised at library level "
        "through harness/c07 (load order of imports)",
        "FxHashMap iteration is a deterministic function of keys and insertion history (not proved; the diagnostic print "
        "order of main.rs depends on it: C21_print_order_full_refuted)",
    ]
    return fl.finish()


def replay(path):
    r = json.load(open(path))
    print(json.dumps(r, indent=1)[:6000])
    return 0
