"""C14 — Immutable data can never be modified.

Model  : coq/Model/Mutability.v  (get_mutability, Stmt::Assign, Expr::Ref of hir_ty/src/globals.rs)
Spec   : coq/Spec/MutSpec.v      (type-directed place mutability, Mut / Immut / Temp)
Streams: 1. front end: every access chain (root + <= 3 steps) x {plain, compound, ^mut, ^} as a
            one-statement program through hcommon::frontend (harness h_c14): accepted /
            CannotMutate / MutableRefToImmutableData, compared with the extracted model
            (correspondence) and with the extracted spec (oracle);
         2. end to end (direct oracle, independent of the model): accepted assignments are built
            and run with the real capy; every `::` cell must keep its value and the written value
            must be visible through the canonical alias of the target storage."""
import json
import os

from .. import common as C
from ..flow import Flow

# False: the model of globals.rs as it is.  Set the default to "1" once the `through_pointer`
# repair (.cache/prompts/C14-fix.diff) is committed in /repo (C14_fixed_full_sound is proved for it).
MODEL_FIXED = os.environ.get("VERIF_C14_MODEL_FIXED", "1") == "1"
# "1": /repo 1af504c (through_pointer, outermost pointer level) — the code as it is.
# "2": every auto-dereferenced level checked (.cache/prompts/C14-2-fix.diff); make it the default once
#      that repair is committed (C14_fix2_full_sound is proved for it) and close C14-6a/b/c.
MODEL_VARIANT = os.environ.get("VERIF_C14_MODEL_VARIANT", "2")

I = ("I",)
S = ("S",)
G = ("G",)


def P(m, t):
    return ("P", m, t)


def A(t):
    return ("A", t)


def O(t):
    return ("O", t)


def ty_text(t):
    k = t[0]
    if k == "I":
        return "i32"
    if k == "P":
        return ("^mut " if t[1] else "^") + ty_text(t[2])
    if k == "A":
        return "[2]" + ty_text(t[1])
    if k == "O":
        return "?" + ty_text(t[1])
    return k


def pk(t):
    """pointer kinds of t, outermost level first ('n' = not a pointer)"""
    if t[0] != "P":
        return "n"
    k = ""
    while t[0] == "P":
        k += "m" if t[1] else "i"
        t = t[2]
    return k


INT = lambda v: ("int", v)
CELLS = {  # base storage: name -> (local id, mutable, decl text, shape, init path tokens)
}
S_FIELDS = {"v": (I, 1), "a": (A(I), 2), "pm": (P(True, I), 3), "pi": (P(False, I), 4)}
G_FIELDS = {"v": (I, 1), "a": (A(I), 2)}


def cell_path(name):
    lid, mu, _decl, _shape, init = CELLS[name]
    return "L:%s %d %d 1 %s" % (CELLS_PK[name], lid, 1 if mu else 0, init)


CELLS_PK = {}


def defcell(name, lid, mu, decl, shape, init, k="n"):
    CELLS[name] = (lid, mu, decl, shape, init)
    CELLS_PK[name] = k


defcell("ci", 1, False, "ci :: 5;", INT(5), "O:n 1")
defcell("mi", 2, True, "mi := 6;", INT(6), "O:n 2")
defcell("cj", 3, False, "cj :: 31;", INT(31), "O:n 3")
defcell("mj", 4, True, "mj := 30;", INT(30), "O:n 4")
S_SHAPE = lambda v, a0: ("struct", {"v": INT(v), "a": ("arr", INT(a0)), "pm": ("ptr", ("mj", INT(30))),
                                    "pi": ("ptr", ("cj", INT(31)))})
defcell("cs", 5, False, "cs :: S.{ v = 20, a = .[21, 22], pm = ^mut mj, pi = ^cj };", S_SHAPE(20, 21), "T:n")
defcell("ms", 6, True, "ms := S.{ v = 40, a = .[41, 42], pm = ^mut mj, pi = ^cj };", S_SHAPE(40, 41), "T:n")
defcell("ca", 7, False, "ca : [2]i32 : .[50, 51];", ("arr", INT(50)), "T:n")
defcell("ma", 8, True, "ma : [2]i32 = .[60, 61];", ("arr", INT(60)), "T:n")
defcell("qi", 9, True, "qi := ^ci;", ("ptr", ("ci", INT(5))), "R:i 0 " + "L:n 1 0 1 O:n 1", "i")
defcell("qm", 10, True, "qm := ^mut mi;", ("ptr", ("mi", INT(6))), "R:m 1 " + "L:n 2 1 1 O:n 2", "m")
defcell("qca", 12, True, "qca := ^ca;", ("ptr", ("ca", ("arr", INT(50)))), "R:i 0 " + "L:n 7 0 1 T:n", "i")
defcell("qma", 13, True, "qma := ^mut ma;", ("ptr", ("ma", ("arr", INT(60)))), "R:m 1 " + "L:n 8 1 1 T:n", "m")
defcell("qcs", 14, True, "qcs := ^cs;", ("ptr", ("cs", S_SHAPE(20, 21))), "R:i 0 " + "L:n 5 0 1 T:n", "i")
defcell("qms", 15, True, "qms := ^mut ms;", ("ptr", ("ms", S_SHAPE(40, 41))), "R:m 1 " + "L:n 6 1 1 T:n", "m")
PRELUDE = " ".join(CELLS[c][2] for c in ["ci", "mi", "cj", "mj", "cs", "ms", "ca", "ma", "qi", "qm", "qca", "qma", "qcs", "qms"])
HEAD = "S :: struct { v: i32, a: [2]i32, pm: ^mut i32, pi: ^i32 };\ngi :: 5;\n"
# cells printed after the statement: (expression, initial value, immutable data?)
WATCH = [("ci", 5, True), ("mi", 6, False), ("cj", 31, True), ("mj", 30, False), ("cs.v", 20, True),
         ("cs.a[0]", 21, True), ("ms.v", 40, False), ("ms.a[0]", 41, False), ("ca[0]", 50, True),
         ("ma[0]", 60, False), ("gi", 5, True)]


def ref_to(cell, m):
    """value `^cell` / `^mut cell`"""
    inner = CELLS_PK[cell] if CELLS_PK[cell] != "n" else ""
    return ("^mut " if m else "^") + cell, "R:%s %d %s" % (("m" if m else "i") + inner, 1 if m else 0, cell_path(cell)), \
        ("ptr", (cell, CELLS[cell][3]))


def value(t):
    """an initial value of type t: (text, path tokens, shape) or None"""
    k = t[0]
    if k == "I":
        return "7", "O:n 30", INT(7)
    if k == "S":
        return "S.{ v = 80, a = .[81, 82], pm = ^mut mj, pi = ^cj }", "T:n", S_SHAPE(80, 81)
    if k == "A":
        e = t[1]
        if e == I:
            return ".[70, 71]", "T:n", ("arr", INT(70))
        if e[0] == "P" and e[2] == I:
            c = "mi" if e[1] else "ci"
            x = ("^mut " if e[1] else "^") + c
            return ".[%s, %s]" % (x, x), "T:n", ("arr", ("ptr", (c, CELLS[c][3])))
        return None
    if k == "O":
        v = value(t[1])
        return v and (v[0], v[1], ("opt", v[2]))
    if k == "P":
        m, e = t[1], t[2]
        if e == I:
            return ref_to("mi" if m else "ci", m)
        if e == S:
            return ref_to("ms" if m else "cs", m)
        if e == A(I):
            return ref_to("ma" if m else "ca", m)
        if e[0] == "P" and e[2] == I:
            return ref_to("qm" if e[1] else "qi", m)
        if e[0] == "P" and e[2] == A(I):
            return ref_to("qma" if e[1] else "qca", m)
        if e[0] == "P" and e[2] == S:
            return ref_to("qms" if e[1] else "qcs", m)
    return None


ROOT_TYPES = [I, S, A(I), P(False, I), P(True, I), P(False, S), P(True, S), A(P(False, I)), A(P(True, I)),
              P(False, A(I)), P(True, A(I)), P(True, P(False, I)), P(False, P(True, I)), P(True, P(True, I)),
              O(P(False, I)), O(P(True, I)),
              # pointers to pointers to arrays / structs: `.f` and `[i]` auto-dereference both levels
              P(True, P(False, A(I))), P(True, P(True, A(I))), P(False, P(True, A(I))),
              P(True, P(False, S)), P(True, P(True, S)), P(False, P(True, S))]


class Case:
    pass


def roots():
    """(kind, type, decl-in-g, expr text, path tokens, place, extra top-level defs, call)"""
    out = []
    for t in ROOT_TYPES:
        v = value(t)
        if v is None:
            continue
        vt, vp, vs = v
        ann = t[0] == "O"
        # `::` and `:=` locals (unannotated unless the type needs it)
        for mu in (False, True):
            if ann:
                decl = "r : %s %s %s;" % (ty_text(t), "=" if mu else ":", vt)
            else:
                decl = "r %s %s;" % (":=" if mu else "::", vt)
            out.append(("lv" if mu else "lc", t, decl, "r", "L:%s 11 %d 1 %s" % (pk(t), 1 if mu else 0, vp), ("r", vs), "", None))
        # parameter
        out.append(("par", t, "", "par", "A:%s 0" % pk(t), ("par", vs), "", vt))
        if t[0] == "P":
            # local initialised from a call returning the same pointer type
            out.append(("lv-call", t, "r := idp(%s);" % vt, "r", "L:%s 11 1 1 C:%s 20" % (pk(t), pk(t)), ("r", vs),
                        "idp :: (p: %s) -> %s { p }\n" % (ty_text(t), ty_text(t)), None))
            if not t[1]:
                # annotation weakens ^mut to ^
                tm = P(True, t[2])
                vm = value(tm)
                if vm:
                    out.append(("lv-weak", t, "r : %s = %s;" % (ty_text(t), vm[0]), "r",
                                "L:i 11 1 1 %s" % vm[1], ("r", vm[2]), "", None))
    out.append(("glo", I, "", "gi", "G:n 1", ("gi", INT(5)), "", None))
    return out


def steps(text, t, path, place, last):
    """all one-step extensions: (name, text, type, path, place)"""
    res = []
    canon, shape = place

    def fields_of(st, base_place, auto):
        for f, (ft, fn) in (S_FIELDS if st == S else G_FIELDS).items():
            bc, bs = base_place
            res.append(("field" + ("-auto" if auto else ""), text + "." + f, ft,
                        "F:%s %s %d" % (pk(ft), path, fn), (bc + "." + f, bs[1][f])))

    k = t[0]
    if k in ("S", "G"):
        fields_of(t, place, False)
    if k == "A":
        res.append(("index", text + "[0]", t[1], "X:%s %s" % (pk(t[1]), path), (canon + "[0]", shape[1])))
    if k == "P":
        e = t[2]
        pointee = shape[1]
        res.append(("deref", text + "^", e, "D:%s %s" % (pk(e), path), pointee))
        # `.f` / `[i]` auto-dereference every pointer level
        ult, ult_place, levels = e, pointee, 1
        while ult[0] == "P":
            ult, ult_place, levels = ult[2], ult_place[1][1], levels + 1
        tag = "-auto" if levels == 1 else "-auto%d" % levels
        if ult in (S, G):
            for f, (ft, fn) in (S_FIELDS if ult == S else G_FIELDS).items():
                res.append(("field" + tag, text + "." + f, ft, "F:%s %s %d" % (pk(ft), path, fn),
                            (ult_place[0] + "." + f, ult_place[1][1][f])))
        if ult[0] == "A":
            res.append(("index" + tag, text + "[0]", ult[1], "X:%s %s" % (pk(ult[1]), path),
                        (ult_place[0] + "[0]", ult_place[1][1])))
    if k == "O":
        res.append(("unwrap", "#unwrap(" + text + ")", t[1], "U:%s %s" % (pk(t[1]), path),
                    ("#unwrap(" + canon + ")", shape[1])))
    if last != "paren":
        res.append(("paren", "(" + text + ")", t, "P:%s %s" % (pk(t), path), place))
    return res


def enumerate_cases(maxsteps=3):
    cases = []
    for (kind, t, decl, text, path, place, defs, call) in roots():
        frontier = [([kind], text, t, path, place, "root")]
        for depth in range(maxsteps + 1):
            nxt = []
            for (names, tx, ty, pa, pl, last) in frontier:
                # statements on this chain
                stmts = []
                if ty == I:
                    stmts += [("plain", tx + " = 10;"), ("compound", tx + " += 1;")]
                # prefix `^mut` binds tighter than postfix `^`: the operand is parenthesised (a Paren node)
                stmts += [("refmut", "w := ^mut (" + tx + ");"), ("ref", "w := ^(" + tx + ");")]
                for sk, st in stmts:
                    c = Case()
                    c.names, c.kind, c.stmt_kind, c.stmt = names, kind, sk, st
                    c.decl, c.defs, c.call, c.root_ty = decl, defs, call, t
                    c.path, c.place, c.ty = (pa if sk in ("plain", "compound") else "P:%s %s" % (pk(ty), pa)), pl, ty
                    cases.append(c)
                if depth < maxsteps:
                    for (n, tx2, ty2, pa2, pl2) in steps(tx, ty, pa, pl, last):
                        nxt.append((names + [n], tx2, ty2, pa2, pl2, n))
            frontier = nxt
    return cases


def source(c, tag="", prints=False):
    """program text of one case; `tag` renames the per-case definitions for batching"""
    s = c.defs.replace("idp", "idp" + tag)
    stmt = c.stmt.replace("idp", "idp" + tag)
    decl = c.decl.replace("idp", "idp" + tag)
    pr = ""
    if prints:
        canon = c.place[0]
        target = canon if not canon.startswith("par") and "#unwrap" not in canon else None
        vals = ", \" \", ".join(w[0] for w in WATCH)
        pr = " core.println(\"#%s \", %s, \" T \", %s);" % (tag, vals, target if target and c.stmt_kind in ("plain", "compound") else "0")
    if c.kind == "par":
        s += "f%s :: (par: %s) { %s }\n" % (tag, ty_text(c.root_ty), stmt)
        s += "g%s :: () { %s f%s(%s);%s }\n" % (tag, PRELUDE, tag, c.call, pr)
    else:
        s += "g%s :: () { %s %s %s%s }\n" % (tag, PRELUDE, decl, stmt, pr)
    return s


def arm_class(c):
    """name of the first non-type-directed arm of get_mutability the path reaches (python mirror
    of Spec/MutSpec.v suspect, used only to NAME the class of a failing input)"""
    toks = c.path.split()
    pos = [0]

    def parse():
        t = toks[pos[0]]
        pos[0] += 1
        ctor, k = t[0], t[2:]
        node = {"c": ctor, "k": k, "kids": []}
        if ctor == "L":
            pos[0] += 2
            has = toks[pos[0]] == "1"
            pos[0] += 1
            if has:
                node["kids"].append(parse())
        elif ctor in "AGCKO":
            pos[0] += 1
        elif ctor == "F":
            node["kids"].append(parse())
            pos[0] += 1
        elif ctor in "XDPUB":
            node["kids"].append(parse())
        elif ctor == "R":
            pos[0] += 1
            node["kids"].append(parse())
        return node

    def walk(n, d):
        ctor, k = n["c"], n["k"][0]
        kid = n["kids"][0] if n["kids"] else None
        if ctor in "XF" and not d and kid["k"][0] == "m" and "i" in kid["k"][1:]:
            return "multilevel-auto-deref"
        if ctor == "D":
            return "second-deref" if d else walk(kid, True)
        if ctor == "X":
            return "index-under-deref" if d else walk(kid, kid["k"] != "n")
        if ctor == "U":
            return "unwrap-under-deref" if d else walk(kid, False)
        if ctor in "PB":
            if d and k != kid["k"][0]:
                return "paren-kind"
            return walk(kid, d)
        if ctor == "L":
            if not d:
                return None
            if kid is None:
                return "local-no-init"
            if k != kid["k"][0]:
                return "local-annotation-changes-pointer-kind"
            return walk(kid, True)
        if ctor == "F":
            if d:
                return "field-nonpointer-under-deref" if k == "n" else None
            return walk(kid, kid["k"] != "n")
        if ctor == "C":
            return "call-result-deref" if d and k != "m" else None
        if ctor == "T":
            return "literal-deref" if d and k != "m" else None
        if ctor in "GO":
            return "global-or-other-mut-pointer-deref" if d and k == "m" else None
        return None

    return walk(parse(), False)


def run_batch(capy, batch):
    tag_cases, src = batch
    with C.scratch("verif-c14-") as d:
        open(os.path.join(d, "p.capy"), "w").write(src)
        rc, out = C.run([capy, "build", "p.capy", "--mod-dir", C.REPO], cwd=d, timeout=180)
        exe = os.path.join(d, "out", "p")
        if rc != 0 or not os.path.exists(exe):
            tail = [l for l in out.split("\n") if l.strip() and not l.startswith("split_aggregate")]
            return ("BUILD-FAILED", "\n".join(tail[-8:])[-800:])
        rc2, out2 = C.run([exe], cwd=d, timeout=30)
        return ("RAN:%d" % rc2, out2)


def run(tier, seed):
    fl = Flow("C14", tier, seed, "proof")
    v = fl.v
    fl.proof_stage()
    drv = fl.driver()
    har = fl.harness("h_c14")
    if drv and har:
        cases = enumerate_cases(3)
        srcs = [HEAD + source(c) for c in cases]
        impl = C.run_lines([har], [s.encode().hex() for s in srcs], case_timeout=10)
        model = C.run_lines([drv], [c.path for c in cases], indexed=False)
        diffs, first = 0, None
        hist = {"accepted": 0, "CannotMutate": 0, "MutableRefToImmutableData": 0}
        shapes = {}
        place_hist = {}
        accepted_assign = []
        if len(impl) != len(cases) or len(model) != len(cases):
            fl.broken.append({"what": "front-end stream: tool output length mismatch"})
        else:
            for c, s, i, m in zip(cases, srcs, impl, model):
                mt = m.split()
                if len(mt) != 11:
                    fl.broken.append({"what": "model driver failed", "path": c.path, "out": m})
                    continue
                m_assign, m_ref, place, suspect, typed, mut, x_assign, x_ref, y_assign, y_ref, multi = mt
                if MODEL_VARIANT == "2":
                    m_assign, m_ref = y_assign, y_ref
                elif MODEL_FIXED:
                    m_assign, m_ref = x_assign, x_ref
                # theorem instances on the extracted code
                if (y_assign == "1" or y_ref == "1") and place == "Immut":
                    fl.broken.append({"what": "C14_fix2_full_sound instance fails on extracted code", "path": c.path})
                if multi == "0" and (x_assign == "1" or x_ref == "1") and place == "Immut":
                    fl.broken.append({"what": "C14_assign_sound_except_multilevel instance fails on extracted code", "path": c.path})
                kinds = [t.split(":", 1)[1].split("@")[0] for t in i.split() if ":" in t and not t.startswith("PANIC")]
                errs = [k for k in kinds if not k.startswith("w-")]
                other = [k for k in errs if k not in ("CannotMutate", "MutableRefToImmutableData")]
                if i.startswith(("PANIC", "!")) or other:
                    fl.broken.append({"what": "front-end stream: generated program is not otherwise well-typed "
                                              "(generator bug) or the compiler crashed", "source": s, "implementation": i})
                    continue
                rejected = "CannotMutate" in errs or "MutableRefToImmutableData" in errs
                shapes["/".join(c.names)] = shapes.get("/".join(c.names), 0) + 1
                place_hist[place] = place_hist.get(place, 0) + 1
                if c.stmt_kind in ("plain", "compound"):
                    want_kind, m_acc = "CannotMutate", m_assign == "1"
                elif c.stmt_kind == "refmut":
                    want_kind, m_acc = "MutableRefToImmutableData", m_ref == "1"
                else:
                    want_kind, m_acc = None, True      # `^e` is never a mutability error
                hist["accepted" if not rejected else [k for k in errs if k in hist][0]] += 1
                c.accepted = not rejected
                c.spec_place = place
                pay = {"key": "fe:" + C.sha(s), "stream": "front end", "source": s, "chain": c.names,
                       "statement": c.stmt, "path": c.path, "implementation": i or "accepted",
                       "model": m, "spec_place": place}
                # direct oracle (spec on the implementation's verdict)
                if not rejected and place == "Immut" and c.stmt_kind != "ref":
                    v.failing("immutable-write-accepted:%s:%s" % (arm_class(c), "assign" if want_kind == "CannotMutate" else "refmut"), pay)
                if rejected and place == "Mut":
                    v.failing("mutable-write-rejected:%s" % arm_class(c), pay)
                if rejected and c.stmt_kind == "ref":
                    v.failing("immutable-ref-rejected", pay)
                # correspondence
                if (not rejected) != m_acc or (rejected and want_kind not in errs):
                    diffs += 1
                    if first is None:
                        first = pay
                if not rejected and c.stmt_kind in ("plain", "compound"):
                    accepted_assign.append(c)
            fl.stream("front end verdict vs get_mutability model (all chains root + <= 3 steps)", len(cases), diffs, first)
            v.coverage["exhaustive"] = True
        v.coverage["evaluations"] += len(cases)
        v.coverage["distinct_nontrivial"] += sum(1 for c in cases if len(c.names) >= 2)
        v.coverage["verdict_histogram"] = hist
        v.coverage["spec_place_histogram"] = place_hist
        v.coverage["distinct_chain_shapes"] = len(shapes)
        v.add_samples([{"source": srcs[k], "path": cases[k].path, "model": model[k] if k < len(model) else None}
                       for k in (len(cases) // 7, len(cases) // 2)])

        # ---- end to end: accepted assignments are run ---------------------------------------
        capy = fl.capy()
        if capy and accepted_assign:
            rng = fl.rng.fork("e2e")
            pool = list(accepted_assign)
            if tier == "quick":
                # all chains the spec calls Immut-but-accepted first, then a seeded sample
                rng.shuffle(pool)
                pool = [c for c in pool if c.spec_place != "Mut"] + [c for c in pool if c.spec_place == "Mut"]
                pool = pool[:360]
            bsize = 12
            batches = []
            for b0 in range(0, len(pool), bsize):
                part = pool[b0:b0 + bsize]
                src = 'core :: #mod("core");\n' + HEAD
                calls = []
                tagged = []
                for j, c in enumerate(part):
                    tag = "%d" % (b0 + j)
                    src += source(c, tag, prints=True)
                    calls.append("g%s();" % tag)
                    tagged.append((tag, c))
                src += "main :: () { %s }\n" % " ".join(calls)
                batches.append((tagged, src))
            outs = C.parallel_map(lambda b: run_batch(capy, b), batches)
            ran = 0
            ediffs, efirst = 0, None
            for (tagged, src), (status, out) in zip(batches, outs):
                if status != "RAN:0":
                    ediffs += 1
                    efirst = efirst or {"source": src, "status": status, "output": out[-600:]}
                    continue
                lines = {}
                for l in out.split("\n"):
                    if l.startswith("#"):
                        ws = l[1:].split()
                        lines[ws[0]] = ws[1:]
                for tag, c in tagged:
                    ws = lines.get(tag)
                    if not ws or len(ws) != len(WATCH) + 2:
                        ediffs += 1
                        efirst = efirst or {"source": src, "case": tag, "line": ws}
                        continue
                    ran += 1
                    canon, shape = c.place
                    old = shape[1] if shape[0] == "int" else None
                    new = 10 if c.stmt_kind == "plain" else (old + 1 if old is not None else None)
                    pay = {"key": "e2e:" + C.sha(HEAD + source(c)), "stream": "end to end", "source": HEAD + source(c),
                           "chain": c.names, "statement": c.stmt, "path": c.path, "printed": " ".join(ws),
                           "watch": [w[0] for w in WATCH], "target": canon}
                    bad_imm = [(w[0], w[1], int(x)) for w, x in zip(WATCH, ws) if w[2] and int(x) != w[1]]
                    if bad_imm:
                        pay["immutable_cells_changed"] = bad_imm
                        v.failing("immutable-cell-changed-at-run-time:%s" % arm_class(c), pay)
                        continue
                    # the write must be visible through the canonical alias and nowhere else
                    exp = {w[0]: w[1] for w in WATCH}
                    if canon in exp:
                        exp[canon] = new
                    got_t = int(ws[-1])
                    wrong = [(w[0], exp[w[0]], int(x)) for w, x in zip(WATCH, ws) if int(x) != exp[w[0]]]
                    visible = canon.startswith("par") or "#unwrap" in canon or got_t == new
                    if wrong or not visible:
                        pay["unexpected"] = wrong
                        pay["alias_read"] = got_t
                        pay["expected_new_value"] = new
                        v.failing("write-not-visible-through-alias", pay)
            fl.stream("end to end: accepted assignments built and run (batches of %d)" % bsize, len(batches), ediffs, efirst)
            v.coverage["e2e_cases_run"] = ran
            v.coverage["evaluations"] += ran
        v.coverage["rule"] = (
            "stream 1 (exhaustive): every chain root x steps (<= 3) with roots {`::` local, `:=` local, parameter, local "
            "initialised by a call, local whose annotation weakens ^mut to ^, global} over 22 root types (i32, struct, arrays, "
            "^/^mut pointers to i32/struct/array/pointer, pointers to pointers to arrays/structs, arrays of pointers, optionals "
            "of pointers) and steps {field, index, deref, auto-deref field/index through one or two pointer levels, paren, #unwrap}, x {plain, compound, ^mut, ^}; non-trivial = at least one step. "
            "stream 2: accepted assignments run with capy; all `::` cells, globals and mutable cells are printed after the "
            "statement.")
    v.assumptions = [
        "typing oracle pk = pointer kind of the static type the generator assigned to each sub-expression (checked "
        "indirectly: a program that is not otherwise well-typed is reported as a broken stream)",
        "MODEL_FIXED=%s MODEL_VARIANT=%s (model variant compared with the code)" % (MODEL_FIXED, MODEL_VARIANT),
        "get_mutability arms for Expr::Block tail, Expr::Cast and Ty::File members are modelled and proved about but not generated",
        "the theorems quantify over ALL typing oracles; `typed` (full statement) only demands pointer-typed deref operands "
        "and consistent types for paren/block/^ nodes",
    ]
    return fl.finish()


def replay(path):
    r = json.load(open(path))
    print(json.dumps(r, indent=1))
    drv = os.path.join(C.OCAML, "C14", "driver")
    har = os.path.join(C.TARGET, "debug", "h_c14")
    if "path" in r and os.path.exists(drv):
        print("model now:", C.run_lines([drv], [r["path"]], indexed=False)[0])
    if "source" in r and os.path.exists(har) and r.get("stream") != "end to end":
        print("implementation now:", C.run_lines([har], [r["source"].encode().hex()])[0] or "accepted")
    return 0
