"""C24 — Expressions parse by the documented precedence and associativity (DESIGN.md C23/C24).

Streams (all through the REAL lexer + parser::parse_source_file / parse_repl_line, AST shape
read with the `ast` crate accessors; the model is the extracted Coq transcription of expr.rs):
  1. exhaustive   all expression trees to depth 3 over a reduced operator set (one or two
                  operators per precedence level, every prefix and postfix operator)
  2. pairs        every ordered pair of the 18 binary operators in `a o1 b o2 c` (both shapes),
                  every prefix x postfix and prefix x binary combination (full operator set)
  3. sampled      random trees to depth 5 over the full operator set
  each tree is printed by the extracted verified printers (minimal and redundant
  parenthesisation), rendered spaced / compact / with newline+comment trivia, and parsed as a
  source file (`x :: e;`) and as a REPL line.
  4. mutants      token-level mutations of printed expressions and short token soups: the model
                  must predict the tree (or that an error is reported) for arbitrary input
  5. dot-trivia   printed expressions with a space between `.` and `(` / `try`
                  (re-derives known finding C24-1)
"""
import itertools
import json

from .. import common as C
from ..flow import Flow

BIN_ALL = ["||", "&&", "<", "<=", ">", ">=", "==", "!=", "+", "-", "|", "~", "*", "/", "%", "&", "<<", ">>"]
LEVEL = {"||": 1, "&&": 2, "<": 3, "<=": 3, ">": 3, ">=": 3, "==": 3, "!=": 3, "+": 4, "-": 4, "|": 4, "~": 4,
         "*": 5, "/": 5, "%": 5, "&": 5, "<<": 5, ">>": 5}
BIN_RED = ["||", "&&", "==", "+", "~", "*"]
PRE_ALL = ["U-", "U+", "U!", "U~", "R", "RM"]
PRE_RED = ["U-", "U~", "R"]
ATOMS_ALL = ["v", "i", "f", "b"]


# ---- S-expressions -------------------------------------------------------------
def parse_sexpr(s):
    toks = s.replace("(", " ( ").replace(")", " ) ").split()
    pos = [0]

    def rd():
        t = toks[pos[0]]
        pos[0] += 1
        if t != "(":
            return t
        l = []
        while toks[pos[0]] != ")":
            l.append(rd())
        pos[0] += 1
        return l
    out = rd()
    if pos[0] != len(toks):
        raise ValueError("trailing")
    return out


def show(t):
    return t if isinstance(t, str) else "(" + " ".join(show(x) for x in t) + ")"


def strip(t):
    if isinstance(t, str):
        return t
    if t[0] == "P" and len(t) == 2:
        return strip(t[1])
    return [t[0]] + [strip(x) for x in t[1:]]


def depth(t):
    return 1 if isinstance(t, str) else 1 + max([depth(x) for x in t[1:]] + [0])


def ops_of(t, acc):
    if not isinstance(t, str):
        acc.add(t[0])
        for x in t[1:]:
            ops_of(x, acc)
    return acc


# ---- generators ------------------------------------------------------------------
def trees_upto(d, bins, pres, atoms, cache):
    """all trees of depth <= d (as sexpr strings)"""
    if d in cache:
        return cache[d]
    if d <= 1:
        res = list(atoms)
    else:
        sub = trees_upto(d - 1, bins, pres, atoms, cache)
        res = list(atoms)
        for p in pres:
            res += ["(%s %s)" % (p, x) for x in sub]
        for o in bins:
            res += ["(B%s %s %s)" % (o, l, r) for l in sub for r in sub]
        res += ["(C %s)" % f for f in sub]
        res += ["(C %s %s)" % (f, a) for f in sub for a in sub]
        res += ["(I %s %s)" % (a, i) for a in sub for i in sub]
        res += ["(F %s)" % x for x in sub]
        res += ["(T %s)" % x for x in sub]
        res += ["(D %s)" % x for x in sub]
        res += ["(K %s %s)" % (t, v) for t in sub for v in sub]
    # de-duplicate, keep order
    seen = set()
    out = []
    for x in res:
        if x not in seen:
            seen.add(x)
            out.append(x)
    cache[d] = out
    return out


def rand_tree(rng, d):
    if d <= 1 or rng.chance(1, 6):
        return rng.choice(ATOMS_ALL)
    k = rng.below(14)
    if k < 5:
        return "(B%s %s %s)" % (rng.choice(BIN_ALL), rand_tree(rng, d - 1), rand_tree(rng, d - 1))
    if k < 8:
        return "(%s %s)" % (rng.choice(PRE_ALL), rand_tree(rng, d - 1))
    if k == 8:
        n = rng.below(4)
        return "(C %s)" % " ".join(rand_tree(rng, d - 1) for _ in range(n + 1))
    if k == 9:
        return "(I %s %s)" % (rand_tree(rng, d - 1), rand_tree(rng, d - 1))
    if k == 10:
        return "(F %s)" % rand_tree(rng, d - 1)
    if k == 11:
        return "(T %s)" % rand_tree(rng, d - 1)
    if k == 12:
        if rng.chance(1, 5):
            return "(K %s)" % rand_tree(rng, d - 1)
        return "(K %s %s)" % (rand_tree(rng, d - 1), rand_tree(rng, d - 1))
    return "(D %s)" % rand_tree(rng, d - 1)


def pair_trees():
    out = []
    for o1 in BIN_ALL:
        for o2 in BIN_ALL:
            out.append("(B%s (B%s v i) v)" % (o2, o1))
            out.append("(B%s v (B%s i v))" % (o1, o2))
    posts = ["(C %s)", "(C %s i)", "(I %s i)", "(F %s)", "(T %s)", "(K %s i)", "(K %s)", "(D %s)"]
    for p in PRE_ALL:
        for q in posts:
            out.append(q % ("(%s v)" % p))             # postfix applied to a prefix expression
            out.append("(%s %s)" % (p, q % "v"))       # prefix applied to a postfix expression
            for p2 in PRE_ALL:
                out.append(q % ("(%s (%s v))" % (p, p2)))
                out.append("(%s %s)" % (p, q % ("(%s v)" % p2)))
                out.append("(%s (%s %s))" % (p, p2, q % "v"))
            for q2 in posts:
                out.append(q2 % (q % ("(%s v)" % p)))
                out.append("(%s %s)" % (p, q2 % (q % "v")))
                out.append(q2 % ("(%s %s)" % (p, q % "v")))
        for o in BIN_ALL:
            out.append("(B%s (%s v) i)" % (o, p))
            out.append("(B%s v (%s i))" % (o, p))
            out.append("(%s (B%s v i))" % (p, o))
    for q in posts:
        for o in BIN_ALL:
            out.append("(B%s %s i)" % (o, q % "v"))
            out.append("(B%s v %s)" % (o, q % "i"))
            out.append(q % ("(B%s v i)" % o))
    return out


TOKS_SOUP = ["a", "1", "1.5", "true", "+", "-", "~", "*", "&&", "||", "==", "<", "!", "^", "mut", ".", "try", "(", ")",
             "[", "]", ",", ":", "=", "as", "{", "}", ";", "if", "else", "#", "->"]


def mutate(rng, toks):
    t = list(toks)
    for _ in range(rng.range(1, 2)):
        k = rng.below(4)
        pos = rng.below(len(t) + 1)
        if k == 0 and t:
            del t[min(pos, len(t) - 1)]
        elif k == 1:
            t.insert(pos, rng.choice(TOKS_SOUP))
        elif k == 2 and t:
            t[min(pos, len(t) - 1)] = rng.choice(TOKS_SOUP)
        elif len(t) >= 2:
            i = min(pos, len(t) - 2)
            t[i], t[i + 1] = t[i + 1], t[i]
    return t


# ---- helpers ---------------------------------------------------------------------
def split_impl(r):
    """harness result -> (status, nerr, sexpr, text)"""
    if r is None:
        return ("NONE", None, None, "")
    body, _, text = r.partition(" @@ ")
    if body.startswith("!"):
        return (body, None, None, text)
    if body.startswith("PANIC"):
        return ("PANIC", None, body, text)
    if body.startswith("LEX"):
        return ("LEX", None, None, body)
    head, _, sx = body.partition(" ")
    lossy = head.endswith("!LOSSY")
    try:
        n = int(head.replace("!LOSSY", ""))
    except ValueError:
        return ("BAD", None, body, text)
    return ("LOSSY" if lossy else "OK", n, sx, text)


def dot_trivia(text):
    """the syntactic class of known finding C24-1: trivia between `.` and `(` / `try`"""
    import re
    return re.search(r"\.\s+(\(|try\b)", text) is not None


def run(tier, seed):
    fl = Flow("C24", tier, seed, "proof")
    v = fl.v
    fl.proof_stage()
    drv = fl.driver()
    har = fl.harness("h_c24")
    if drv and har:
        rng = fl.rng
        quick = tier == "quick"
        # ---------------- trees --------------------------------------------------
        groups = []
        ex = trees_upto(3, BIN_RED, PRE_RED, ["v", "i"], {})
        groups.append(("exhaustive depth<=3 (reduced operator set)", ex))
        groups.append(("operator pairs / prefix x postfix (full operator set)", pair_trees()))
        r2 = rng.fork("sampled")
        n_s = 4000 if quick else 150000
        sam = []
        for i in range(n_s):
            sam.append(rand_tree(r2, 5 if i % 4 else 4))
        groups.append(("sampled depth<=5 (full operator set)", sam))
        try:
            corpus = [l.strip() for l in open(C.os.path.join(C.CORPUS, "C24", "trees.txt")) if l.strip() and not l.startswith("#")]
        except OSError:
            corpus = []
        groups.insert(0, ("corpus", corpus))

        all_trees = []
        gidx = []
        for gi, (name, ts) in enumerate(groups):
            for t in ts:
                all_trees.append(t)
                gidx.append(gi)
        pr = C.run_lines([drv], ["T " + t for t in all_trees], indexed=False)
        cases = []      # (tree index, variant, mode, tokens, expected sexpr)
        bad_printer = 0
        for k, (t, line) in enumerate(zip(all_trees, pr)):
            parts = [x.strip() for x in line.split(" @ ")]
            if len(parts) != 5 or parts[4].split()[:3] != ["true", "true", "true"]:
                bad_printer += 1
                if bad_printer == 1:
                    fl.broken.append({"what": "extracted printer: pmin/pall not wf or input not paren-free", "tree": t, "got": line})
                continue
            mn, rd, emn, erd = parts[0], parts[1], parts[2], parts[3]
            sp = "scn"[k % 3]
            sp2 = "csn"[k % 3]
            cases.append((k, "min", "R" + sp, mn, emn))
            cases.append((k, "min", "S" + sp2, mn, emn))
            cases.append((k, "red", ("S" if k % 2 else "R") + sp, rd, erd))
        lines = ["%s %s" % (m, toks) for (_, _, m, toks, _) in cases]
        impl = C.run_lines([har], lines, case_timeout=10)
        model = C.run_lines([drv], ["P " + l for l in lines], indexed=False)
        diffs = {}
        firsts = {}
        hist_ops = {}
        hist_depth = {}
        nontriv = set()
        for (k, variant, mode, toks, exp), ir, mr in zip(cases, impl, model):
            t = all_trees[k]
            st, nerr, sx, text = split_impl(ir)
            gname = groups[gidx[k]][0]
            want_rest = 1 if mode[0] == "S" else 0
            m_ok = mr == "OK %s %d" % (sx, want_rest)
            # correspondence: the model predicts the implementation's tree
            if not (st == "OK" and nerr == 0 and m_ok):
                diffs[gname] = diffs.get(gname, 0) + 1
                firsts.setdefault(gname, {"tree": t, "mode": mode, "tokens": toks, "implementation": ir, "model": mr})
            # direct oracle: no errors, tree is the printed tree, and without parens it is t
            ok = st == "OK" and nerr == 0 and sx == exp
            if ok:
                try:
                    ok = show(strip(parse_sexpr(sx))) == t
                except Exception:
                    ok = False
            if not ok:
                cls = "roundtrip-" + ("panic" if st == "PANIC" else "died" if st.startswith("!") else
                                      "syntax-error" if (nerr or 0) > 0 else "lossy" if st == "LOSSY" else "wrong-tree")
                v.failing(cls, {"key": "rt:%s:%s:%s" % (t, variant, mode), "stream": gname, "tree": t, "printer": variant,
                                "mode": mode, "tokens": toks, "text": text, "expected": exp, "implementation": ir,
                                "model": mr})
            pt = parse_sexpr(t)
            d = depth(pt)
            hist_depth[d] = hist_depth.get(d, 0) + 1
            for o in ops_of(pt, set()):
                o = o[0] if o[0] in "BU" and len(o) > 1 and False else o
                hist_ops[o] = hist_ops.get(o, 0) + 1
            if d >= 3 or "(" in exp.replace("(P", "", 1) and "(P" in exp:
                nontriv.add(t)
        for gi, (name, ts) in enumerate(groups):
            n = sum(1 for (k, *_r) in cases if gidx[k] == gi)
            fl.stream(name, n, diffs.get(name, 0), firsts.get(name))
        v.coverage["evaluations"] += len(cases)
        v.coverage["distinct_nontrivial"] += len(nontriv)
        v.coverage["exhaustive"] = True
        v.coverage["trees"] = {name: len(ts) for name, ts in groups}
        v.coverage["depth_histogram"] = {str(k): n for k, n in sorted(hist_depth.items())}
        v.coverage["operator_histogram"] = dict(sorted(hist_ops.items()))
        v.add_samples([{"tree": all_trees[c[0]], "mode": c[2], "tokens": c[3], "implementation": impl[i]}
                       for i, c in ((j, cases[j]) for j in (len(cases) // 5, len(cases) // 2, len(cases) - 2))])

        # ---------------- mutants / soups ------------------------------------------
        r3 = rng.fork("mutants")
        n_m = 6000 if quick else 120000
        base = [c[3].split() for c in cases if c[1] == "min"]
        mlines = []
        for i in range(n_m):
            if i % 5 == 4:
                toks = [r3.choice(TOKS_SOUP) for _ in range(r3.range(1, 7))]
            else:
                toks = mutate(r3, r3.choice(base))
            mode = ("R" if i % 2 else "S") + "sc"[(i // 2) % 2]
            # statement level (leading `;`, `name :` declarations, return/break/...) is outside the expression model
            if toks and toks[0] != ";" and not (len(toks) > 1 and toks[1] == ":"):
                mlines.append("%s %s" % (mode, " ".join(toks)))
        mlines = sorted(set(mlines))
        mimpl = C.run_lines([har], mlines, case_timeout=10)
        mmodel = C.run_lines([drv], ["P " + l for l in mlines], indexed=False)
        md = 0
        mfirst = None
        kinds = {"agree-tree": 0, "agree-error": 0, "unsupported": 0, "rest": 0, "lex": 0}
        for l, ir, mr in zip(mlines, mimpl, mmodel):
            st, nerr, sx, text = split_impl(ir)
            want_rest = 1 if l[0] == "S" else 0
            if st == "LEX":
                kinds["lex"] += 1
                continue
            predicted = mr.startswith("OK ") and mr.endswith(" %d" % want_rest)
            if (st == "PANIC" or st.startswith("!")) and not predicted:
                # panics on malformed input are C23's subject (statement level, recovery); they break this
                # correspondence only where the model predicts an error-free expression
                kinds["impl-panic(C23)"] = kinds.get("impl-panic(C23)", 0) + 1
                continue
            if mr == "UNSUP":
                kinds["unsupported"] += 1
                continue
            if mr == "ERR":
                if nerr and nerr > 0:
                    kinds["agree-error"] += 1
                else:
                    md += 1
                    mfirst = mfirst or {"line": l, "implementation": ir, "model": mr}
                continue
            if mr.startswith("OK "):
                rest = int(mr.rsplit(" ", 1)[1])
                msx = mr[3:].rsplit(" ", 1)[0]
                if rest != want_rest:
                    kinds["rest"] += 1      # statement-level continuation: outside the expression model
                    continue
                if nerr == 0 and sx == msx:
                    kinds["agree-tree"] += 1
                else:
                    md += 1
                    mfirst = mfirst or {"line": l, "implementation": ir, "model": mr}
                continue
            md += 1
            mfirst = mfirst or {"line": l, "implementation": ir, "model": mr}
        fl.stream("token mutants and soups (model predicts tree / error)", len(mlines), md, mfirst)
        v.coverage["evaluations"] += len(mlines)
        v.coverage["mutant_outcomes"] = kinds

        # ---------------- dot-trivia (known finding C24-1) ----------------------------
        wl = []
        for (k, variant, mode, toks, exp) in cases:
            if variant == "min" and (". (" in toks or ". try" in toks) and len(wl) < (400 if quick else 5000):
                wl.append((k, mode[0] + "w", toks, exp))
        wimpl = C.run_lines([har], ["%s %s" % (m, t) for (_, m, t, _) in wl], case_timeout=10)
        for (k, mode, toks, exp), ir in zip(wl, wimpl):
            st, nerr, sx, text = split_impl(ir)
            if not (st == "OK" and nerr == 0 and sx == exp):
                cls = "trivia-between-dot-and-lparen-or-try" if dot_trivia(text) else "roundtrip-spaced-wrong"
                v.failing(cls, {"key": "w:%s:%s" % (all_trees[k], mode), "tree": all_trees[k], "mode": mode, "tokens": toks,
                                "text": text, "expected": exp, "implementation": ir})
        v.coverage["evaluations"] += len(wl)
        v.coverage["rule"] = (
            "every tree is printed by the extracted verified printers print_min / print_redundant, rendered "
            "(spaced | compact | newline+comment trivia), lexed by the real lexer and parsed by the real parser as a source "
            "file binding and as a REPL line; the AST read through ast:: accessors must have 0 syntax errors, equal the "
            "printed tree, equal t after removing ParenExpr, and equal the extracted model's parse. exhaustive = all trees "
            "of depth <= 3 over binops {|| && == + ~ *}, prefixes {- ~ ^}, all six postfix forms, atoms {ident,int}; "
            "non-trivial = depth >= 3 or needs a parenthesis")
    v.assumptions = [
        "model works on non-trivia token KINDS: trivia skipping (Parser::at/at_set/kind skip trivia before looking) is part of the "
        "C23 parser-core model; the raw double p.bump() after `.` (parse_cast, `.try`) does not skip trivia: finding C24-1",
        "identifiers `import`/`mod` directly followed by a string literal (old import syntax recovery in parse_var_ref) are outside the model",
        "constructs outside the fragment (lambda, block, if/while/switch, struct/enum/array forms, directives, strings, `mut`, `!` error unions) "
        "are reported by the model as PUnsupported, syntax errors as PErr (error recovery is not modelled)",
        "ast accessors (BinaryExpr::lhs/rhs/op etc.) are executed, not modelled: the harness reads the tree through them",
    ]
    return fl.finish()


def replay(path):
    r = json.load(open(path))
    print(json.dumps(r, indent=1))
    return 0
