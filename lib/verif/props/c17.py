"""C17 — Type layouts obey the documented representation rules (DESIGN.md C17).

Streams (for pointer widths 64 and 32, one harness process family per width):
  1. correspondence: real `calc_layouts` (hook codegen::verif_layout::layout_of) vs
     the extracted model Common/Layout.v on every generated type;
  2. direct oracle: (a) the implementation's numbers vs the specification
     Spec/CLayout.v, (b) the documented rules re-checked in Python on the
     implementation's numbers only (children looked up in the same run);
  3. thorough (and a small sample in quick): structs of scalars vs host gcc
     `__builtin_offsetof` / sizeof / _Alignof.
Types are ASTs (nested tuples) rendered to the prefix notation of
harness/c17/src/typarse.rs."""
import itertools
import json
import os
import subprocess

from .. import common as C
from ..flow import Flow

# ---------------------------------------------------------------- type ASTs
# ("prim", tok) | ("aarr", n, t) | ("arr", n, t) | ("slice", t) | ("ptr", mut, t) |
# ("dist", uid, t) | ("fnptr", [ps], r) | ("fn", loc, [ps], r) |
# ("astruct", [(name, t)]) | ("struct", uid, [(name, t)]) | ("enum", uid, [t]) |
# ("var", euid, name, uid, discr, t) | ("opt", t) | ("eu", e, p)

INTS = [0, 8, 16, 32, 64, 128, 255]
PRIM_TOKENS = (["I%d" % w for w in INTS] + ["U%d" % w for w in INTS] + ["F0", "F32", "F64"] +
               ["bool", "char", "str", "type", "any", "rawptr0", "rawptr1", "rawslice", "void", "nil",
                "never", "unknown", "nyr", "file0", "polyfn 1"])
P = lambda tok: ("prim", tok)
PRIMS = [P(t) for t in PRIM_TOKENS] + [
    ("ptr", 0, P("I8")), ("ptr", 1, P("I64")), ("slice", P("I32")),
    ("fnptr", [P("I32")], P("void")), ("fn", 2, [], P("void")),
]
BASIS = [P("U8"), P("I16"), P("I32"), P("I64"), P("I128"), P("F32"), P("F64"), P("bool"), P("str"),
         P("any"), P("void")]
SMALL = [P("U8"), P("I16"), P("I32"), P("I64"), P("I128")]
TINY = [P("U8"), P("I64"), P("void")]
ARR_LENS = [0, 1, 3]


def render(t):
    k = t[0]
    if k == "prim":
        return t[1]
    if k in ("aarr", "arr"):
        return "%s %d %s" % (k, t[1], render(t[2]))
    if k == "slice":
        return "slice " + render(t[1])
    if k == "ptr":
        return "ptr%d %s" % (t[1], render(t[2]))
    if k == "dist":
        return "dist %d %s" % (t[1], render(t[2]))
    if k == "fnptr":
        return "fnptr %d %s" % (len(t[1]), " ".join([render(x) for x in t[1]] + [render(t[2])]))
    if k == "fn":
        return "fn %d %d %s" % (t[1], len(t[2]), " ".join([render(x) for x in t[2]] + [render(t[3])]))
    if k == "astruct":
        return ("astruct %d " % len(t[1]) + " ".join("%d %s" % (n, render(x)) for n, x in t[1])).strip()
    if k == "struct":
        return ("struct %d %d " % (t[1], len(t[2])) + " ".join("%d %s" % (n, render(x)) for n, x in t[2])).strip()
    if k == "enum":
        return ("enum %d %d " % (t[1], len(t[2])) + " ".join(render(x) for x in t[2])).strip()
    if k == "var":
        return "var %d %d %d %d %s" % (t[1], t[2], t[3], t[4], render(t[5]))
    if k == "opt":
        return "opt " + render(t[1])
    if k == "eu":
        return "eu %s %s" % (render(t[1]), render(t[2]))
    raise ValueError(k)


def children(t):
    """layout-relevant children (what calc_single recurses into)"""
    k = t[0]
    if k in ("aarr", "arr"):
        return [t[2]]
    if k == "dist":
        return [t[2]]
    if k == "astruct":
        return [x for _, x in t[1]]
    if k == "struct":
        return [x for _, x in t[2]]
    if k == "enum":
        return list(t[2])
    if k == "var":
        return [t[5]]
    if k == "opt":
        return [t[1]]
    if k == "eu":
        return [t[1], t[2]]
    return []


def depth(t):
    c = children(t)
    return 1 + max(depth(x) for x in c) if c else (1 if t[0] in ("astruct", "struct", "enum") else 0)


def absolute(t):
    while t[0] in ("dist", "var"):
        t = t[2] if t[0] == "dist" else t[5]
    return t


def is_pointer(t):
    a = absolute(t)
    return a[0] == "ptr" or (a[0] == "prim" and a[1].startswith("rawptr"))


def mk_struct(ms, uid=7):
    return ("struct", uid, [(i, m) for i, m in enumerate(ms)])


def mk_astruct(ms):
    return ("astruct", [(i, m) for i, m in enumerate(ms)])


def mk_enum(ms, uid=9):
    return ("enum", uid, [("var", uid, i, 100 + i, i, m) for i, m in enumerate(ms)])


def unary(t):
    out = [("dist", 5, t), ("var", 9, 0, 11, 0, t), ("opt", t)]
    for n in ARR_LENS:
        out.append(("arr", n, t))
        out.append(("aarr", n, t))
    return out


def shape_pool():
    """member tuples with <= 4 members"""
    tuples = [()]
    tuples += [(a,) for a in BASIS]
    tuples += list(itertools.product(BASIS, repeat=2))
    tuples += list(itertools.product(SMALL, repeat=3))
    tuples += list(itertools.product(SMALL, repeat=4))
    return tuples


def depth1():
    out = []
    for p in PRIMS:
        out += unary(p)
    for a in PRIMS:
        for b in PRIMS:
            out.append(("eu", a, b))
    for ms in shape_pool():
        out.append(mk_struct(ms))
        out.append(mk_astruct(ms))
        out.append(mk_enum(ms))
    return out


def depth2(d1):
    out = []
    for t in d1:
        out += unary(t)
        for b in TINY:
            out.append(("eu", t, b))
            out.append(("eu", b, t))
        for b in TINY[:2]:
            out.append(mk_struct((b, t)))
            out.append(mk_struct((t, b)))
            out.append(mk_enum((b, t)))
    return out


def random_type(rng, d, pool):
    if d == 0 or rng.chance(1, 6):
        return rng.choice(PRIMS)
    k = rng.below(10)
    sub = lambda: random_type(rng, d - 1, pool)
    if k == 0:
        return ("arr", rng.choice([0, 1, 2, 3, 5, 17]), sub())
    if k == 1:
        return ("aarr", rng.choice([0, 1, 2, 7]), sub())
    if k == 2:
        return ("dist", rng.range(1, 50), sub())
    if k == 3:
        return ("var", 9, rng.below(4), rng.range(1, 50), rng.below(4), sub())
    if k == 4:
        return ("opt", sub())
    if k == 5:
        return ("eu", sub(), sub())
    if k in (6, 7):
        ms = [sub() for _ in range(rng.below(5))]
        return mk_struct(ms, rng.range(1, 50)) if rng.chance(2, 3) else mk_astruct(ms)
    if k == 8:
        ms = [sub() for _ in range(rng.below(5))]
        return mk_enum(ms, rng.range(1, 50))
    return rng.choice(pool)


# ---------------------------------------------------------------- parsing of tool output
def parse_info(s):
    """'<size> <align> <stride> O=.. D=..' -> dict, or None for a crash/panic"""
    s = s.strip()
    if s.startswith("PANIC") or s.startswith("CRASH") or s.startswith("!") or s.startswith("BAD") or s == "FUEL":
        return None
    f = s.split()
    if len(f) != 5:
        return None
    o = f[3][2:]
    d = f[4][2:]
    return {"size": int(f[0], 0), "align": int(f[1], 0), "stride": int(f[2], 0),
            "offs": None if o == "-" else ([int(x, 0) for x in o.split(",")] if o else []),
            "discr": None if d == "-" else int(d, 0)}


def canon(s):
    s = s.strip()
    if s.startswith("PANIC"):
        return "CRASH"
    if s.startswith("CRASH"):
        return "CRASH"
    i = parse_info(s)
    if i is None:
        return s
    return json.dumps(i, sort_keys=True)


def check_rules(t, pw, res):
    """The documented rules on the implementation's numbers only.
    res: render(type) -> parsed info (or None).  Returns list of (rule, detail)."""
    bad = []
    me = res.get(render(t))
    if me is None:
        return bad
    ch = [res.get(render(c)) for c in children(t)]
    if any(c is None for c in ch):
        return bad
    if me["align"] not in (1, 2, 4, 8):
        bad.append(("align-not-pow2-le8", me["align"]))
    if me["align"] > 0 and (me["stride"] % me["align"] != 0 or not (me["size"] <= me["stride"] < me["size"] + me["align"])):
        bad.append(("stride", (me["size"], me["align"], me["stride"])))
    k = t[0]
    a = absolute(t)
    if a[0] in ("struct", "astruct"):
        ms = children(a)
        mres = [res.get(render(c)) for c in ms]
        offs = me["offs"]
        if offs is None or len(offs) != len(ms):
            bad.append(("struct-offset-count", offs))
        elif all(m is not None for m in mres):
            cur = 0
            for m, o in zip(mres, offs):
                if m["align"] == 0 or o % m["align"] != 0:
                    bad.append(("field-misaligned", (o, m["align"])))
                if o < cur:
                    bad.append(("field-overlap-or-out-of-order", offs))
                cur = o + m["size"]
            if cur > me["size"]:
                bad.append(("field-outside-struct", (offs, me["size"])))
    elif me["offs"] is not None:
        bad.append(("offsets-on-non-struct", me["offs"]))
    if k in ("arr", "aarr"):
        if me["size"] != t[1] * ch[0]["stride"] or me["align"] != ch[0]["align"]:
            bad.append(("array-size", (t[1], ch[0]["stride"], me["size"])))
    if k in ("dist", "var"):
        if (me["size"], me["align"]) != (ch[0]["size"], ch[0]["align"]):
            bad.append(("distinct-variant-not-transparent", (me["size"], me["align"], ch[0]["size"], ch[0]["align"])))
    if a[0] == "opt":
        sub = res.get(render(a[1]))
        if sub is not None:
            if is_pointer(a[1]):
                if me["size"] != pw // 8 or me["discr"] is not None:
                    bad.append(("optional-pointer-not-pointer-sized", (me["size"], me["discr"])))
            elif me["discr"] != sub["size"] or me["size"] != sub["size"] + 1:
                bad.append(("optional-tag", (me["size"], me["discr"], sub["size"])))
    if a[0] == "eu":
        e, p = res.get(render(a[1])), res.get(render(a[2]))
        if e is not None and p is not None:
            d = max(e["size"], p["size"])
            if me["discr"] != d or me["size"] != d + 1:
                bad.append(("error-union-tag", (me["size"], me["discr"], d)))
    if a[0] == "enum":
        vs = [res.get(render(c)) for c in a[2]]
        if all(v is not None for v in vs):
            d = max([v["size"] for v in vs] + [0])
            if me["discr"] != d or me["size"] != d + 1:
                bad.append(("enum-tag", (me["size"], me["discr"], d)))
    if a[0] not in ("opt", "eu", "enum") and me["discr"] is not None:
        bad.append(("tag-on-untagged", me["discr"]))
    return bad


def has_big_len(t):
    if t[0] in ("arr", "aarr") and t[1] >= 2 ** 32:
        return True
    return any(has_big_len(c) for c in children(t))


# ---------------------------------------------------------------- gcc comparison
C_SCALARS = {"U8": "unsigned char", "I8": "signed char", "U16": "unsigned short", "I16": "short",
             "U32": "unsigned int", "I32": "int", "U64": "unsigned long long", "I64": "long long",
             "F32": "float", "F64": "double", "bool": "unsigned char", "char": "unsigned char",
             "U255": "unsigned long", "I255": "long", "rawptr0": "void*", "rawptr1": "void*", "str": "char*"}


def gcc_structs(shapes):
    """shapes: list of lists of prim tokens. Returns list of (sizeof, alignof, [offsets]) or None."""
    src = ["#include <stdio.h>"]
    for i, sh in enumerate(shapes):
        src.append("struct S%d { %s };" % (i, " ".join("%s f%d;" % (C_SCALARS[m], j) for j, m in enumerate(sh))))
    src.append("int main(void){")
    for i, sh in enumerate(shapes):
        fmt = " ".join(["%zu"] * (2 + len(sh)))
        args = ["sizeof(struct S%d)" % i, "_Alignof(struct S%d)" % i] + \
               ["__builtin_offsetof(struct S%d, f%d)" % (i, j) for j in range(len(sh))]
        src.append('printf("%s\\n", %s);' % (fmt, ", ".join(args)))
    src.append("return 0;}")
    with C.scratch("verif-c17-") as d:
        open(os.path.join(d, "s.c"), "w").write("\n".join(src))
        rc, out = C.run(["gcc", "-O0", "-w", "-o", os.path.join(d, "s"), os.path.join(d, "s.c")], timeout=600)
        if rc != 0:
            return None, out[-1500:]
        rc, out = C.run([os.path.join(d, "s")], timeout=120)
        if rc != 0:
            return None, out[-500:]
    res = []
    for line in out.strip().split("\n"):
        f = [int(x) for x in line.split()]
        res.append((f[0], f[1], f[2:]))
    return res, ""


# ---------------------------------------------------------------- corpus
def load_corpus():
    out = []
    d = os.path.join(C.CORPUS, "C17")
    if os.path.isdir(d):
        for f in sorted(os.listdir(d)):
            if f.endswith(".json"):
                for e in json.load(open(os.path.join(d, f))):
                    out.append(tuplify(e))
    return out


def tuplify(x):
    """JSON lists -> the tuple ASTs used here (member lists stay lists)"""
    if isinstance(x, list) and x and isinstance(x[0], str):
        k = x[0]
        if k == "prim":
            return ("prim", x[1])
        if k in ("aarr", "arr", "dist"):
            return (k, x[1], tuplify(x[2]))
        if k == "slice" or k == "opt":
            return (k, tuplify(x[1]))
        if k == "ptr":
            return (k, x[1], tuplify(x[2]))
        if k == "fnptr":
            return (k, [tuplify(p) for p in x[1]], tuplify(x[2]))
        if k == "fn":
            return (k, x[1], [tuplify(p) for p in x[2]], tuplify(x[3]))
        if k == "astruct":
            return (k, [(n, tuplify(m)) for n, m in x[1]])
        if k == "struct":
            return (k, x[1], [(n, tuplify(m)) for n, m in x[2]])
        if k == "enum":
            return (k, x[1], [tuplify(m) for m in x[2]])
        if k == "var":
            return (k, x[1], x[2], x[3], x[4], tuplify(x[5]))
        if k == "eu":
            return (k, tuplify(x[1]), tuplify(x[2]))
    raise ValueError("bad corpus type %r" % (x,))


# ---------------------------------------------------------------- main
def close_under_children(types):
    seen = {}
    order = []

    def add(t):
        r = render(t)
        if r in seen:
            return
        for c in children(t):
            add(c)
        seen[r] = t
        order.append(t)

    for t in types:
        add(t)
    return order


MAX_PER_CLASS = 5   # replay files per failure class and stream; the rest is only counted


def report(v, counts, cls, payload):
    counts[cls] = counts.get(cls, 0) + 1
    if counts[cls] <= MAX_PER_CLASS or v.classify(cls) is not None:
        v.failing(cls, payload)


def run_width(fl, v, drv, har, pw, types, label, hist):
    counts = v.coverage.setdefault("failing_inputs_by_class", {})
    lines = [render(t) for t in types]
    impl = C.run_lines([har, "layout", str(pw)], lines, case_timeout=5)
    model = C.run_lines([drv], ["L %d %s" % (pw, l) for l in lines], indexed=False)
    name = "%s, pointer width %d" % (label, pw)
    if len(impl) != len(lines) or len(model) != len(lines):
        fl.broken.append({"what": "stream '%s': tool output length mismatch" % name,
                          "impl": len(impl), "model": len(model), "inputs": len(lines)})
        return
    res = {}
    diffs = 0
    first = None
    parsed_model = []
    for t, l, i, m in zip(types, lines, impl, model):
        parts = [x.strip() for x in m.split(" / ")]
        if len(parts) != 3:
            fl.broken.append({"what": "model driver output malformed", "type": l, "output": m})
            return
        mm, sp, flags = parts
        fl_ = dict(x.split("=") for x in flags.split())
        parsed_model.append((mm, sp, fl_))
        res[l] = parse_info(i)
        if canon(i) != canon(mm):
            diffs += 1
            if first is None:
                first = {"type": l, "pointer_bits": pw, "implementation": i, "model": mm}
    fl.stream(name, len(lines), diffs, first)
    nontriv = 0
    for t, l, i, (mm, sp, f) in zip(types, lines, impl, parsed_model):
        hist[t[0]] = hist.get(t[0], 0) + 1
        if children(t):
            nontriv += 1
        payload = {"key": "%d:%s" % (pw, l), "type": l, "type_ast": t, "pointer_bits": pw,
                   "implementation": i, "spec": sp, "model": mm, "flags": f}
        if f.get("wf") != "1":
            continue
        # (a) implementation vs specification
        if canon(i) != canon(sp):
            if f.get("lens") == "0":
                cls = "array-length-truncated-to-u32"
            elif canon(i) == "CRASH" and f.get("fits") == "0":
                cls = "size-exceeds-u32-panics"
            else:
                cls = "layout-differs-from-spec:" + t[0]
            report(v, counts, cls, dict(payload, rule="implementation != specification"))
        # (b) the rules on the implementation's numbers
        for rule, detail in check_rules(t, pw, res):
            if rule == "array-size" and has_big_len(t):
                cls = "array-length-truncated-to-u32"
            else:
                cls = "rule-violated:" + rule
            report(v, counts, cls, dict(payload, key="%d:%s:%s" % (pw, l, rule), rule=rule, detail=detail))
    v.coverage["evaluations"] += len(lines)
    v.coverage["distinct_nontrivial"] += nontriv
    return res


def gcc_stream(fl, v, har, shapes, label):
    shapes = [list(s) for s in shapes]
    got, err = gcc_structs(shapes)
    if got is None:
        fl.broken.append({"what": "gcc comparison could not be built", "output": err})
        return
    types = [mk_struct([P(m) for m in sh]) for sh in shapes]
    lines = [render(t) for t in types]
    impl = C.run_lines([har, "layout", "64"], lines, case_timeout=5)
    diffs = 0
    first = None
    for sh, l, i, (csz, cal, coffs) in zip(shapes, lines, impl, got):
        info = parse_info(i)
        ok = info is not None and info["offs"] == coffs and info["stride"] == csz and \
            (info["align"] == cal or not sh)
        if not sh:
            # C has no empty structs with defined layout; gcc gives size 0 align 1
            ok = info is not None and info["offs"] == [] and info["size"] == 0
        if not ok:
            diffs += 1
            if first is None:
                first = {"struct": sh, "implementation": i, "gcc": {"sizeof": csz, "alignof": cal, "offsetof": coffs}}
            report(v, v.coverage.setdefault("failing_inputs_by_class", {}), "struct-of-scalars-differs-from-C", {"key": "gcc:" + l, "type": l, "members": sh,
                      "implementation": i, "gcc_sizeof": csz, "gcc_alignof": cal, "gcc_offsetof": coffs})
    fl.stream(label, len(shapes), diffs, first)
    v.coverage["evaluations"] += len(shapes)
    v.coverage["gcc_structs"] = v.coverage.get("gcc_structs", 0) + len(shapes)


def run(tier, seed):
    fl = Flow("C17", tier, seed, "proof")
    v = fl.v
    fl.proof_stage()
    drv = fl.driver()
    har = fl.harness("h_c17")
    hist = {}
    if drv and har:
        corpus = load_corpus()
        d1 = depth1()
        d2 = depth2(d1)
        if tier == "quick":
            # quick: depth <= 1 completely, depth 2 every 4th (rotating with the seed)
            d2 = d2[seed % 4::4]
        rng = fl.rng.fork("random")
        nrand = 3000 if tier == "quick" else 40000
        pool = d1
        rnd = [random_type(rng, 3, pool) for _ in range(nrand)]
        sets = [("corpus", close_under_children(corpus)),
                ("exhaustive depth<=2", close_under_children(PRIMS + d1 + d2)),
                ("random depth<=3", close_under_children(rnd))]
        for label, types in sets:
            if not types:
                continue
            for pw in (64, 32):
                run_width(fl, v, drv, har, pw, types, label, hist)
        v.coverage["exhaustive"] = (tier == "thorough")
        v.coverage["depth_histogram"] = {}
        for _, types in sets:
            for t in types:
                d = depth(t)
                v.coverage["depth_histogram"][d] = v.coverage["depth_histogram"].get(d, 0) + 1
        # padding_needed_for directly
        pads = ["%d %d" % (o, a) for o in list(range(0, 40)) + [4294967295, 4294967288] for a in (1, 2, 4, 8, 3, 16, 0)]
        pi = C.run_lines([har, "pad"], pads, case_timeout=5)
        pm = C.run_lines([drv], ["P " + p for p in pads], indexed=False)
        pd = [(p, a, b) for p, a, b in zip(pads, pi, pm) if canon(a) != canon(b)]
        fl.stream("padding_needed_for", len(pads), len(pd), {"input": pd[0][0], "implementation": pd[0][1], "model": pd[0][2]} if pd else None)
        # gcc
        scal = ["U8", "I16", "I32", "I64", "F32", "F64", "bool", "str", "U255", "rawptr0"]
        if tier == "quick":
            g = fl.rng.fork("gcc")
            shapes = [()] + [(a,) for a in scal] + list(itertools.product(scal, repeat=2)) + \
                     [tuple(g.choice(scal) for _ in range(g.range(3, 4))) for _ in range(300)]
        else:
            shapes = [()] + [(a,) for a in scal] + list(itertools.product(scal, repeat=2)) + \
                     list(itertools.product(scal, repeat=3)) + list(itertools.product(scal[:7], repeat=4))
        gcc_stream(fl, v, har, shapes, "structs of scalars vs host gcc offsetof/sizeof/_Alignof (64-bit)")
        v.add_samples([{"type": render(t)} for t in (d1[10], d1[len(d1) // 2], d2[len(d2) // 2], rnd[0], rnd[1])])
    v.coverage["constructor_histogram"] = hist
    v.coverage["rule"] = (
        "every type: real calc_layouts (size, align, stride, struct offsets, tag offset) == extracted model == "
        "specification, and the documented rules re-checked on the implementation's numbers; pointer widths 64 and 32. "
        "Exhaustive part: all %d primitives/leaf types; depth 1 = 9 unary constructors x leaves, error unions over all "
        "leaf pairs, struct/anon struct/enum over every member tuple of length <= 2 from an 11-type basis and of length "
        "3-4 from {u8,i16,i32,i64,i128}; depth 2 = unary constructors, error unions and 2-member structs/enums over every "
        "depth-1 type (quick tier: every 4th depth-2 type, thorough: all).  Random part: depth <= 3, <= 4 members.  "
        "Non-trivial = type has at least one layout-relevant component." % len(PRIMS))
    v.assumptions = [
        "modelled: calc_single, StructLayout::new, padding_needed_for, EnumLayout, GetLayoutInfo::{size,align,stride,"
        "struct_layout,enum_layout}; u32 overflow = panic (dev profile, overflow checks on) and `as u32` truncation of array lengths",
        "not modelled: the LAYOUTS memo table (pure cache; one pointer width per process - calc_layouts panics on a "
        "width change because OnceCell::set is called on a full cell)",
        "well-formed types: int widths {0,8,16,32,64,128,255}, float widths {0,32,64}; pointer width 32 or 64",
        "types are built by the harness from hir::common::Ty constructors directly, not through the front end",
        "gcc comparison: x86-64 SysV host ABI, scalar members only (i128 excluded: C aligns it to 16, capy to 8)",
    ]
    return fl.finish()


def replay(path):
    r = json.load(open(path))
    print(json.dumps(r, indent=1))
    if "type" in r and "pointer_bits" in r:
        fl = Flow("C17", "quick", 0, "proof")
        drv = fl.driver()
        har = fl.harness("h_c17")
        if drv and har:
            i = C.run_lines([har, "layout", str(r["pointer_bits"])], [r["type"]])
            m = C.run_lines([drv], ["L %d %s" % (r["pointer_bits"], r["type"])], indexed=False)
            print("implementation now:", i[0])
            print("model / spec now:  ", m[0])
    return 0
