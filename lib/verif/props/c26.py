"""C26 — Inference scheduling offers exactly the ready work and detects true cycles
(DESIGN.md C26).

Stream A  drives the real `topo::TopoSort<u32>` (harness h_c26, mode ops) and the
          extracted Coq model through the same API call sequences: exhaustive small
          protocol histories, random protocol histories, and malformed (non-protocol)
          call sequences incl. the `num_children -= 1` underflow panic.  The direct
          oracle evaluates the abstract scheduler (`ready`/`pending` of Spec/Sched.v)
          at every round boundary against what the real crate offered.
Stream B  validates the protocol hypothesis of the theorems: the `capy_verif` trace hook
          in hir_ty::InferenceCtx::finish records every TopoSort call of the real type
          checker (examples + core + generated multi-global programs); each recorded
          history must satisfy `protocol_okb` (extracted), the hook's "dep already
          finished" flags must agree with the abstract `done` set, and both the model
          and the abstract scheduler must reproduce every recorded offer."""
import glob
import itertools
import json
import os
import subprocess

from .. import common as C
from ..flow import Flow


# ----------------------------------------------------------------------------------
# An independent Python copy of the abstract scheduler (used only to *generate*
# protocol histories; the extracted protocol_okb re-validates every one of them).
class Abs:
    def __init__(self, seed):
        self.pending = []
        for x in seed:
            if x not in self.pending:
                self.pending.append(x)
        self.done = set()
        self.waits = []

    def copy(self):
        a = Abs([])
        a.pending = list(self.pending)
        a.done = set(self.done)
        a.waits = list(self.waits)
        return a

    def ready(self):
        return [x for x in self.pending if all(c in self.done for (p, c) in self.waits if p == x)]

    def offer(self):
        r = self.ready()
        return (r, False) if (r or not self.pending) else (list(self.pending), True)

    def complete(self, x):
        self.pending.remove(x)
        self.done.add(x)

    def register(self, x, ds):
        for c in ds:
            if c not in self.pending:
                self.pending.append(c)
            if x not in self.pending:
                self.pending.append(x)
            if (x, c) not in self.waits:
                self.waits.append((x, c))

    def apply(self, ev):
        x, ds = ev
        if ds is None:
            self.complete(x)
        else:
            self.register(x, ds)


def ev_str(ev):
    x, ds = ev
    return "R%d" % x if ds is None else "D%d:%s" % (x, ",".join(map(str, ds)))


def hist_line(seed, rounds):
    return "hist " + " ".join(map(str, seed)) + "".join(" / " + " ".join(ev_str(e) for e in r) for r in rounds)


def ops_line(seed, rounds):
    """API call sequence of `finish` for this history + op indices of the round boundaries."""
    ops = ["X %d %s" % (len(seed), " ".join(map(str, seed)))]
    bounds = [0]
    for r in rounds:
        for (x, ds) in r:
            if ds is None:
                ops.append("R %d" % x)
            else:
                ops.append(("M %d %d %s" % (x, len(ds), " ".join(map(str, ds)))).strip())
        bounds.append(len(ops) - 1)
    return "ops " + " ".join(ops), bounds


def dep_lists(universe, maxdeps):
    out = []
    for k in range(1, maxdeps + 1):
        out += [list(p) for p in itertools.permutations(universe, k)]
    return out


def exhaustive_histories(n_items, n_rounds, maxdeps):
    """Generator of ALL maximal protocol histories over items 0..n_items-1 (canonical seeds
    [0], [0,1], ...), at most n_rounds rounds, dependency lists (ordered, no repetition) of
    length <= maxdeps.  Cycle-breaking rounds process the offered items in sorted order, as
    `finish` does."""

    def rounds_from(a, depth, acc):
        if depth == n_rounds or not a.pending:
            yield [list(r) for r in acc]
            return
        offered, cyc = a.offer()
        order = sorted(offered) if cyc else offered

        def events(a2, i, racc):
            if i == len(order):
                acc.append(list(racc))
                yield from rounds_from(a2, depth + 1, acc)
                acc.pop()
                return
            x = order[i]
            cands = [None] + dep_lists([c for c in range(n_items) if c not in a2.done], maxdeps)
            for ds in cands:
                a3 = a2.copy()
                a3.apply((x, ds))
                racc.append((x, ds))
                yield from events(a3, i + 1, racc)
                racc.pop()

        yield from events(a, 0, [])

    for k in range(1, n_items + 1):
        seed = list(range(k))
        for r in rounds_from(Abs(seed), 0, []):
            yield (seed, r)


def chunked(it, n):
    buf = []
    for x in it:
        buf.append(x)
        if len(buf) >= n:
            yield buf
            buf = []
    if buf:
        yield buf


def random_history(rng, n_items, n_rounds, maxdeps):
    k = rng.range(1, n_items)
    seed = rng.shuffle(list(range(n_items)))[:k]
    if rng.chance(1, 8):
        seed = seed + [rng.choice(seed)]          # duplicate in the seed (extend replaces in place)
    a = Abs(seed)
    rounds = []
    p_complete = rng.choice([2, 4, 6])
    for _ in range(rng.range(1, n_rounds)):
        if not a.pending:
            break
        offered, cyc = a.offer()
        order = sorted(offered) if cyc else list(offered)
        r = []
        for x in order:
            live = [c for c in range(n_items) if c not in a.done]
            if rng.below(8) < p_complete or not live:
                ev = (x, None)
            else:
                n = rng.range(0 if rng.chance(1, 10) else 1, maxdeps)
                ds = [rng.choice(live) for _ in range(n)]
                ev = (x, ds)
            a.apply(ev)
            r.append(ev)
        rounds.append(r)
    return seed, rounds


def random_ops(rng, n_items, n_ops):
    ops = []
    for _ in range(rng.range(1, n_ops)):
        k = rng.below(24)
        it = lambda: rng.below(n_items)
        if k < 7:
            ops.append("D %d %d" % (it(), it()))
        elif k < 11:
            ops.append("R %d" % it())
        elif k < 13:
            n = rng.range(0, 3)
            ops.append(("M %d %d %s" % (it(), n, " ".join(str(it()) for _ in range(n)))).strip())
        elif k < 14:
            n = rng.range(0, 3)
            ops.append(("X %d %s" % (n, " ".join(str(it()) for _ in range(n)))).strip())
        elif k < 15:
            ops.append("I %d" % it())
        else:
            ops.append(rng.choice(["k", "K", "o", "O", "y", "c", "C", "q", "Q", "n", "e", "o", "O", "q"] + (["z"] if rng.chance(1, 6) else [])))
    return "ops " + " ".join(ops)


# ----------------------------------------------------------------------------------
def parse_boundaries(hist_out):
    """'U=t P=t | m:.. s:.. | ...' -> (U, P, [(model, spec), ...])"""
    parts = [p.strip() for p in hist_out.split("|")]
    head = dict(kv.split("=") for kv in parts[0].split())
    bs = []
    for p in parts[1:]:
        m, s = p.split(" ")
        bs.append((m[2:], s[2:]))
    return head.get("U") == "t", head.get("P") == "t", bs


def _fields(o):
    import re
    m = re.match(r"^(ok\[[^\]]*\]|cyc),(-|\[[^\]]*\]),(\d+)$", o)
    return m.groups() if m else (o, "", "")


def classify_offer(impl, spec):
    """impl/spec: 'ok[..],-,n' or 'cyc,[..],n'"""
    if impl in ("PANIC", "MISSING"):
        return "panic-under-protocol"
    (ia, ic, il), (sa, sc, sl) = _fields(impl), _fields(spec)
    if ia == "cyc" and sa != "cyc":
        return "false-cycle"
    if ia != "cyc" and sa == "cyc":
        return "missed-cycle"
    if ia != sa:
        iset = set(ia[3:-1].split(",")) - {""}
        sset = set(sa[3:-1].split(",")) - {""}
        if sset - iset:
            return "ready-item-not-offered"
        if iset - sset:
            return "offered-item-not-ready"
        return "offer-order"
    if il != sl:
        return "len-wrong"
    return "cyclic-list-wrong"


def boundary_obs(ops_out, bounds):
    """observations 'peek_all,peek_all_cyclic,len' of an ops result at the boundary op indices"""
    obs = ops_out.split(";")
    res = []
    for b in bounds:
        if b >= len(obs) or obs[b] == "PANIC" or obs[b].startswith("!"):
            res.append("PANIC" if (b >= len(obs) and obs and obs[-1] == "PANIC") or (b < len(obs) and obs[b] == "PANIC") else "MISSING")
            continue
        f = obs[b].split("|")
        res.append("%s,%s,%s" % (f[2], f[3], f[1]))
    return res


def stream_a(fl, drv, har, name, hists, known_protocol=True):
    """hists: list of (seed, rounds). Correspondence + direct oracle."""
    v = fl.v
    olines, hlines, bnds = [], [], []
    for seed, rounds in hists:
        ol, b = ops_line(seed, rounds)
        olines.append(ol)
        bnds.append(b)
        hlines.append(hist_line(seed, rounds))
    impl = C.run_lines([har, "ops"], olines)
    model = C.run_lines([drv], olines, indexed=False)
    spec = C.run_lines([drv], hlines, indexed=False)
    if not (len(impl) == len(model) == len(spec) == len(olines)):
        fl.broken.append({"what": "%s: tool output length mismatch" % name})
        return
    diffs, first, nontriv, evals = 0, None, 0, 0
    stats = {"cycle_rounds": 0, "rounds": 0, "histories_with_cycle": 0, "not_protocol": 0}
    for (seed, rounds), ol, hl, b, i, m, s in zip(hists, olines, hlines, bnds, impl, model, spec):
        evals += len(b)
        if i != m:
            diffs += 1
            if first is None:
                first = {"ops": ol, "implementation": i, "model": m}
        try:
            U, P, bs = parse_boundaries(s)
        except Exception:
            fl.broken.append({"what": "%s: unparsable spec output" % name, "line": hl, "out": s})
            continue
        if known_protocol and not (U and P):
            stats["not_protocol"] += 1
            fl.broken.append({"what": "%s: generated history rejected by extracted protocol_okb (generator and Coq protocol disagree)" % name,
                              "history": hl, "usage_okb": U, "protocol_okb": P})
            continue
        iobs = boundary_obs(i, b)
        had_cycle = False
        stats["rounds"] += len(rounds)
        for k, (io, (mo, so)) in enumerate(zip(iobs, bs)):
            if so.startswith("cyc"):
                stats["cycle_rounds"] += 1
                had_cycle = True
            if io != so:
                cls = classify_offer(io, so)
                pre_rounds = rounds[:k]
                v.failing("sched:%s" % cls,
                          {"key": "A:%s:%s" % (cls, C.sha(hist_line(seed, pre_rounds))), "stream": name,
                           "history": hist_line(seed, pre_rounds), "full_history": hl, "api_calls": ol,
                           "after_round": k, "implementation(peek_all,peek_all_cyclic,len)": io,
                           "abstract_scheduler": so, "model": mo,
                           "explanation": "after this protocol history the real TopoSort does not offer exactly the "
                                          "ready items / reports a cycle wrongly (Spec/Sched.v ready, pending)"})
                break
        if had_cycle:
            stats["histories_with_cycle"] += 1
        if len(rounds) >= 2:
            nontriv += 1
    fl.stream(name, len(olines), diffs, first)
    v.coverage["evaluations"] += evals
    v.coverage["distinct_nontrivial"] += nontriv
    old = v.coverage.setdefault("stream_stats", {}).get(name)
    if old:
        for k in stats:
            stats[k] += old.get(k, 0)
    v.coverage["stream_stats"][name] = stats
    v.add_samples([{"stream": name, "history": hlines[k], "implementation": impl[k][:300], "spec": spec[k][:300]}
                   for k in (len(hlines) // 2,)] if hlines else [])


def stream_malformed(fl, drv, har, lines):
    impl = C.run_lines([har, "ops"], lines)
    model = C.run_lines([drv], lines, indexed=False)
    diffs, first, panics = 0, None, 0
    for l, i, m in zip(lines, impl, model):
        if i.endswith("PANIC"):
            panics += 1
        if i != m:
            diffs += 1
            if first is None:
                first = {"ops": l, "implementation": i, "model": m}
    fl.stream("A3 malformed API call sequences (model == implementation only)", len(lines), diffs, first)
    fl.v.coverage["evaluations"] += len(lines)
    fl.v.coverage.setdefault("stream_stats", {})["malformed"] = {"cases": len(lines), "underflow_panics_reproduced": panics}


# ----------------------------------------------------------------------------------
# Stream B: traces of the real type checker
def parse_trace(line):
    """-> dict(seed, rounds=[{'cyc':[..]|None,'leaves':[..],'events':[(x,ds|None)], 'flags':[..]}], end, names)"""
    ids = {}

    def num(tok):
        return ids.setdefault(tok, len(ids))

    groups = [g.split() for g in line.split(";") if g.strip()]
    tr = {"seed": [], "rounds": [], "end": None, "flag_mismatch": [], "ids": ids, "lambdas": 0, "generic": 0}
    cyc = None
    for g in groups:
        t = g[0]
        if t == "S":
            tr["seed"] = [num(x) for x in g[1:]]
        elif t == "C":
            cyc = [num(x) for x in g[1:]]
        elif t == "L":
            tr["rounds"].append({"cyc": cyc, "leaves": [num(x) for x in g[1:]], "events": [], "flags": []})
            cyc = None
        elif t == "R":
            tr["rounds"][-1]["events"].append((num(g[1]), None))
        elif t == "D":
            ds = [num(x) for x in g[2::2]]
            tr["rounds"][-1]["events"].append((num(g[1]), ds))
            tr["rounds"][-1]["flags"].append((num(g[1]), list(zip(ds, g[3::2]))))
        elif t == "E":
            tr["end"] = int(g[1])
    tr["lambdas"] = sum(1 for k in ids if k.startswith("l"))
    tr["generic"] = sum(1 for k in ids if k.endswith("'"))
    return tr


def check_traces(fl, drv, name, traces):
    """traces: list of (origin, trace line). Protocol validation + replay."""
    v = fl.v
    parsed, hlines = [], []
    for origin, line in traces:
        try:
            tr = parse_trace(line)
        except Exception as e:
            fl.broken.append({"what": "stream B: unparsable trace", "origin": origin, "error": str(e)})
            continue
        if not tr["rounds"] and not tr["seed"]:
            continue
        parsed.append((origin, tr))
        # a trace without the final `E` token was cut short by a panic inside the type checker
        # (C06's business): its last round is incomplete and is excluded from the protocol check
        # (its offer is still compared).
        tr["truncated"] = tr["end"] is None
        rs = tr["rounds"][:-1] if (tr["truncated"] and tr["rounds"]) else tr["rounds"]
        hlines.append(hist_line(tr["seed"], [r["events"] for r in rs]))
    out = C.run_lines([drv], hlines, indexed=False, workers=min(C.NCPU, max(1, len(hlines))))
    diffs, first = 0, None
    st = {"traces": len(parsed), "rounds": 0, "cycle_rounds": 0, "events": 0, "max_items": 0, "lambda_items": 0,
          "generic_items": 0, "deps_on_ready_item_of_same_round": 0}
    for (origin, tr), hl, o in zip(parsed, hlines, out):
        try:
            U, P, bs = parse_boundaries(o)
        except Exception:
            fl.broken.append({"what": "stream B: unparsable driver output", "origin": origin, "out": o[:300]})
            continue
        st["rounds"] += len(tr["rounds"])
        st["truncated_by_panic"] = st.get("truncated_by_panic", 0) + (1 if tr["truncated"] else 0)
        st["events"] += sum(len(r["events"]) for r in tr["rounds"])
        st["max_items"] = max(st["max_items"], len(tr["ids"]))
        st["lambda_items"] += tr["lambdas"]
        st["generic_items"] += tr["generic"]
        v.coverage["evaluations"] += len(tr["rounds"]) + 1
        if not (U and P):
            fl.broken.append({"what": "stream B: the real type checker produced a TopoSort call history outside the usage "
                                      "protocol assumed by the C26 theorems (protocol_okb = false)",
                              "origin": origin, "usage_okb": U, "protocol_okb": P, "history": hl[:4000]})
        # the hook's "already finished" flags vs the abstract done set
        a = Abs(tr["seed"])
        bad_flag = None
        for r in tr["rounds"]:
            fi = iter(r["flags"])
            for (x, ds) in r["events"]:
                if ds is not None:
                    _, fl_ = next(fi)
                    for c, f in fl_:
                        if (f == "1") != (c in a.done):
                            bad_flag = (x, c, f)
                        if c in r["leaves"] and c in a.pending and not r["cyc"]:
                            st["deps_on_ready_item_of_same_round"] += 1
                try:
                    a.apply((x, ds))
                except ValueError:
                    bad_flag = (x, "completed-while-not-pending", "")
        if bad_flag:
            fl.broken.append({"what": "stream B: all_finished_locations disagrees with the set of removed items",
                              "origin": origin, "event": bad_flag})
        # recorded offers vs model and abstract scheduler
        for k, r in enumerate(tr["rounds"]):
            if k >= len(bs):
                break
            mo, so = bs[k]
            slen = so.rsplit(",", 1)[1]
            if r["cyc"] is not None:
                st["cycle_rounds"] += 1
                rec = "cyc,[%s],%s" % (",".join(map(str, r["cyc"])), slen)
                if sorted(r["cyc"]) != sorted(r["leaves"]):
                    fl.broken.append({"what": "stream B: finish processed a different set than peek_all_cyclic returned", "origin": origin})
            else:
                rec = "ok[%s],-,%s" % (",".join(map(str, r["leaves"])), slen)
            if rec != so:
                cls = classify_offer(rec, so)
                v.failing("sched:%s" % cls,
                          {"key": "B:%s:%s" % (cls, C.sha(origin)), "stream": name, "program": origin,
                           "round": k, "recorded_offer": rec, "abstract_scheduler": so, "model": mo,
                           "history_prefix": hist_line(tr["seed"], [x["events"] for x in tr["rounds"][:k]])[:4000],
                           "explanation": "the real type checker was offered a different set of items than the ready "
                                          "ones of the abstract scheduler in this round"})
                break
            if rec.rsplit(",", 1)[0] != mo.rsplit(",", 1)[0]:
                diffs += 1
                if first is None:
                    first = {"program": origin, "round": k, "recorded": rec, "model": mo}
                break
        # final state
        if tr["end"] is not None and bs:
            mo, so = bs[-1]
            if tr["end"] != int(so.rsplit(",", 1)[1]):
                v.failing("sched:len-wrong", {"key": "B:len:%s" % C.sha(origin), "program": origin,
                                               "recorded_final_len": tr["end"], "abstract_scheduler": so})
    fl.stream(name, len(parsed), diffs, first)
    v.coverage.setdefault("stream_stats", {})[name] = st
    return st


def capy_traces(capy, files):
    """Run the real executable (type checking incl. core) on each file; collect traces."""
    def one(f):
        with C.scratch("verif-c26-") as d:
            tp = os.path.join(d, "trace.txt")
            e = dict(os.environ)
            e["CAPY_VERIF_TRACE"] = tp
            try:
                subprocess.run([capy, "build", f, "--mod-dir", C.REPO, "--no-exec"], cwd=d, env=e,
                               stdout=subprocess.DEVNULL, stderr=subprocess.DEVNULL, timeout=300)
            except subprocess.TimeoutExpired:
                return [(f, None)]
            if not os.path.exists(tp):
                return []
            return [(f, l.strip()) for l in open(tp) if l.strip()]
    res = []
    for r in C.parallel_map(one, files):
        res += r
    return res


def front_traces(har, programs, eval_comptime=False):
    """programs: list of (label, [(filename, text)]) through the in-process front end."""
    lines = ["%d %s" % (1 if eval_comptime else 0, " ".join("%s:%s" % (n, t.encode().hex()) for n, t in files))
             for _, files in programs]
    out = C.run_lines([har, "front"], lines, case_timeout=30)
    res = []
    died = 0
    for (label, files), o in zip(programs, out):
        if o is None or o.startswith("!") or "##" not in o:
            died += 1
            continue
        tr = o.split("##", 1)[1].replace("\\n", "\n")
        for l in tr.split("\n"):
            if l.strip():
                res.append((label, l.strip()))
    return res, died


# ----------------------------------------------------------------------------------
def corpus_histories():
    out = []
    for f in sorted(glob.glob(os.path.join(C.CORPUS, "C26", "*.json"))):
        try:
            j = json.load(open(f))
            out.append((j["seed"], [[(x, ds) for x, ds in r] for r in j["rounds"]]))
        except Exception:
            pass
    return out


def run(tier, seed):
    fl = Flow("C26", tier, seed, "proof")
    v = fl.v
    fl.proof_stage()
    drv = fl.driver()
    har = fl.harness("h_c26")
    quick = tier == "quick"
    if drv and har:
        # ---- stream A1: corpus + exhaustive small protocol histories ----------------
        name = "A1 exhaustive protocol histories (<=3 items, <=%d rounds, single deps%s)" % (
            (3, "") if quick else (4, "; <=2 items, <=4 rounds, dep lists <=2"))
        gens = [exhaustive_histories(3, 3, 1)] if quick else [exhaustive_histories(3, 4, 1), exhaustive_histories(2, 4, 2)]
        n_ex = 0
        first_chunk = True
        for gen in gens:
            for chunk in chunked(gen, 150000):
                n_ex += len(chunk)
                stream_a(fl, drv, har, name, (corpus_histories() if first_chunk else []) + chunk)
                first_chunk = False
        v.coverage["exhaustive"] = True
        v.coverage["exhaustive_histories"] = n_ex
        # ---- stream A2: random protocol histories -----------------------------------
        rng = fl.rng.fork("A2")
        n = 20000 if quick else 300000
        hs = [random_history(rng, 4, 8, 3) for _ in range(n)]
        if not quick:
            hs += [random_history(rng, 6, 12, 3) for _ in range(200000)]
        stream_a(fl, drv, har, "A2 random protocol histories (<=%d items, <=%d rounds)" % ((4, 8) if quick else (6, 12)), hs)
        # ---- stream A3: malformed --------------------------------------------------------
        rng = fl.rng.fork("A3")
        corpus_ops = ["ops D 1 2 R 1 D 3 1 R 2"]       # the underflow panic at topo/src/lib.rs:258
        stream_malformed(fl, drv, har, corpus_ops + [random_ops(rng, 4, 14) for _ in range(20000 if quick else 400000)])
        # ---- stream B: protocol validation on the real type checker ---------------------
        capy = fl.capy()
        if capy:
            with C.scratch("verif-c26-core-") as d:
                core_only = os.path.join(d, "core_only.capy")
                open(core_only, "w").write('core :: #mod("core");\nmain :: () { core.println("x"); }\n')
                files = sorted(glob.glob(os.path.join(C.REPO, "examples", "*.capy"))) + [core_only]
                traces = capy_traces(capy, files)
            hung = [f for f, l in traces if l is None]
            traces = [(f, l) for f, l in traces if l is not None]
            st = check_traces(fl, drv, "B1 TopoSort call traces of the real capy on examples + core", traces)
            if st["traces"] < 10:
                fl.broken.append({"what": "stream B1: fewer than 10 traces recorded (hook missing?)", "traces": st["traces"]})
        try:
            from . import c20 as G
            progs = G.trace_programs(fl.rng.fork("B2"), 150 if quick else 3000)
        except Exception as e:      # generator unavailable: stream B2 is skipped and recorded
            progs = []
            v.notes.append({"stream_B2_skipped": repr(e)})
        if progs:
            tr, died = front_traces(har, progs)
            st = check_traces(fl, drv, "B2 TopoSort call traces of the front end on generated multi-global programs", tr)
            st["front_end_died_or_hung"] = died
    v.coverage["rule"] = (
        "A1: every maximal protocol history over items {0,1,2} from canonical seeds with single-dependency registrations "
        "(thorough: also pairs), each round boundary observed (return values, len, peek_all, peek_all_cyclic and a full drain "
        "of a clone after EVERY call); A2: random protocol histories incl. duplicate seeds, empty and repeated dependency "
        "lists; A3: random sequences over the whole public API incl. non-protocol ones (model == implementation only, "
        "underflow panic compared through catch_unwind); non-trivial = history with >= 2 rounds. "
        "B: every finish() run of the real type checker recorded by the trace hook and checked with the extracted "
        "protocol_okb and replayed on model and abstract scheduler.")
    v.assumptions = [
        "model covers the whole public API of topo::TopoSort (IndexMap/IndexSet semantics: insertion order, replace-in-place, shift_remove) "
        "and the TopoSort call skeleton of InferenceCtx::finish; the inference step itself is abstract (an event Complete/Register)",
        "the usage protocol (actor pending, registered deps not completed) is a hypothesis of the theorems, validated on every recorded "
        "run of the real checker by stream B, not proved about hir_ty/globals.rs",
        "num_children += 1 cannot overflow usize (bounded by the number of distinct children held in memory)",
        "harness and capy are built with overflow checks (dev profile): the underflow is a panic; release wrap-around is not exercised",
        "indexmap's IndexMap/IndexSet meet their documented semantics for u32 / ConcreteLoc keys (Hash/Eq lawful)",
    ]
    return fl.finish()


def replay(path):
    r = json.load(open(path))
    print(json.dumps(r, indent=1))
    from ..flow import Flow as _F
    fl = _F("C26", "quick", 1, "proof")
    drv = fl.driver()
    har = fl.harness("h_c26")
    line = r.get("api_calls")
    if drv and har and line:
        i = C.run_lines([har, "ops"], [line])[0]
        m = C.run_lines([drv], [line], indexed=False)[0]
        print("implementation:", i)
        print("model         :", m)
        if r.get("history"):
            print("spec          :", C.run_lines([drv], [r["full_history"]], indexed=False)[0])
    return 0
