"""C22 — Lexing is total and lossless (DESIGN.md C22)."""
import glob
import itertools
import os
import re

from .. import common as C
from ..flow import Flow

ALPHABET = ["a", "e", "x", "b", "_", "0", "1", ".", "\"", "'", "\\", "/", "\n", " ", "+", "-", "<", "=",
            "&", "|", "#", "é", " ", "\U0001F600"]


def exhaustive(maxlen):
    for n in range(maxlen + 1):
        for t in itertools.product(ALPHABET, repeat=n):
            yield "".join(t)


def tokenizer_tables():
    """Literal tokens and regex rules of /repo/tokenizer.txt."""
    lits, regexes = {}, {}
    for line in open(os.path.join(C.REPO, "tokenizer.txt"), encoding="utf-8"):
        line = line.rstrip("\n")
        if line.startswith("//") or not line.strip():
            continue
        m = re.match(r"^(\w+)\s*=\s*'(.*?)'\s*(\|=>.*)?$", line)
        if m:
            lits[m.group(1)] = m.group(2)
            continue
        m = re.match(r"^(\w+)\s*=\s*/(.*)/\s*(\|=>.*)?$", line)
        if m:
            regexes[m.group(1)] = m.group(2)
    return lits, regexes


EXPECTED_REGEXES = {
    "Whitespace": r"[ \t\r\n]+",
    "NonBreakingSpace": r"\xa0",
    "Ident": r"[A-Za-z_][A-Za-z0-9_]*",
    "Float": r"(\d[\d_]*)?\.(\d[\d_]*)+([eE][-+]?(\d[\d_]*)+)?",
    "Int": r"(\d[\d_]*)+([eE](\d[\d_]*)+)?",
    "Hex": r"0x[0-9a-fA-F]+",
    "Bin": r"0b[01]+",
    "Bool": r"true|false",
    "__InternalString": r'"([^"\\\n]|\\.)*"?',
    "__InternalChar": r"'([^'\\\n]|\\.)*'?",
    "__InternalComment": r"//.*",
}


def nd_probe_texts():
    """Every endpoint of the model's Unicode-Nd table and its neighbours, alone and after '1'/'x'."""
    src = open(os.path.join(C.COQ, "Model", "UnicodeNd.v")).read()
    out = []
    for a, b in re.findall(r"\((\d+), (\d+)\)", src):
        for c in {int(a) - 1, int(a), int(a) + 1, int(b) - 1, int(b), int(b) + 1}:
            if 0 <= c <= 0x10FFFF and not (0xD800 <= c <= 0xDFFF):
                ch = chr(c)
                out += [ch, "1" + ch, "x" + ch, "." + ch, "1e" + ch, "0x" + ch]
    return out


PROBE_CPS = [0x7F, 0x80, 0x85, 0xA0, 0xBF, 0xC0, 0xFF, 0x100, 0x13F, 0x7FF, 0x800, 0xFFF, 0x1000, 0x2028, 0xD7FF,
             0xE000, 0xFFFD, 0xFFFF, 0x10000, 0x1F600, 0x3FFFF, 0x40000, 0x10FFFF, 0x663, 0x0A, 0x5C, 0x22, 0x27]
CONTEXTS = ['"\\{c}"', '"\\{c}', '"a{c}b"', '"{c}', "'{c}'", "'\\{c}'", "'\\{c}", "//{c}\n", "//{c}", "{c}", "1{c}", "x{c}",
            '"{c}\\{c}{c}"', ".{c}", "0x{c}", "1e{c}", "{c}{c}", "a {c} b", '"\\{c}\\{c}"', "'a\\{c}b'"]


def context_probes():
    """every sub-lexer / rule context x one code point of every UTF-8 byte shape (lead byte and
    continuation bytes at their minimum 0x80 and maximum 0xBF)."""
    return [ctx.replace("{c}", chr(c)) for ctx in CONTEXTS for c in PROBE_CPS]


def random_texts(rng, n, lits, maxlen):
    pieces = list(lits.values()) + ["true", "false", "tru", "iffy", "0x1F", "0b101", "0b2", "1.5e+3", "1e5", "1_000",
                                    ".5", "1.", "..", "...", "\"a\\nb\"", "'\\''", "\"\\", "// c\n", "//", "/", "٣",
                                    "१२", " ", "é", "\U0001F600", "\r\n", "\t", "\\", "@", "$", "\x00", "\x7f", "_x9"]
    out = []
    for i in range(n):
        k = rng.below(4)
        if k == 0:   # token soup
            t = "".join(rng.choice(pieces) + (" " if rng.chance(1, 3) else "") for _ in range(rng.range(1, 12)))
        elif k == 1:  # random unicode scalars
            cs = []
            for _ in range(rng.range(1, min(maxlen, 40))):
                r = rng.below(10)
                if r < 6:
                    cs.append(chr(rng.range(0, 127)))
                elif r < 8:
                    cs.append(chr(rng.range(128, 0x7FF)))
                else:
                    c = rng.range(0x800, 0x10FFFF)
                    if 0xD800 <= c <= 0xDFFF:
                        c = 0xE000
                    cs.append(chr(c))
            t = "".join(cs)
        else:        # keyword / literal with neighbours
            w = rng.choice(pieces)
            t = rng.choice(["", "a", "1", "_", ".", " "]) + w + rng.choice(["", "a", "1", "_", ".", "=", "\n"])
        out.append(t)
    return out


def corpus_mutations(rng, n, maxbytes):
    files = sorted(glob.glob(os.path.join(C.REPO, "examples", "*.capy"))) + \
        sorted(glob.glob(os.path.join(C.REPO, "core", "src", "**", "*.capy"), recursive=True))
    base = []
    for f in files:
        try:
            base.append(open(f, encoding="utf-8").read())
        except Exception:
            pass
    out = list(base)
    junk = ["\"", "'", "\\", "//", "\n", "é", "٣", " ", "0x", "1e", ".", "@", "\U0001F600"]
    for i in range(n):
        t = list(rng.choice(base))[:maxbytes // 4]
        for _ in range(rng.range(1, 8)):
            pos = rng.below(len(t) + 1)
            if rng.chance(1, 2) and t:
                del t[min(pos, len(t) - 1)]
            else:
                t[pos:pos] = list(rng.choice(junk))
        out.append("".join(t))
    return out


def run(tier, seed):
    fl = Flow("C22", tier, seed, "proof")
    v = fl.v
    fl.proof_stage()
    drv = fl.driver()
    har = fl.harness("h_c22")
    lits, regexes = tokenizer_tables()
    # the token table of the model must be the table of tokenizer.txt
    if drv:
        rc, out = C.run([drv, "tables"])
        mt = {"kw": set(), "bool": set(), "punct": set()}
        for l in out.split("\n"):
            if " " in l:
                k, t = l.split(" ", 1)
                mt[k].add(t)
        kw = {t for n, t in lits.items() if t.isalpha()}
        pu = {t for n, t in lits.items() if not t.isalpha()}
        if kw != mt["kw"] or pu != mt["punct"] or regexes != EXPECTED_REGEXES:
            fl.broken.append({"what": "tokenizer.txt no longer matches the token tables / regex rules the model transcribes",
                              "keywords_only_in_file": sorted(kw - mt["kw"]), "keywords_only_in_model": sorted(mt["kw"] - kw),
                              "puncts_only_in_file": sorted(pu - mt["punct"]), "puncts_only_in_model": sorted(mt["punct"] - pu),
                              "regex_changes": {k: [regexes.get(k), EXPECTED_REGEXES.get(k)]
                                                for k in set(regexes) | set(EXPECTED_REGEXES)
                                                if regexes.get(k) != EXPECTED_REGEXES.get(k)}})
    if drv and har:
        rng = fl.rng
        streams = []
        maxlen = 3 if tier == "quick" else 4
        ex = list(exhaustive(maxlen))
        streams.append(("exhaustive len<=%d over the 24-symbol alphabet" % maxlen, ex, True))
        if tier == "quick":
            r4 = rng.fork("len45")
            samp = ["".join(r4.choice(ALPHABET) for _ in range(r4.range(4, 5))) for _ in range(20000)]
            streams.append(("sampled len 4-5 over the alphabet", samp, False))
        streams.append(("unicode Nd table endpoints", nd_probe_texts(), False))
        streams.append(("rule contexts x UTF-8 byte-shape probe code points", context_probes(), False))
        n_rand = 20000 if tier == "quick" else 300000
        streams.append(("random token soups / unicode / keyword neighbours", random_texts(rng.fork("rand"), n_rand, lits, 64), False))
        n_mut = 300 if tier == "quick" else 5000
        streams.append(("corpus (examples, core) and mutations", corpus_mutations(rng.fork("mut"), n_mut, 65536), False))
        seen = set()
        kinds_hist = {}
        for name, texts, exh in streams:
            texts = [t for t in texts if len(t.encode()) <= 65536]
            lines = [t.encode().hex() for t in texts]
            impl = C.run_lines([har], lines, case_timeout=5)
            model = C.run_lines([drv, "lex"], lines, indexed=False)
            # direct oracle: extracted lex_ok on the implementation's tokens
            q = []
            for hx, i in zip(lines, impl):
                if i.startswith("PANIC") or i.startswith("!") or "END@" not in i:
                    q.append("|PANIC|0")
                else:
                    body, end = i.rsplit("END@", 1)
                    q.append("%s|%s|%s" % (hx, body.strip(), end))
            verdicts = C.run_lines([drv, "check"], q, indexed=False)
            diffs = 0
            first = None
            for t, hx, i, m, ok in zip(texts, lines, impl, model, verdicts):
                seen.add(hx)
                for tok in i.split():
                    k = tok.split("@")[0]
                    kinds_hist[k] = kinds_hist.get(k, 0) + 1
                if i.startswith("PANIC") or i.startswith("!"):
                    v.failing("lexer-crash", {"key": "crash:" + hx, "stream": name, "text": t, "text_hex": hx, "implementation": i})
                elif ok != "ok":
                    v.failing("tokens-not-ok", {"key": "bad:" + hx, "stream": name, "text": t, "text_hex": hx,
                                                "implementation": i, "model": m,
                                                "checker": "extracted LexSpec.lex_ok returned %s" % ok})
                if i != m:
                    diffs += 1
                    if first is None:
                        first = {"text": t, "text_hex": hx, "implementation": i, "model": m}
            fl.stream(name, len(lines), diffs, first)
            v.coverage["evaluations"] += len(lines)
            if exh:
                v.coverage["exhaustive"] = True
            v.add_samples([{"stream": name, "text": texts[len(texts) // 2], "implementation": impl[len(texts) // 2]}], limit=8)
        v.coverage["distinct_nontrivial"] = len(seen)
        v.coverage["token_kind_histogram"] = dict(sorted(kinds_hist.items()))
        v.coverage["rule"] = ("distinct input texts (by bytes); streams: exhaustive strings over the 24-symbol alphabet "
                              "[a e x b _ 0 1 . \" ' \\ / LF space + - < = & | # e-acute NBSP U+1F600] (len<=3 quick + 20k sampled "
                              "len 4-5, len<=4 thorough), every endpoint of the Unicode Nd table, random token soups and unicode "
                              "strings, examples/core files and their mutations (<= 64 KiB); real lexer::lex read through "
                              "Tokens::kind/range (debug build, catch_unwind) vs extracted model; extracted lex_ok run on the "
                              "implementation's tokens")
    v.assumptions = [
        "the Logos-generated automaton is generated code: the model is the reading of tokenizer.txt under maximal munch with "
        "literal priority and one Error token per unmatched code point; tied by the exhaustive stream, not verified",
        "Unicode Nd table taken from regex-syntax 0.8.11 (the table Logos compiled \\d with); every range endpoint is probed each run",
        "UTF-8 decoding in the OCaml driver is trusted glue; inputs are valid UTF-8 (lex takes &str)",
        "Tokens::iter()/Debug of the token crate panic by construction (zip_eq of n and n+1 items); outside the property's statement, not used",
    ]
    return fl.finish()


def replay(path):
    import json
    r = json.load(open(path))
    print(json.dumps(r, indent=1, ensure_ascii=False))
    return 0
