"""C16 — Generic calls behave like calls to hand-substituted copies (DESIGN.md C16).  Level: partial.

Proved (Properties/C16.v): the substitution lemma on the reference semantics (CapyCore `eval` under a
comptime environment = `eval` of the substituted code), whole-call version, equal comptime arguments
=> same behaviour, instantiation-table non-interference.
Tested here, end to end against the real compiler: generated generic functions (1-3 comptime
parameters: integer types and integers, nested / recursive generic calls passing their own
parameters through) are instantiated 1-4 times from main (equal and different argument sets,
interleaved) = program A; program B calls hand-substituted copies generated from the same AST
(gen_capy.subst_fun, checked on every case to equal the extracted Coq `subst_fun`).
  direct oracle : real(A) must equal real(B)  (stdout + exit status; accepted iff accepted)
  correspondence: real(A) = eval_prog(A) (comptime-environment semantics), real(B) = eval_prog(B)."""
import json

from .. import common as C
from .. import gen_capy as G
from ..flow import Flow

FUEL = 4000


def ser_checks(info):
    seen = []
    for gi, ci, ta, ca in info:
        if (gi, ci) in [(a, b) for a, b, _, _ in seen]:
            continue
        seen.append((gi, ci, ta, ca))
    out = ["check", str(len(seen))]
    for gi, ci, ta, ca in seen:
        out += [str(gi), str(ci), str(len(ta))]
        for t in ta:
            G.ser_ty(t, out)
        out.append(str(len(ca)))
        for c in ca:
            out.append("clit")
            G.ser_ty(c[1], out)
            out.append(G.hexz(c[2]))
    return " ".join(out)


def parse(line):
    parts = line.split(" ", 2)
    if len(parts) < 3 or not parts[1].startswith("SUBST="):
        return {"wt": None, "kind": "ERROR", "raw": line, "events": []}, "?"
    return G.parse_outcome(parts[0] + " " + parts[2]), parts[1][6:]


def obs(o):
    return (o["kind"], tuple(o["events"]), o.get("status"), o.get("fault_kind"))


def run(tier, seed):
    fl = Flow("C16", tier, seed, "proof")
    v = fl.v
    fl.proof_stage()
    drv = fl.driver()
    capy = fl.capy()
    if drv and capy:
        n = 48 if tier == "quick" else 300
        rng = fl.rng.fork("generics")
        cases = []
        hist = {}
        for i in range(n):
            # even cases: chains of generics forwarding their comptime parameters in permuted / duplicated order,
            # every parameter used at compile time at every level; odd cases: free-form generic functions
            A, B, info, h = (G.forwarding_programs if i % 2 == 0 else G.generic_programs)(rng.fork(str(i)))
            # comptime value arguments that are `cref`s cannot occur in main (no own parameters)
            cases.append((A, B, info))
            for k, c in h.items():
                hist[k] = hist.get(k, 0) + c
        la = [G.serialise(A, FUEL) for A, _, _ in cases]
        lb = [G.serialise(B, FUEL) + " " + ser_checks(info) for _, B, info in cases]
        ma = [parse(l) for l in C.run_lines([drv], la, indexed=False)]
        mb = [parse(l) for l in C.run_lines([drv], lb, indexed=False)]
        jobs = []
        layout = {}
        argkinds = {}
        for k, (A, B, info) in enumerate(cases):
            for _, _, ta, _ in info:
                for t in ta:
                    kind = {"i": "integer type", "dist": "distinct integer type", "struct": "struct type", "enum": "enum type"}.get(t[0], t[0])
                    argkinds[kind] = argkinds.get(kind, 0) + 1
            if k % 3 == 0:
                # the generic functions (and everything else) live in lib.capy, main (and the copies) in p.capy
                layout["generic defined in another file"] = layout.get("generic defined in another file", 0) + 1
                jobs.append(G.pretty_files(A, {A["main"]}))
                jobs.append(G.pretty_files(B, {B["main"]} | set(range(len(A["funs"]), len(B["funs"])))))
            else:
                layout["one file"] = layout.get("one file", 0) + 1
                jobs.append(G.pretty(A))
                jobs.append(G.pretty(B))
        impl = C.parallel_map(lambda src: G.build_and_run(capy, src), jobs)
        d_model = d_subst = d_a = d_b = 0
        f_model = f_subst = f_a = f_b = None
        compared = 0
        nontriv = set()
        both_rejected = 0
        inst_hist = {}
        skipped = 0
        for k, ((A, B, info), (oa, _), (ob, sflag)) in enumerate(zip(cases, ma, mb)):
            ia, ib = impl[2 * k], impl[2 * k + 1]
            if sflag != "1":
                d_subst += 1
                f_subst = f_subst or {"program_B": lb[k][:3000], "flag": sflag}
            if oa["kind"] in ("ERROR", "STUCK") or ob["kind"] in ("ERROR", "STUCK") or obs(oa) != obs(ob):
                d_model += 1
                f_model = f_model or {"program_A": la[k][:3000], "model_A": oa.get("raw", oa["kind"]), "model_B": ob.get("raw", ob["kind"])}
                continue
            if oa["kind"] not in ("DONE", "FAULT"):
                skipped += 1
                continue
            compared += 1
            ninst = len({(ta, ca) for _, _, ta, ca in info})
            inst_hist["%d instantiations / %d calls" % (ninst, len(info))] = inst_hist.get("%d instantiations / %d calls" % (ninst, len(info)), 0) + 1
            if len(oa["events"]) >= 2:
                nontriv.add(C.sha(la[k]))
            real_a = (ia["rc"], G.strip_fault_location(ia["stdout"]))
            real_b = (ib["rc"], G.strip_fault_location(ib["stdout"]))
            payload = {"key": "c16:" + C.sha(la[k]), "stream": "generic vs substituted copy",
                       "source_generic": jobs[2 * k], "source_substituted": jobs[2 * k + 1],
                       "instantiations": [[G.Printer(A).ty(t) for t in ta] + [str(c[2]) for c in ca] for _, _, ta, ca in info],
                       "generic": {"exit": ia["rc"], "stdout": ia["stdout"][-1500:], "build": ia["build_out"][:800]},
                       "substituted": {"exit": ib["rc"], "stdout": ib["stdout"][-1500:], "build": ib["build_out"][:800]},
                       "semantics": {"kind": oa["kind"], "stdout": G.render_events(oa["events"])[-1500:], "status": oa.get("status")}}
            if ia["rc"] is None and ib["rc"] is None:
                both_rejected += 1            # not a difference between generic and copy (C01's business)
            elif ia["rc"] is None or ib["rc"] is None:
                which = "generic" if ia["rc"] is None else "substituted"
                kind = "compiler-panic" if "PANIC" in (ia if ia["rc"] is None else ib)["build_out"] else "rejected"
                v.failing("only-%s-program-%s" % (which, kind), payload)
            elif real_a != real_b:
                v.failing("generic-call-differs-from-substituted-copy", payload)
            # correspondence with the reference semantics
            ca_ = G.compare(A, oa, ia)
            cb_ = G.compare(B, ob, ib)
            if ca_ and ia["rc"] is not None:
                d_a += 1
                f_a = f_a or dict(payload, mismatch=list(ca_))
            if cb_ and ib["rc"] is not None:
                d_b += 1
                f_b = f_b or dict(payload, mismatch=list(cb_))
        # known finding C16-1: a recursive generic function never finishes compiling
        I = G.T
        wf = {"tparams": 1, "cparams": [I("u8")], "params": [(1, I("u8")), (2, ("tvar", 0))], "ret": ("tvar", 0), "body":
              ("block", None, ("tvar", 0),
               (("if", ("cmp", "gt", ("var", 1), ("int", I("u8"), 0)),
                 ("block", None, G.VOID, (("return", ("call", 0, (("tvar", 0),), (("cref", 0),),
                                                     (("bin", "sub", ("var", 1), ("int", I("u8"), 1)),
                                                      ("bin", "add", ("var", 2), ("int", ("tvar", 0), 1))))),), ("unit",)), ("unit",)),),
               ("bin", "add", ("var", 2), ("cast", ("tvar", 0), ("cp", 0))))}
        wm = {"tparams": 0, "cparams": [], "params": [], "ret": G.VOID, "body":
              ("block", None, G.VOID, (("print", ("call", 0, (I("u32"),), (("clit", I("u8"), 7),),
                                                  (("int", I("u8"), 3), ("int", I("u32"), 10)))),), ("unit",))}
        W = {"funs": [wf, wm], "main": 1}
        wo, _ = parse(C.run_lines([drv], [G.serialise(W, FUEL)], indexed=False)[0])
        wi = G.build_and_run(capy, G.pretty(W), build_timeout=40 if tier == "quick" else 120)
        wc = G.compare(W, wo, wi)
        if wc:
            cls = "recursive-generic-hangs-compiler" if wc[0] == "compiler-hang" else "recursive-generic:" + wc[0]
            v.failing(cls, {"key": "c16:witness-recursive-generic", "source_generic": G.pretty(W)[len(G.PRELUDE):],
                            "semantics": {"kind": wo["kind"], "stdout": G.render_events(wo["events"])},
                            "generic": {"exit": wi["rc"], "stdout": wi["stdout"], "build": wi["build_out"][:600]}})
        else:
            v.notes.append({"known_finding_not_reproduced": "C16-1", "class": "recursive-generic-hangs-compiler"})
        # known finding C16-2: `comptime k: T` of a later instantiation is checked against an earlier T
        T0 = ("tvar", 0)
        df = {"tparams": 1, "cparams": [T0], "params": [(1, T0)], "ret": T0,
              "body": ("block", None, T0, (), ("bin", "add", ("var", 1), ("cp", 0)))}
        dm = {"tparams": 0, "cparams": [], "params": [], "ret": G.VOID, "body":
              ("block", None, G.VOID,
               (("print", ("call", 0, (I("u32"),), (("clit", I("u32"), 5),), (("int", I("u32"), 1),))),
                ("print", ("call", 0, (I("i64"),), (("clit", I("i64"), (1 << 63) - 1),), (("int", I("i64"), 0),)))), ("unit",))}
        D = {"funs": [df, dm], "main": 1}
        do, _ = parse(C.run_lines([drv], [G.serialise(D, FUEL)], indexed=False)[0])
        di = G.build_and_run(capy, G.pretty(D))
        dc = G.compare(D, do, di)
        if dc:
            cls = ("comptime-param-type-from-earlier-instantiation" if dc[0] == "rejected" and "is too big for" in di["build_out"]
                   else "dependent-comptime-param:" + dc[0])
            v.failing(cls, {"key": "c16:witness-dependent-cparam", "source_generic": G.pretty(D)[len(G.PRELUDE):],
                            "semantics": {"kind": do["kind"], "stdout": G.render_events(do["events"])},
                            "generic": {"exit": di["rc"], "stdout": di["stdout"], "build": di["build_out"][:600]}})
        else:
            v.notes.append({"known_finding_not_reproduced": "C16-2", "class": "comptime-param-type-from-earlier-instantiation"})
        fl.stream("model: eval_prog(generic program) = eval_prog(program with substituted copies)", len(cases), d_model, f_model)
        fl.stream("python subst_fun = extracted Coq subst_fun (Model/Generics.v) on every instantiation", len(cases), d_subst, f_subst)
        fl.stream("end-to-end: capy(generic program) vs eval_prog under the comptime environment", compared, d_a, f_a)
        fl.stream("end-to-end: capy(substituted program) vs eval_prog", compared, d_b, f_b)
        v.coverage["evaluations"] += compared
        v.coverage["distinct_nontrivial"] += len(nontriv)
        v.coverage["skipped_trap_or_fuel"] = skipped
        v.coverage["both_programs_rejected"] = both_rejected
        v.coverage["histograms"] = {"generator_constructs": hist, "instantiations": inst_hist,
                                    "comptime_type_arguments": argkinds, "file_layout": layout}
        v.coverage["rule"] = ("%d generated program pairs: 0-2 plain helper functions, 1-2 generic functions with 1-3 comptime parameters "
                              "(integer types, integers of fixed or parameter type), nested and recursive generic calls passing parameters "
                              "through, main instantiating the last generic 1-3 ways in 1-4 interleaved calls; B = same AST with calls "
                              "redirected to substituted copies.  compared: real generic vs real copy (oracle), both vs eval_prog "
                              "(correspondence).  every other pair is a chain of 2-3 generics, each level forwarding its own comptime parameters to "
                              "the next in permuted / duplicated order mixed with literals, and every level using each parameter at "
                              "compile time (wrap-around fingerprint of locals of the parameter type, length of a local `[n]u8`) and "
                              "printing its run-time copy.  non-trivial = >= 2 print events; distinct by serialised AST.  type arguments: integer types, "
                              "distinct integer types, and (for a type parameter used opaquely: parameters, locals, arrays, result) struct and "
                              "enum types; every third pair defines the generic functions in another file (lib.capy, #import).  NOT generated: "
                              "inline header references, varargs"
                              % n)
        v.add_samples([{"generic": G.pretty(cases[i][0])[len(G.PRELUDE):][:1800],
                        "instantiations": [[G.Printer(cases[i][0]).ty(t) for t in ta] + [str(c[2]) for c in ca] for _, _, ta, ca in cases[i][2]]}
                       for i in range(min(2, len(cases)))])
    v.assumptions = ["proved: substitution lemma, whole-call equivalence (up to the function index attached to a fault), equal-arguments lemma and "
                     "instantiation-table model, all on the reference semantics of coq/Common/CapyCore.v",
                     "only tested: that the compiler's instantiation machinery (evaluate_comptime_args, init_new_concrete, ConcreteLoc keyed by "
                     "the comptime-argument arena range, GenericID mangling) implements that semantics; the instantiation-table model "
                     "(find_or_add) is not tied to the Rust data structures by a harness",
                     "comptime value parameters are integers; comptime parameter names are not shadowed by locals (generator invariant)",
                     "integer-like type parameters range over the integer types up to 64 bits and distinct types over them (128-bit "
                     "instantiations hit C01-1/C01-2); a distinct integer type has the semantics of its base type in the model (the program "
                     "text uses the distinct type and casts)"]
    return fl.finish()


def replay(path):
    r = json.load(open(path))
    print(json.dumps(r, indent=1)[:8000])
    return 0
