"""C15 — Only const values are used as types, sizes, discriminants and comptime args.

Model  : coq/Model/Constness.v  (get_const worklist, const_data, consumers of hir_ty/src/globals.rs)
Spec   : coq/Spec/ConstSpec.v   (IsConst = README const rule, denotes)
Streams: 1. front end (exhaustive): expression kind x const position {array length, enum discriminant,
            comptime argument, global body} x declaration order, each as a small program through
            hcommon::frontend with comptime evaluation (harness h_c14 comptime): accepted / *NotConst /
            panic, compared with the extracted model (correspondence) and the spec rule (oracle);
         2. end to end: accepted array lengths are reflected at run time (`a.len`) and compared with
            the value the model/spec say the expression denotes;
         3. type-annotation position: accepted iff const by the rule (oracle only; const_ty is not modelled)."""
import json
import os

from .. import common as C
from ..flow import Flow

N = 3
POS_TY = {"A": "usize", "D": "u8", "C": "i32", "G": "i32"}


class Kind:
    def __init__(self, name, expr, tok, const, glob_before="", glob_after="", local="", param=None, files="",
                 global_ok=False, extra_notconst=0):
        self.name, self.expr, self.tok, self.const = name, expr, tok, const
        self.glob, self.local, self.param, self.files = glob_before, local, param, files
        self.global_ok = global_ok          # usable at global scope (no locals / params)
        self.extra_notconst = extra_notconst  # GlobalNotConst diagnostics of helper globals


def base_kinds(ty):
    """(kind, spec says const?)  — spec column = Spec/ConstSpec.v IsConst read off by hand for the README rule;
    the extracted model supplies the machine-checked verdict."""
    ks = [
        Kind("literal", "3", "I 3", True, global_ok=True),
        Kind("immutable-local", "n", "V 0 1 I 3", True, local="n : %s : 3;" % ty),
        Kind("mutable-local", "n", "V 1 1 I 3", False, local="n : %s = 3;" % ty),
        Kind("global", "GN", "G 0 1 I 3", True, glob_before="GN : %s : 3;\n" % ty, global_ok=True),
        Kind("imported-global", "other.K", "G 0 1 I 3", True, glob_before='other :: #import("other.capy");\n',
             files="//// FILE other.capy\nK : %s : 3;\n" % ty, global_ok=True),
        Kind("extern-global", "EX", "G 1 1 I 0", False, glob_before="EX : %s : extern;\n" % ty, global_ok=True),
        Kind("comptime-block", "comptime { x : %s = 3; x }" % ty, "K 1 i3", True, global_ok=True),
        Kind("comptime-param", "n", "P i3", True, param=ty),
        Kind("arithmetic", "1 + 2", "E 0", False, global_ok=True),
        Kind("paren", "(3)", "E 0", False, global_ok=True),
        Kind("call", "three()", "E 0", False, glob_before="three :: () -> %s { 3 }\n" % ty, global_ok=True),
        Kind("member", "s.v", "O", False, glob_before="S :: struct { v: %s };\n" % ty, local="s :: S.{ v = 3 };"),
    ]
    return ks


def kinds(ty):
    out = []
    for k in base_kinds(ty):
        out.append(k)
    # second level: through an immutable local / through a global
    for k in base_kinds(ty):
        if k.name in ("immutable-local",):
            continue
        out.append(Kind("local-of-" + k.name, "m", "V 0 1 " + k.tok, k.const, glob_before=k.glob,
                        local=k.local + " m : %s : %s;" % (ty, k.expr), param=k.param, files=k.files))
        out.append(Kind("mutable-local-of-" + k.name, "m", "V 1 1 " + k.tok, False, glob_before=k.glob,
                        local=k.local + " m : %s = %s;" % (ty, k.expr), param=k.param, files=k.files))
        if k.global_ok:
            out.append(Kind("global-of-" + k.name, "GM", "G 0 1 " + k.tok, k.const,
                            glob_before=k.glob + "GM : %s : %s;\n" % (ty, k.expr), files=k.files, global_ok=True,
                            extra_notconst=0 if k.const else 1))
    return out


LITERAL_ARGS = [  # (kind, param type, expr, tokens, const by the rule)
    ("bool-literal", "bool", "true", "B", True),
    ("string-literal", "str", '"hi"', "S", True),
    ("char-literal", "char", "'x'", "H", True),
    ("float-literal", "f32", "1.5", "F", True),
    ("array-literal", "[2]i32", ".[1, 2]", "Y 1 2 I 1 I 2", True),
    ("array-literal-of-locals", "[2]i32", ".[n, n]", "Y 1 2 V 1 1 I 3 V 1 1 I 3", False),
    ("type-literal", "type", "i32", "T", True),
    ("immutable-local-of-bool", "bool", "b", "V 0 1 B", True),
]


class Case:
    pass


def build(pos, k, order, ty=None, argty=None):
    """program for kind k in position pos; order = 'before' | 'after' (helper globals relative to the use)"""
    ty = ty or POS_TY[pos]
    c = Case()
    c.pos, c.kind, c.order, c.tok, c.const = pos, k.name, order, k.tok, k.const
    c.extra_notconst = k.extra_notconst
    params = "comptime n: %s" % k.param if k.param else ""
    call = "run(3);" if k.param else "run();"
    if pos == "A":
        body = "%s a : [%s]i32;" % (k.local, k.expr)
        c.e2e_body = "%s a : [%s]i32; core.println(\"#@ \", a.len);" % (k.local, k.expr)
    elif pos == "D":
        body = "%s E :: enum { X | %s, Y };" % (k.local, k.expr)
    elif pos == "C":
        body = "%s take(%s);" % (k.local, k.expr)
    use = ""
    helpers = k.glob
    if pos == "C":
        helpers += "take :: (comptime v: %s) {}\n" % (argty or ty)
    if pos == "G":
        use = "g : %s : %s;\n" % (ty, k.expr)
        c.src_parts = (helpers, use, "main :: () {}\n", k.files)
    else:
        use = "run :: (%s) { %s }\n" % (params, body)
        c.src_parts = (helpers, use, "main :: () { %s }\n" % call, k.files)
    h, u, m, f = c.src_parts
    c.source = (h + u + m if order == "before" else u + m + h) + f
    c.params, c.call, c.helpers = params, call, helpers
    return c


def enumerate_cases():
    cases = []
    for pos in ("A", "D", "C", "G"):
        ty = POS_TY[pos]
        for k in kinds(ty):
            if pos == "G" and not k.global_ok:
                continue
            for order in ("before", "after"):
                if order == "after" and not k.glob:
                    continue
                cases.append(build(pos, k, order))
    for (name, pty, expr, tok, const) in LITERAL_ARGS:
        local = "n : i32 = 3;" if "locals" in name else ("b :: true;" if name.endswith("of-bool") else "")
        k = Kind(name, expr, tok, const, local=local)
        cases.append(build("C", k, "before", ty=pty, argty=pty))
    return cases


NOTCONST = {"A": "ArraySizeNotConst", "D": "DiscriminantNotConst", "C": "ComptimeArgNotConst", "G": "GlobalNotConst"}


def impl_outcome(c, out):
    """ACC | NOTCONST | CRASH:<msg> | INVALID:<diags>"""
    toks = out.split()
    if out.startswith("!"):
        return "CRASH:" + out
    for t in toks:
        if t.startswith("PANIC:"):
            return "CRASH:" + t[6:]
    errs = [t.split(":", 1)[1].split("@")[0] for t in toks if ":" in t]
    errs = [e for e in errs if not e.startswith("w-")]
    want = NOTCONST[c.pos]
    n_want = errs.count(want)
    others = [e for e in errs if e != want and e != "GlobalNotConst"]
    if others:
        return "INVALID:" + ",".join(errs)
    n_glob = errs.count("GlobalNotConst") - (n_want if want == "GlobalNotConst" else 0)
    if c.pos == "G":
        # helper globals with runtime bodies are reported too
        return "NOTCONST" if errs.count("GlobalNotConst") > c.extra_notconst else \
            ("ACC" if errs.count("GlobalNotConst") == c.extra_notconst else "INVALID:" + ",".join(errs))
    if n_glob != c.extra_notconst:
        return "INVALID:" + ",".join(errs)
    return "NOTCONST" if n_want else "ACC"


def crash_class(c, msg):
    if "shouldn't_get_to_codegen" in msg and "comptime-block" in c.kind and c.pos == "C":
        return "comptime-block-as-comptime-arg-codegen-panic"
    if c.pos == "C" and "was_not_given_a_type" in msg and c.kind.startswith("array-literal"):
        return "comptime-param-of-array-type-panic"
    if "was_not_given_a_type" in msg and c.kind == "global-of-imported-global":
        return "const-data-of-file-member-in-foreign-body-panic"
    if c.pos == "C" and "didn't_work" in msg:
        for k in ("bool", "string", "lambda"):
            if k in c.kind:
                return "comptime-arg-const-without-data:" + k
    return "consumer-panic:%s:%s" % (c.pos, c.kind)


OUTSIDE_MODEL = ("comptime-block-as-comptime-arg-codegen-panic", "comptime-param-of-array-type-panic",
                 "const-data-of-file-member-in-foreign-body-panic")


def split_files(src):
    """'main text //// FILE a.capy\n text ...' -> [(name, text)] with main first (named p.capy)"""
    files = []
    name, cur = "p.capy", []
    for l in src.split("\n"):
        if l.startswith("//// FILE "):
            files.append((name, "\n".join(cur) + "\n"))
            name, cur = l[len("//// FILE "):].strip(), []
        else:
            cur.append(l)
    files.append((name, "\n".join(cur) + "\n"))
    return files


def run_e2e(capy, src):
    with C.scratch("verif-c15-") as d:
        for name, text in split_files(src):
            open(os.path.join(d, name), "w").write(text)
        rc, out = C.run([capy, "build", "p.capy", "--mod-dir", C.REPO], cwd=d, timeout=180)
        exe = os.path.join(d, "out", "p")
        if rc != 0 or not os.path.exists(exe):
            tail = [l for l in out.split("\n") if l.strip() and not l.startswith("split_aggregate")]
            keep = [l for l in tail if "panicked" in l or l.startswith("error")][:3] + tail[-4:]
            return ("BUILD-FAILED", "\n".join(keep)[-900:])
        rc2, out2 = C.run([exe], cwd=d, timeout=30)
        return ("RAN:%d" % rc2, out2)


# ---- imported-global chains: the VALUE must come from the right file -------------------------
TRUE_VALUE = 5
CH_NAMES = {1: "X", 2: "Y", 3: "Z"}
CH_SHADOW = {1: 2, 2: 3, 3: 4}          # values of same-named globals in the importing file


def chain_cases():
    """other.X with X :: literal / X :: Y / X :: Y :: Z (also through a second import), with and without
    same-named globals of different values in the importing file, declaration order varied, in the
    three value-carrying const positions.  files: 0 = main (p.capy), 1 = other.capy, 2 = third.capy."""
    cases = []
    for pos in ("A", "D", "C"):
        ty = POS_TY[pos]
        for length in (1, 2, 3):
            for second in ((False,) if length == 1 else (False, True)):
                for shadow in (False, True):
                    for order in (0, 1):
                        c = Case()
                        c.pos, c.kind, c.order = pos, "imported-chain-%d%s%s" % (
                            length, "-via-second-import" if second else "", "-shadowed" if shadow else ""), order
                        other, third = [], []
                        w_other, w_third = [], []
                        if length == 1:
                            other.append("X : %s : %d;" % (ty, TRUE_VALUE))
                            w_other.append("1 0 1 I %d" % TRUE_VALUE)
                        else:
                            tail_file, tail_w = (third, w_third) if second else (other, w_other)
                            if second:
                                other.append('third :: #import("third.capy");')
                                other.append("X : %s : third.Y;" % ty)
                                w_other.append("1 0 1 Q 2 2")
                            else:
                                other.append("X : %s : Y;" % ty)
                                w_other.append("1 0 1 R 2")
                            if length == 2:
                                tail_file.append("Y : %s : %d;" % (ty, TRUE_VALUE))
                                tail_w.append("2 0 1 I %d" % TRUE_VALUE)
                            else:
                                tail_file.append("Y : %s : Z;" % ty)
                                tail_file.append("Z : %s : %d;" % (ty, TRUE_VALUE))
                                tail_w += ["2 0 1 R 3", "3 0 1 I %d" % TRUE_VALUE]
                        if order:
                            imp = [l for l in other if "#import" in l]
                            other = imp + [l for l in reversed(other) if "#import" not in l]
                            third = list(reversed(third))
                        shadows = ["%s : %s : %d;" % (CH_NAMES[k], ty, CH_SHADOW[k]) for k in (1, 2, 3)] if shadow else []
                        w_main = ["%d 0 1 I %d" % (k, CH_SHADOW[k]) for k in (1, 2, 3)] if shadow else []
                        if pos == "A":
                            use = 'main :: () { a : [other.X]i32; core.println("#@ ", a.len); }'
                        elif pos == "C":
                            use = 'take :: (comptime v: %s) { core.println("#@ ", v); }\nmain :: () { take(other.X); }' % ty
                        else:
                            use = ('E :: enum { A | other.X, B };\nmain :: () { switch i in core.meta.get_type_info(E.A) { '
                                   '.Variant => core.println("#@ ", i.discriminant), _ => core.println("not a variant"), } }')
                        head = 'core :: #mod("core");\nother :: #import("other.capy");\n'
                        body = ("\n".join(shadows) + "\n" + use) if order == 0 else (use + "\n" + "\n".join(shadows))
                        src = head + body + "\n//// FILE other.capy\n" + "\n".join(other) + "\n"
                        if third:
                            src += "//// FILE third.capy\n" + "\n".join(third) + "\n"
                        c.source = src
                        files = [(0, w_main), (1, w_other)] + ([(2, w_third)] if w_third else [])
                        c.tok = "W %s %d %s 0 Q 1 1" % (pos, len(files), " ".join(
                            "%d %d %s" % (f, len(g), " ".join(g)) if g else "%d 0" % f for f, g in files))
                        cases.append(c)
    return cases


TYPE_POS = [  # (kind, helpers, params, call, locals, type expr, const by the rule)
    ("type-literal", "", "", "run();", "", "i32", True),
    ("immutable-local", "", "", "run();", "T :: i32;", "T", True),
    ("mutable-local", "", "", "run();", "T := i32;", "T", False),
    ("global", "GT :: i32;\n", "", "run();", "", "GT", True),
    ("comptime-block", "", "", "run();", "", "comptime { i32 }", True),
    ("comptime-param", "", "comptime T: type", "run(i32);", "", "T", True),
    ("call", "ty :: () -> type { i32 }\n", "", "run();", "", "ty()", False),
    ("local-of-call", "ty :: () -> type { i32 }\n", "", "run();", "T :: ty();", "T", False),
    ("local-of-global", "GT :: i32;\n", "", "run();", "T :: GT;", "T", True),
]


def run(tier, seed):
    fl = Flow("C15", tier, seed, "proof")
    v = fl.v
    fl.proof_stage()
    drv = fl.driver()
    har = fl.harness("h_c14")
    if drv and har:
        cases = enumerate_cases()
        impl = C.run_lines([har, "comptime"], [c.source.encode().hex() for c in cases], case_timeout=30)
        model = C.run_lines([drv], ["%s %s" % (c.pos, c.tok) for c in cases], indexed=False)
        diffs, first = 0, None
        hist = {}
        accepted_A = []
        outside = 0
        if len(impl) != len(cases) or len(model) != len(cases):
            fl.broken.append({"what": "front-end stream: tool output length mismatch"})
        else:
            for c, i, m in zip(cases, impl, model):
                mt = m.split()
                if len(mt) != 5:
                    fl.broken.append({"what": "model driver failed", "case": c.tok, "out": m})
                    continue
                m_out, m_gc, wf, has_char, has_data = mt
                io = impl_outcome(c, i)
                pay = {"key": "fe:" + C.sha(c.source), "stream": "front end", "source": c.source, "position": c.pos,
                       "kind": c.kind, "order": c.order, "model_expr": c.tok, "implementation": io, "harness": i,
                       "model": m, "const_by_rule": c.const}
                if io.startswith("INVALID"):
                    fl.broken.append({"what": "front-end stream: generated program is not otherwise well-typed", **pay})
                    continue
                hist["%s:%s" % (c.pos, io.split(":")[0])] = hist.get("%s:%s" % (c.pos, io.split(":")[0]), 0) + 1
                # direct oracle: the property on the implementation's verdict
                if io.startswith("CRASH"):
                    v.failing(crash_class(c, io), pay)
                elif io == "ACC" and not c.const:
                    v.failing("non-const-accepted:%s:%s" % (c.pos, c.kind), pay)
                elif io == "NOTCONST" and c.const:
                    v.failing("const-rejected:%s" % ("char-literal" if "char" in c.kind else c.pos + ":" + c.kind), pay)
                # correspondence
                mo = "ACC" if m_out.startswith("ACC") else ("CRASH" if m_out.startswith("CRASH") else m_out)
                ic = io.split(":")[0]
                if ic == "CRASH" and crash_class(c, io) in OUTSIDE_MODEL:
                    outside += 1      # crash sites outside the model (JIT; const_ty of the parameter type;
                                      # const_data's Member arm indexing self.loc) — reported above, not compared
                elif mo != ic:
                    diffs += 1
                    first = first or pay
                if io == "ACC" and c.pos == "A":
                    c.model_value = m_out[5:] if m_out.startswith("ACC:i") else None
                    accepted_A.append(c)
            fl.stream("front end verdict vs model (kind x position x order, exhaustive)", len(cases), diffs, first)
            v.coverage["exhaustive"] = True
        v.coverage["evaluations"] += len(cases)
        v.coverage["distinct_nontrivial"] += sum(1 for c in cases if "-of-" in c.kind or c.kind not in ("literal",))
        v.coverage["outcome_histogram"] = hist
        v.coverage["eval_comptime_crashes_outside_model"] = outside
        v.add_samples([{"source": cases[k].source, "model_expr": cases[k].tok, "model": model[k] if k < len(model) else None}
                       for k in (1, len(cases) // 2)])

        # ---- type annotation position (oracle only) --------------------------------------
        tsrc = []
        for (kind, helpers, params, call, locals_, texpr, const) in TYPE_POS:
            tsrc.append((kind, const, "%srun :: (%s) { %s x : %s = 1; }\nmain :: () { %s }\n" % (helpers, params, locals_, texpr, call)))
        timpl = C.run_lines([har, "comptime"], [s.encode().hex() for _, _, s in tsrc], case_timeout=30)
        for (kind, const, s), i in zip(tsrc, timpl):
            errs = [t for t in i.split() if ":" in t and not t.split(":", 1)[1].startswith("w-")]
            pay = {"key": "ty:" + kind, "stream": "type annotation", "source": s, "kind": kind, "harness": i, "const_by_rule": const}
            if any(t.startswith("PANIC") for t in i.split()) or i.startswith("!"):
                v.failing("consumer-panic:T:" + kind, pay)
            elif not errs and not const:
                v.failing("non-const-accepted:T:" + kind, pay)
            elif errs and const:
                v.failing("const-rejected:T:" + kind, pay)
        v.coverage["type_annotation_cases"] = len(tsrc)
        v.coverage["evaluations"] += len(tsrc)

        # ---- end to end: accepted array lengths ------------------------------------------
        capy = fl.capy()
        if capy and accepted_A:
            srcs = []
            for c in accepted_A:
                h, u, m, f = c.src_parts
                body = c.e2e_body
                prog = 'core :: #mod("core");\n' + c.helpers + "run :: (%s) { %s }\n" % (c.params, body) + \
                       "main :: () { %s }\n" % c.call + f
                srcs.append(prog)
            outs = C.parallel_map(lambda s: run_e2e(capy, s), srcs)
            ediffs, efirst, ran = 0, None, 0
            for c, s, (status, out) in zip(accepted_A, srcs, outs):
                got = None
                for l in out.split("\n"):
                    if l.startswith("#@ "):
                        got = l[3:].strip()
                pay = {"key": "e2e:" + C.sha(s), "stream": "end to end", "source": s, "kind": c.kind, "status": status,
                       "printed_len": got, "model_value": c.model_value, "output": out[-400:] if status != "RAN:0" else ""}
                if status != "RAN:0" or got is None:
                    v.failing("accepted-array-length-does-not-build:%s" % c.kind, pay)
                    continue
                ran += 1
                if got != str(N):
                    v.failing("array-length-wrong-value:%s" % c.kind, pay)
                if got != c.model_value:
                    ediffs += 1
                    efirst = efirst or pay
            fl.stream("end to end: reflected array length vs model value", len(srcs), ediffs, efirst)
            v.coverage["e2e_lengths_checked"] = ran
            v.coverage["evaluations"] += ran
        # ---- imported-global chains: reflected VALUE vs the world model ---------------------------
        if capy:
            ccs = chain_cases()
            cmodel = C.run_lines([drv], [c.tok for c in ccs], indexed=False)
            couts = C.parallel_map(lambda c: run_e2e(capy, c.source), ccs)
            cdiffs, cfirst, cran = 0, None, 0
            for c, m, (status, out) in zip(ccs, cmodel, couts):
                got = None
                for l in out.split("\n"):
                    if l.startswith("#@ "):
                        got = l[3:].strip()
                pay = {"key": "chain:" + C.sha(c.source), "stream": "imported-global chains", "source": c.source,
                       "position": c.pos, "kind": c.kind, "order": c.order, "world": c.tok, "model": m, "status": status,
                       "reflected_value": got, "denoted_value": TRUE_VALUE,
                       "output": out[-700:] if status != "RAN:0" or got is None else ""}
                if m != "ACC:i%d" % TRUE_VALUE:
                    fl.broken.append({"what": "world model does not give the denoted value for a generated chain", **pay})
                    continue
                if status != "RAN:0" or got is None:
                    v.failing("imported-const-chain-does-not-build:%s" % c.pos, pay)
                    cdiffs += 1
                    cfirst = cfirst or pay
                    continue
                cran += 1
                if got != str(TRUE_VALUE):
                    # direct oracle: the reflected value is not the value the expression denotes
                    v.failing("const-value-from-wrong-global:%s" % c.pos, pay)
                    cdiffs += 1
                    cfirst = cfirst or pay
            fl.stream("imported-global chains: reflected value vs world model (array length, discriminant, comptime argument)",
                      len(ccs), cdiffs, cfirst)
            v.coverage["chain_values_checked"] = cran
            v.coverage["evaluations"] += len(ccs)
            v.coverage["distinct_nontrivial"] += sum(1 for c in ccs if "chain-1" not in c.kind)
            v.add_samples([{"chain_source": ccs[len(ccs) // 2].source, "world": ccs[len(ccs) // 2].tok}])
        v.coverage["rule"] = (
            "exhaustive: 12 expression kinds (literal, `::` local, `:=` local, global, imported global, extern global, comptime "
            "block, comptime parameter, arithmetic, paren, call, member) directly, through an immutable local, through a mutable "
            "local and through a global, in 4 positions (array length, enum discriminant, comptime argument, global body), helper "
            "globals declared before and after the use, plus 8 literal kinds as comptime arguments and 9 type-annotation cases; "
            "plus 60 imported-global chains (other.X with X :: literal / Y / Y :: Z, also through a second import; with and without "
            "same-named different-valued globals in the importing file; two declaration orders) in the array-length, discriminant "
            "and comptime-argument positions, built and run, the reflected value (a.len / Type_Info discriminant / printed "
            "argument) compared with the value the multi-file world model says the expression denotes; "
            "non-trivial = anything but a bare literal")
    v.assumptions = [
        "multi-file lookup (which file a global name is resolved in) is modelled by the world layer (get_const_w / const_data_w) "
        "and exercised by the imported-global-chain stream; the single-expression stream still uses the inlined tree model",
        "expression kinds are mapped to model nodes by the generator (a member of an imported file is the Member-of-Ty::File arm, "
        "modelled by the same node as a same-file global)",
        "eval_comptime (the JIT) is a parameter of the model: its result is supplied by the generator; a crash inside it is reported "
        "as a failing input but not compared with the model",
        "two further crash sites are reported by the oracle but are NOT in the model: const_ty of a comptime parameter whose type is "
        "an array type (globals.rs:4671) and const_data's Member arm reading self.tys[self.loc] for a file member reached through "
        "another global (globals.rs:4698)",
        "the type-annotation consumer (const_ty) is exercised with the spec as oracle, it is not modelled in Coq",
        "expressions whose type check (expect_match usize / u8 / parameter type) fails are not generated",
    ]
    return fl.finish()


def replay(path):
    r = json.load(open(path))
    print(json.dumps(r, indent=1))
    har = os.path.join(C.TARGET, "debug", "h_c14")
    if "source" in r and os.path.exists(har) and r.get("stream") != "end to end":
        print("implementation now:", C.run_lines([har, "comptime"], [r["source"].encode().hex()])[0] or "accepted")
    return 0
