"""C09 — Literals denote exactly their written values or are rejected (DESIGN.md C09).

Streams:
  accept   API level (hcommon::frontend through harness h_c09): `x : T = <spelling>;` for every
           generated spelling at every integer type; the set of error diagnostics is predicted by the
           extracted model (lower_dec/hex/bin + accepted) and judged by the extracted spec
           (dec_spec/radix_spec + fits_ty).
  escapes  API level: every printable character after a backslash in string and char literals, and the
           malformed char-literal shapes; InvalidEscape / EmptyCharLiteral / TooManyChars / NonU8 as the model says.
  values   end to end through the real capy: accepted annotated literals, unannotated locals (observed
           through `x / 2` and `x > 1` at the literal's own default type), strings and chars, printed as hex
           by a Capy printer over putchar; model predicts, spec judges.
  floats   end to end, oracle only (exact rational arithmetic in Python; no Coq model): f64 and f32 literals
           must be the nearest float of the spelled decimal.
"""
import json
import os
import struct
import subprocess
from fractions import Fraction

from .. import common as C
from ..flow import Flow
from . import c08

# Which code variant the extracted model mirrors, one flag per fix candidate ("0" = the code before the
# repair, "1" = the repaired code; see .cache/prompts/C09-{4,2,3}-fix.diff).  Flip a default to "1" once
# the corresponding repair is committed in /repo (and mark the finding `fixed` in known_findings.d/C09.json).
FIX_ZERO = os.environ.get("VERIF_C09_FIX_ZERO", "1") == "1"      # C09-4  0e20
FIX_I128 = os.environ.get("VERIF_C09_FIX_I128", "1") == "1"      # C09-2  i128 literal limit
FIX_ISIZE = os.environ.get("VERIF_C09_FIX_ISIZE", "1") == "1"    # C09-3  isize literal limit
DRV_ARGS = ["%d%d%d" % (FIX_ZERO, FIX_I128, FIX_ISIZE)]

INT_TYPES = [("i8", "s8"), ("i16", "s16"), ("i32", "s32"), ("i64", "s64"), ("i128", "s128"), ("isize", "s255"),
             ("u8", "u8"), ("u16", "u16"), ("u32", "u32"), ("u64", "u64"), ("u128", "u128"), ("usize", "u255")]
SIZE = {"i8": 1, "u8": 1, "i16": 2, "u16": 2, "i32": 4, "u32": 4, "i64": 8, "u64": 8, "isize": 8, "usize": 8,
        "i128": 16, "u128": 16}

CLASS_ACCEPT = {"1": "i128-literal-above-i64max-rejected", "2": "isize-literal-above-i64max-accepted"}


def boundary_values():
    vs = set()
    for w in (7, 8, 15, 16, 31, 32, 63, 64):
        for d in (-2, -1, 0, 1):
            vs.add((1 << w) + d)
    vs |= {0, 1, 9, 10, 100, 255, 256, 1000, 65535, 65536, 10 ** 9, 3 * 10 ** 9, 4 * 10 ** 9, 5 * 10 ** 9,
           10 ** 18, 10 ** 19, 18 * 10 ** 18, 2 * 10 ** 19, 10 ** 20, (1 << 64) + 5, 1 << 65, 1 << 70}
    return sorted(v for v in vs if v >= 0)


def underscore(rng, s):
    out = s[0]
    for ch in s[1:]:
        if rng.chance(1, 4):
            out += "_" * rng.range(1, 2)
        out += ch
    if rng.chance(1, 6):
        out += "_"
    return out


def spellings(rng, n):
    """several spellings of the non-negative integer n"""
    d = str(n)
    out = [d, underscore(rng, d)]
    if rng.chance(1, 2):
        out.append("0" * rng.range(1, 3) + d)
    k = 0
    while n > 0 and n % (10 ** (k + 1)) == 0:
        k += 1
    for kk in sorted({0, k, k // 2} if n > 0 else {0, 5, 19, 20, 25, 4294967296, 99999999999}):
        m = str(n // (10 ** kk)) if n > 0 else "0"
        e = str(kk)
        out.append(m + rng.choice("eE") + e)
        out.append(underscore(rng, m) + rng.choice("eE") + underscore(rng, "0" * rng.below(2) + e))
    if n < (1 << 80):
        hx = "%x" % n
        out.append("0x" + hx)
        out.append("0x" + "".join(rng.choice([c, c.upper()]) for c in hx))
        out.append("0x" + "0" * rng.range(1, 3) + hx)
        out.append("0b" + bin(n)[2:])
    return out


def extra_spellings():
    return ["1e19", "1e20", "2e19", "18446744073709551615e0", "18446744073709551616e0", "1844674407370955161e1",
            "1844674407370955162e1", "0e0", "0e19", "0e20", "0e21", "00e100", "0_e2_5", "1e4294967295", "1e4294967296",
            "0e4294967296", "5e18", "9e18", "92233720368547758e2", "1_000_000", "1__0", "12e0_1"]


def run(tier, seed):
    fl = Flow("C09", tier, seed, "proof")
    v = fl.v
    fl.proof_stage()
    drv = fl.driver()
    har = fl.harness("h_c09")
    capy = fl.capy()
    rng = fl.rng.fork("lits")
    nrand = 60 if tier == "quick" else 500
    values = boundary_values()
    for _ in range(nrand):
        bits = rng.range(1, 66)
        values.append((rng.next() | (rng.next() << 64)) & ((1 << bits) - 1))
    sps = []
    seen = set()
    for n in values:
        for s in spellings(rng, n):
            if s not in seen:
                seen.add(s)
                sps.append(s)
    for s in extra_spellings():
        if s not in seen:
            seen.add(s)
            sps.append(s)
    v.coverage["spellings"] = len(sps)
    evals = 0
    nontriv = set()

    if drv and har:
        # ---- accept ---------------------------------------------------------------------------
        ires = C.run_lines([drv] + DRV_ARGS, ["I " + s for s in sps], indexed=False)
        lit = {}
        for s, r in zip(sps, ires):
            f = r.split()
            if len(f) != 3:
                fl.broken.append({"what": "model driver output malformed", "line": "I " + s, "out": r})
                continue
            lit[s] = f      # model value|REJ, spec value|REJ, class
        cases = []
        for s in sps:
            if s not in lit:
                continue
            tys = INT_TYPES if tier == "thorough" or lit[s][0] == "REJ" else INT_TYPES
            for (tn, code) in tys:
                cases.append((s, tn, code))
        alines = []
        for (s, tn, code) in cases:
            mv = lit[s][0]
            sv = lit[s][1]
            alines.append("A %s %s" % (code, mv if mv != "REJ" else (sv if sv != "REJ" else "0")))
        ares = C.run_lines([drv] + DRV_ARGS, alines, indexed=False)
        srcs = ["main :: () {\n    x : %s = %s;\n}\n" % (tn, s) for (s, tn, _) in cases]
        impl = C.run_lines([har], [x.encode().hex() for x in srcs], case_timeout=20)
        diffs = 0
        first = None
        hist = {}
        accepted_cases = []
        for (s, tn, code), ar, got in zip(cases, ares, impl):
            mv, sv, lcls = lit[s]
            a = ar.split()
            got_k = "-" if got == "-" else ",".join(sorted(x.split("@")[0] for x in got.split(",")))
            # model prediction
            if mv == "REJ":
                want = "lowering:OutOfRangeIntLiteral"
            else:
                want = "-" if a[0] == "1" else "ty:IntTooBigForType"
            # specification
            if sv == "REJ":
                swant = "lowering:OutOfRangeIntLiteral"
                scls = None
            else:
                # does the spelled value fit T ?  (A line was evaluated on the model value; when the model
                # rejected, re-evaluate fits on the spec value: it was passed in that case)
                swant = "-" if a[1] == "1" else "ty:IntTooBigForType"
                scls = a[2]
            evals += 1
            nontriv.add((s, tn))
            hist[got_k] = hist.get(got_k, 0) + 1
            if got_k != want:
                diffs += 1
                first = first or {"source": "x : %s = %s" % (tn, s), "implementation": got, "model": want}
            if got_k != swant:
                if mv == "REJ" and sv != "REJ" and lcls == "1":
                    cls = "dec-literal-zero-mantissa-big-exponent-rejected"
                elif scls in CLASS_ACCEPT:
                    cls = CLASS_ACCEPT[scls]
                else:
                    cls = "acceptance-wrong:%s" % tn
                v.failing(cls, {"key": "accept/%s/%s" % (tn, s), "stream": "accept", "source": "x : %s = %s;" % (tn, s),
                                "implementation_diagnostics": got, "spec": swant, "model": want,
                                "spelled_value_hex": sv})
            if got_k == "-" and mv != "REJ":
                accepted_cases.append((s, tn, code, a))
        fl.stream("accept: x : T = <spelling> through the front end, diagnostics vs extracted model", len(cases), diffs, first)
        v.add_samples([{"source": srcs[i], "implementation_diagnostics": impl[i], "model_literal": lit[cases[i][0]][0],
                        "spec_literal": lit[cases[i][0]][1]} for i in (0, len(cases) // 3, len(cases) // 2, len(cases) - 1)
                       if i < len(cases)])
        v.coverage["accept_diag_histogram"] = hist

        # ---- globals (tested only; rule: a global's literal defaults to i32 unless above u32::MAX -> u64)
        gdiffs = 0
        gsp = [s for s in sps if s in lit and lit[s][0] != "REJ"][:400]
        gimpl = C.run_lines([har], [("g :: %s;\nmain :: () {}\n" % s).encode().hex() for s in gsp], case_timeout=20)
        for s, got in zip(gsp, gimpl):
            n = int(lit[s][0], 16)
            got_k = "-" if got == "-" else ",".join(sorted(x.split("@")[0] for x in got.split(",")))
            want = "-" if (n <= 2147483647 or n > 4294967295) else "ty:IntTooBigForType"
            evals += 1
            if got_k != want:
                gdiffs += 1
                v.failing("global-literal-acceptance-wrong", {"key": "global/" + s, "stream": "globals",
                                                              "source": "g :: %s;" % s, "implementation": got, "spec": want})
        v.coverage["globals_checked"] = len(gsp)

        # ---- escapes ------------------------------------------------------------------------------
        elines = []
        esrc = []
        for c in range(33, 127):
            ch = chr(c)
            elines.append("S l61 e%x l62" % c)
            esrc.append('main :: () {\n    s := "a\\%sb";\n}\n' % ch)
            elines.append("C e%x" % c)
            esrc.append("main :: () {\n    c := '\\%s';\n}\n" % ch)
        shapes = [("C", "main :: () {\n    c := '';\n}\n"), ("C l6162", "main :: () {\n    c := 'ab';\n}\n"),
                  ("C l61 e6e", "main :: () {\n    c := 'a\\n';\n}\n"), ("C e6e e6e", "main :: () {\n    c := '\\n\\n';\n}\n"),
                  ("C l7a", "main :: () {\n    c := 'z';\n}\n"), ("S l61 e71 e6e e7a l62", 'main :: () {\n    s := "a\\q\\n\\zb";\n}\n'),
                  ("S", 'main :: () {\n    s := "";\n}\n')]
        for l, s in shapes:
            elines.append(l)
            esrc.append(s)
        emod = C.run_lines([drv] + DRV_ARGS, elines, indexed=False)
        eimpl = C.run_lines([har], [x.encode().hex() for x in esrc], case_timeout=20)
        ediffs = 0
        efirst = None
        for l, src, m, got in zip(elines, esrc, emod, eimpl):
            got_k = "-" if got == "-" else ",".join(sorted(x.split("@")[0].split(":")[1] for x in got.split(",")))
            f = m.split()
            if l.startswith("S"):
                ninv = int(f[1])
                want = ",".join(["InvalidEscape"] * ninv) or "-"
                # spec: REJ iff some escape is not documented
                swant_rej = f[-1] == "REJ"
                if (got_k != "-") != swant_rej:
                    v.failing("escape-acceptance-wrong", {"key": "esc/" + l, "stream": "escapes", "source": src,
                                                          "implementation": got, "spec_rejects": swant_rej})
            else:
                want = ",".join(sorted(f[1].split(","))) if len(f) > 1 else "-"
            evals += 1
            nontriv.add(l)
            if got_k != want:
                ediffs += 1
                efirst = efirst or {"source": src, "implementation": got, "model": want}
        fl.stream("escapes: every printable escape character and the char-literal shapes, diagnostics vs model",
                  len(elines), ediffs, efirst)

        # ---- values (end to end) ---------------------------------------------------------------------
        if capy:
            items = []   # (statement lines, [(size, model_hex, spec_hex, key, class)])
            k = 0
            sel = accepted_cases if tier == "thorough" else accepted_cases[::3] + accepted_cases[1::7]
            for (s, tn, code, a) in sel:
                k += 1
                n = int(lit[s][1], 16)
                mbits = int(a[3], 16)
                cls = CLASS_ACCEPT.get(a[2])
                items.append((["    x%d : %s = %s;" % (k, tn, s), "    pr(rawptr.(^x%d), %d);" % (k, SIZE[tn])],
                              [(SIZE[tn], mbits, n if a[1] == "1" else None, "value/%s/%s" % (tn, s),
                                cls or "annotated-literal-value-wrong")]))
            # unannotated locals
            usp = [s for s in sps if s in lit and lit[s][0] != "REJ"]
            usp = usp if tier == "thorough" else usp[::2]
            dres = C.run_lines([drv] + DRV_ARGS, ["D " + lit[s][0] for s in usp], indexed=False)
            for s, d in zip(usp, dres):
                k += 1
                n = int(lit[s][1], 16)
                fty, obs, dcls = d.split()
                w = int(fty[1:])
                obsv = int(obs.replace("-", ""), 16) * (-1 if obs.startswith("-") else 1)
                mask = (1 << w) - 1
                q = abs(obsv) // 2 * (1 if obsv >= 0 else -1)
                items.append((["    y%d := %s;" % (k, s), "    r%d := y%d / 2;" % (k, k), "    pr(rawptr.(^r%d), %d);" % (k, w // 8),
                               "    b%d := y%d > 1;" % (k, k), "    pr(rawptr.(^b%d), 1);" % k],
                              [(w // 8, q & mask, (n // 2) & mask, "default/%s/div" % s, "unannotated-literal-compiled-as-i32"),
                               (1, 1 if obsv > 1 else 0, 1 if n > 1 else 0, "default/%s/gt" % s,
                                "unannotated-literal-compiled-as-i32")]))
            # strings and chars (valid ones)
            for l, src, m in zip(elines, esrc, emod):
                f = m.split()
                if l.startswith("S") and f[-1].startswith("="):
                    k += 1
                    body = src.split(":= ", 1)[1].split(";\n")[0]
                    bts = bytes.fromhex(f[0][1:])
                    sb = bytes.fromhex(f[-1][1:])
                    if not bts:
                        continue
                    val = int.from_bytes(bts, "little")
                    items.append((["    s%d := %s;" % (k, body), "    pr(rawptr.(s%d), %d);" % (k, len(bts))],
                                  [(len(bts), val, int.from_bytes(sb, "little"), "string/" + l, "string-literal-bytes-wrong")]))
                elif l.startswith("C") and len(f) == 1:
                    k += 1
                    body = src.split(":= ", 1)[1].split(";\n")[0]
                    items.append((["    c%d := %s;" % (k, body), "    pr(rawptr.(^c%d), 1);" % k],
                                  [(1, int(f[0], 16), int(f[0], 16), "char/" + l, "char-literal-value-wrong")]))
            progs = list(C.chunks(items, 120))

            def build(pg):
                out = [c08.PRELUDE, "main :: () {"]
                for st, _ in pg:
                    out += st
                out.append("}")
                return "\n".join(out) + "\n"
            outs = C.parallel_map(lambda pg: c08.run_program(capy, build(pg)), progs)
            vdiffs = 0
            vfirst = None
            nv = 0
            for pg, (lines_out, desc) in zip(progs, outs):
                exp = [e for _, es in pg for e in es]
                if lines_out is None or len(lines_out) != len(exp):
                    vdiffs += len(exp)
                    vfirst = vfirst or {"program_failed": desc, "statements": [x for st, _ in pg for x in st][:60]}
                    continue
                for (size, mhex, shex, key, cls), got in zip(exp, lines_out):
                    g = int(got, 16)
                    nv += 1
                    nontriv.add(key)
                    if g != mhex:
                        vdiffs += 1
                        vfirst = vfirst or {"case": key, "implementation": "%x" % g, "model": "%x" % mhex}
                    if shex is not None and g != shex:
                        v.failing(cls, {"key": key, "stream": "values", "case": key, "implementation_hex": "%x" % g,
                                        "spec_hex": "%x" % shex, "model_hex": "%x" % mhex})
            evals += nv
            fl.stream("values: accepted literals, unannotated locals, strings and chars printed by the real capy vs model",
                      nv, vdiffs, vfirst)

            # ---- floats (oracle only) --------------------------------------------------------------------
            fr = fl.rng.fork("floats")
            fsp = ["0.0", "1.0", "0.1", "0.5", "3.14159", "1.5e3", "1_0.2_5", "123456789.125", "16777217.0",
                   "0.1e1", "1.0e-5", "4.9e-324", "1.7976931348623157e308", "3.4028235e38", "1.00000017881393432617187500001",
                   "1.0000001788139343", "8.5070597e37", "0.3", "2.5e-1", "9007199254740993.0", "1.17549435e-38"]
            for _ in range(40 if tier == "quick" else 600):
                ip = str(fr.below(10 ** fr.range(1, 12)))
                fp = "".join(str(fr.below(10)) for _ in range(fr.range(1, 18)))
                s = ip + "." + fp
                if fr.chance(1, 3):
                    s += "e" + fr.choice(["", "-", "+"]) + str(fr.below(30))
                fsp.append(s)
            fsp = [s for s in fsp if s[0].isdigit() and "." in s]

            def nearest(fracv, mant_bits, emin, emax):
                """bit-exact round-to-nearest-even of a non-negative Fraction to a binary format"""
                if fracv == 0:
                    return 0, 0
                import math
                e = math.floor(math.log2(fracv)) if fracv > 0 else 0
                # fix e so that 2^e <= v < 2^(e+1)
                while Fraction(2) ** e > fracv:
                    e -= 1
                while Fraction(2) ** (e + 1) <= fracv:
                    e += 1
                e_eff = max(e, emin)
                scaled = fracv / (Fraction(2) ** (e_eff - mant_bits))
                q = scaled.numerator // scaled.denominator
                rem = scaled - q
                if rem > Fraction(1, 2) or (rem == Fraction(1, 2) and q % 2 == 1):
                    q += 1
                return q, e_eff - mant_bits    # value = q * 2^(..)

            def f32_bits(fracv):
                q, ex = nearest(fracv, 23, -126, 127)
                val = Fraction(q) * Fraction(2) ** ex
                try:
                    return struct.unpack("<I", struct.pack("<f", float(val)))[0]
                except OverflowError:
                    return 0x7f800000
            fitems = []
            for i, s in enumerate(fsp):
                fracv = Fraction(s.replace("_", ""))
                try:
                    b64 = struct.unpack("<Q", struct.pack("<d", float(s.replace("_", ""))))[0]
                except (OverflowError, ValueError):
                    continue
                fitems.append((["    fa%d : f64 = %s;" % (i, s), "    pr(rawptr.(^fa%d), 8);" % i,
                                "    ga%d : f32 = %s;" % (i, s), "    pr(rawptr.(^ga%d), 4);" % i],
                               [(8, b64, "float/f64/" + s), (4, f32_bits(fracv), "float/f32/" + s)]))
            fprogs = list(C.chunks(fitems, 100))
            fouts = C.parallel_map(lambda pg: c08.run_program(capy, "\n".join([c08.PRELUDE, "main :: () {"] + [x for st, _ in pg for x in st] + ["}"]) + "\n"), fprogs)
            nf = 0
            for pg, (lo, desc) in zip(fprogs, fouts):
                exp = [e for _, es in pg for e in es]
                if lo is None or len(lo) != len(exp):
                    fl.broken.append({"what": "floats stream: program failed", "desc": desc[:500]})
                    continue
                for (size, want, key), got in zip(exp, lo):
                    nf += 1
                    if int(got, 16) != want:
                        cls = "f32-literal-double-rounding" if "/f32/" in key else "f64-literal-not-nearest"
                        v.failing(cls, {"key": key, "stream": "floats", "literal": key.split("/", 2)[2],
                                        "implementation_hex": got, "nearest_hex": "%x" % want})
            evals += nf
            v.coverage["float_literals_checked"] = nf
    v.coverage["evaluations"] += evals
    v.coverage["distinct_nontrivial"] += len(nontriv)
    v.coverage["rule"] = ("spellings (decimal with _ and e/E, leading zeros, hex, binary) of MAX-1, MAX, MAX+1 of every width, "
                          "2^31, 2^32, 2^63, 2^64 and neighbours plus random values below 2^66, used annotated at each of the 12 "
                          "integer types (front end diagnostics), unannotated as locals and globals, every printable escape; "
                          "accepted ones compiled and run by the real capy; distinct_nontrivial = distinct (spelling, type) / "
                          "escape / value cases")
    v.assumptions = [
        "the token shape of literals is the one of /repo/tokenizer.txt (digits/underscores, optional e/E exponent with digits; "
        "0x/0b prefixes): spellings are cut into mantissa/exponent/digits by the OCaml glue accordingly",
        "Rust's str::parse::<u64>/<u32>, from_str_radix, checked_pow, checked_mul meet their documentation (modelled as "
        "checked left-to-right accumulation; proved equal to 'value fits')",
        "float literals: tested only (Python exact rational oracle), no Coq model",
        "global literals: tested only against the rule i32 unless > u32::MAX (then u64)",
        "pointer width 64",
        "model variant: FIX_ZERO=%s FIX_I128=%s FIX_ISIZE=%s (1 = mirrors the repaired code)" % (FIX_ZERO, FIX_I128, FIX_ISIZE),
    ]
    return fl.finish()


def replay(path):
    r = json.load(open(path))
    print(json.dumps(r, indent=1))
    return 0
