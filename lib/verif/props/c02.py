"""C02 — Writing one value never changes any other value (DESIGN.md C02).

Streams:
  1. footprint model: for every generated write block the extracted Coq footprint
     (ocaml/C02/driver: Model/Footprint.v) and the reference predictor of c02_e2e.py
     (which was fitted to the real compiler by hand) must give the same extent of
     written bytes;
  2. end to end: generated guard-byte programs (c02_e2e.py) compiled by the real `capy`
     and executed; the guards that change must be exactly the ones the footprint model
     says are written (correspondence); the specification says no guard may change
     (direct oracle) -> every changed guard is a failing input, classified by the
     mechanism the Coq classifier `known_class` names.
"""
import json
import os
import shutil
import tempfile
import time

from .. import common as C
from ..flow import Flow
from . import c02_e2e as E

CLASS_NAMES = {
    "1": "c02:variant-to-enum-tag-store-8-bytes",
    "2": "c02:aggregate-copy-stride-into-packed-field",
    "3": "c02:aggregate-payload-copy-stride-into-sum-type",
    "4": "c02:stack-memset-8-byte-stores",
    "5": "c02:abi-cast-word-wider-than-object",
}
NO_OP_KINDS = ("default", "self_ref_literal", "alias_assign")
# Flip to True together with the tag-width fix (/verif/.cache/prompts/C02-fix.diff) in /repo: the model is then
# evaluated with tag_width = 1 (driver fields hi1/class1; Coq: C02_fixed_tag_variant_to_enum).
TAG_FIXED = True   # fix 38e2441 committed in /repo
# Flip to True together with fix candidate C02-2/3 (/verif/.cache/prompts/C02-2-fix.diff: write_all copies
# `size` bytes): the model is then evaluated as footprint_sz (driver fields hiS/classS; Coq:
# C02_sizecopy_except_known) and NO guard may change for any write kind.
COPY_FIXED = os.environ.get("VERIF_C02_COPY_FIXED", "1") == "1"   # repo fix 7d3c1b1 committed
TW = "S" if COPY_FIXED else ("1" if TAG_FIXED else "8")


def vl(ty):
    s = E.size_of(ty)
    return "%d,%d,%d,%d" % (s, E.stride(ty), 1 if E.is_aggregate(ty) else 0, s)


def op_line(b):
    """The store-emitting operation a block exercises, in ocaml/C02/driver syntax, and the
    reference predictor's extent; None when the block's write is a field-wise literal store
    (store_struct_fields / scalar store: parts at layout offsets, not separately compared)."""
    ty, kind, cont, src = b["ty"], b["kind"], b["container"], b.get("src")
    if kind in NO_OP_KINDS:
        return None
    S, R = E.size_of(ty), E.stride(ty)
    st = 1 if cont in ("lit", "local") else 0
    if kind in ("arg", "alias_ret") or src in ("literal", "payload_var"):
        ref_hi = S if COPY_FIXED else E._literal_write_hi(ty, b["new"], TAG_FIXED)[0]
        k = ty["k"]
        val = b["new"]
        if k == "enum":
            vt = ty["variants"][val[0]]
            return "venum %d %d %s %d" % (S, S - 1, vl(vt) if vt is not None else "none", st), ref_hi
        if k == "opt":
            if val is None:
                return "nil %d %d 0" % (S, S - 1), ref_hi
            return "union %d %d %s %d" % (S, S - 1, vl(ty["sub"]), st), ref_hi
        if k == "eu":
            which = "err" if "err" in val else "ok"
            return "union %d %d %s %d" % (S, S - 1, vl(ty[which]), st), ref_hi
        return None
    ref_hi = S if COPY_FIXED else (R if E.is_aggregate(ty) else S)
    return "copy %d %d %d %d %d" % (S, R, 1 if E.is_aggregate(ty) else 0, S, st), max(ref_hi, S)


def contains_enum(ty):
    if ty is None:
        return False
    k = ty["k"]
    if k == "enum":
        return True
    if k == "struct":
        return any(contains_enum(f) for f in ty["fields"])
    if k == "array":
        return contains_enum(ty["elem"])
    if k == "opt":
        return contains_enum(ty["sub"])
    if k == "eu":
        return contains_enum(ty["err"]) or contains_enum(ty["ok"])
    return False


def literal_class(ty):
    """Class of the over-wide part of a LITERAL store into an object of type ty (the
    secondary writes of a block: re-initialising the source, building a temporary)."""
    k = ty["k"]
    if k == "enum":
        # with the tag stored as one byte only the stride-sized payload copy remains
        return CLASS_NAMES["3"] if TAG_FIXED else CLASS_NAMES["1"]
    if k in ("opt", "eu"):
        return CLASS_NAMES["3"]
    return None


def parse_model(line):
    d = {}
    for tok in line.split():
        if "=" in tok:
            k, v = tok.split("=", 1)
            d[k] = v
    return d


def run(tier, seed):
    fl = Flow("C02", tier, seed, "proof")
    v = fl.v
    fl.proof_stage()
    drv = fl.driver()
    capy = fl.capy()
    kinds_hist = {}
    if drv and capy:
        rng = E.Rng(fl.rng.fork("blocks").next())
        nprog = 60 if tier == "quick" else 600
        per = 12
        progs = [E.gen_blocks(rng, per) for _ in range(nprog)]
        blocks = [b for p in progs for b in p]
        # ---- stream 1: Coq footprint vs reference predictor ----------------------
        ops = [op_line(b) for b in blocks]
        q = [o[0] for o in ops if o]
        mres = C.run_lines([drv], q, indexed=False)
        model_of = {}
        diffs = 0
        first = None
        it = iter(mres)
        for idx, (b, o) in enumerate(zip(blocks, ops)):
            kinds_hist[b["kind"]] = kinds_hist.get(b["kind"], 0) + 1
            if not o:
                continue
            m = parse_model(next(it))
            model_of[idx] = m
            S = E.size_of(b["ty"])
            if m.get("hi" + TW) is None or max(int(m["hi" + TW]), S) != max(o[1], S):
                diffs += 1
                if first is None:
                    first = {"block": E.describe(b), "kind": b["kind"], "op": o[0], "model": m, "reference_hi": o[1]}
        fl.stream("footprint extent: extracted Coq model vs reference predictor", len(q), diffs, first)

        # ---- stream 2: end to end ------------------------------------------------------
        root = tempfile.mkdtemp(prefix="verif-c02-")
        try:
            def one(k):
                prog = E.build_program(progs[k])
                wd = os.path.join(root, "p%d" % k)
                os.makedirs(wd, exist_ok=True)
                r = E.run_program(capy, prog, wd)
                if r["status"] == "capy-failed" and "timeout" in str(r.get("detail")):
                    # a loaded machine, not a verdict: one patient retry
                    r = E.run_program(capy, prog, wd, timeout=600)
                shutil.rmtree(wd, ignore_errors=True)
                return prog, r
            results = C.parallel_map(one, list(range(len(progs))))
            # a crash loses the rest of the transcript: re-run those programs block by block
            singles = []
            for k, (prog, r) in enumerate(results):
                if r["status"] in ("run-failed",):
                    singles += [(k, j) for j in range(len(progs[k]))]

            def one_block(kj):
                k, j = kj
                prog = E.build_program([progs[k][j]])
                wd = os.path.join(root, "s%d_%d" % (k, j))
                os.makedirs(wd, exist_ok=True)
                r = E.run_program(capy, prog, wd)
                if r["status"] == "capy-failed" and "timeout" in str(r.get("detail")):
                    r = E.run_program(capy, prog, wd, timeout=600)
                shutil.rmtree(wd, ignore_errors=True)
                return r
            single_res = dict(zip(singles, C.parallel_map(one_block, singles)))

            ncase = 0
            ediffs = 0
            efirst = None
            nontriv = 0
            for k, (prog, r) in enumerate(results):
                for j, b in enumerate(progs[k]):
                    gidx = k * per + j
                    ncase += 1
                    if (k, j) in single_res:
                        rr = single_res[(k, j)]
                        changed = rr.get("changed") or []
                        crashed = rr["status"] == "run-failed"
                        failed_build = rr["status"] == "capy-failed"
                    else:
                        changed = [c for c in (r.get("changed") or []) if c["block"] == j]
                        crashed = False
                        failed_build = r["status"] == "capy-failed"
                    if failed_build:
                        det = single_res[(k, j)].get("detail") if (k, j) in single_res else r.get("detail")
                        fl.broken.append({"what": "generated program rejected by capy", "shape": E.describe(b),
                                          "kind": b["kind"], "detail": str(det)[-800:]})
                        continue
                    pred = E.predict_clobber(b, d1_fixed=TAG_FIXED)
                    if COPY_FIXED:
                        pred = {"post": {}, "pre": {}, "src_post": {}, "n2": False,
                                "value_wrong": b["kind"] == "self_ref_literal"}
                    m = model_of.get(gidx, {})
                    cls = CLASS_NAMES.get(m.get("class" + TW, "-"))
                    if b["kind"] == "self_ref_literal":
                        cls = "c02:assign-literal-reading-destination"
                    if pred["post"] or pred["src_post"] or pred["pre"] or pred["n2"] or pred["value_wrong"]:
                        nontriv += 1
                    obs_post = {c["guard_index"] for c in changed if c["region"] in ("post", "post_local")}
                    obs_pre = {c["guard_index"] for c in changed if c["region"] in ("pre", "pre_local")}
                    obs_src = {c["guard_index"] for c in changed if c["region"] == "src_post"}
                    obs_val = [c for c in changed if c["region"].startswith(("value:", "missing:"))]
                    unpredicted = (obs_post - set(pred["post"])) | (obs_src - set(pred["src_post"])) | (obs_pre - set(pred["pre"]))
                    must = {i for i, val in pred["post"].items() if val is not None}   # bytes whose new value is known and differs from the guard
                    missing = must - obs_post if not crashed else set()
                    val_unexpected = bool(obs_val) and not (pred["value_wrong"] or pred["n2"] or crashed)
                    payload = {"key": "blk:%s:%s" % (b["kind"], E.describe(b)), "stream": "e2e", "block": b,
                               "shape": E.describe(b), "kind": b["kind"], "container": b["container"],
                               "changed": changed[:24], "predicted": {kk: (sorted(vv) if isinstance(vv, dict) else vv)
                                                                      for kk, vv in pred.items()},
                               "model": m, "crashed": crashed,
                               "capy": E.build_program([b])["capy"]}
                    enum_stack_effect = (not TAG_FIXED) and contains_enum(b["ty"]) and (crashed or val_unexpected)
                    if unpredicted or (val_unexpected and not enum_stack_effect) or \
                            (crashed and not (enum_stack_effect or m.get("class" + TW) == "1")):
                        # something changed that the footprint model does not account for
                        ediffs += 1
                        if efirst is None:
                            efirst = {"shape": E.describe(b), "kind": b["kind"], "unpredicted_guards": sorted(unpredicted),
                                      "value_lines": obs_val[:3], "model": m}
                        v.failing("c02:unmodelled-clobber:%s" % b["kind"], payload)
                    elif missing:
                        # the model says these bytes are overwritten with zeros but they were not
                        ediffs += 1
                        if efirst is None:
                            efirst = {"shape": E.describe(b), "kind": b["kind"], "predicted_but_intact": sorted(missing), "model": m}
                    else:
                        if obs_post or (obs_val and (pred["n2"] or pred["value_wrong"])):
                            v.failing(cls or "c02:clobber-without-class:%s" % b["kind"], payload)
                        if obs_src or obs_pre:
                            # the later literal re-initialisation of the source object (secondary write)
                            v.failing(literal_class(b["ty"]) or "c02:clobber-without-class:%s" % b["kind"], payload)
                        if enum_stack_effect:
                            # variant->enum temporaries / locals next to each other on the stack: the 8-byte
                            # tag store reaches the neighbouring slot (or the saved frame pointer: crash)
                            v.failing(CLASS_NAMES["1"], payload)
            fl.stream("guard bytes: real capy vs footprint model (%d programs x %d blocks)" % (nprog, per), ncase, ediffs, efirst)
            v.coverage["evaluations"] = ncase + len(q)
            v.coverage["distinct_nontrivial"] = nontriv
            v.coverage["crashed_programs_rerun_blockwise"] = len(singles) // per
        finally:
            shutil.rmtree(root, ignore_errors=True)
    v.coverage["write_kind_histogram"] = kinds_hist
    v.coverage["rule"] = ("one case = one generated write block (write kind x type shape x container) run on the real "
                          "compiler with guard bytes around the destination; non-trivial = the footprint model predicts "
                          "a write outside the destination or a wrong read-back for it")
    v.assumptions = [
        "layout numbers (size/stride/discriminant offset) are taken from the layout model validated by C17; the C02 "
        "theorems quantify over all numbers satisfying the layout invariants (wf_op), strides <= 4096",
        "adjacency is observed where the language defines it (struct fields, array elements) and between stack slots "
        "as Cranelift lays them out (creation order, 8-aligned): the latter is Cranelift's, not modelled in Coq",
        "classes 4 (stack memset) and 5 (ABI cast words) are proved over-wide in the model but are not observable "
        "through live values (slots are 8-byte padded); they are reported in the evidence, not as findings",
        "field-wise literal stores (store_struct_fields/store_array_items) are exercised end to end only",
    ]
    return fl.finish()


def replay(path):
    r = json.load(open(path))
    print(json.dumps({k: r[k] for k in r if k != "block"}, indent=1)[:6000])
    return 0
