"""C01 — Well-typed programs are accepted and run exactly as the semantics prescribe (DESIGN.md C01).

Level: translation validation against a Coq-defined semantics.  The independent oracle is the
definitional interpreter `eval_prog` of coq/Common/CapyCore.v (extracted, ocaml/C01); its
meta-theory (determinism, fuel monotonicity, type safety) is proved in Coq (Properties/C01.v).
Every generated program (lib/verif/gen_capy.py: typed by construction, re-checked by the extracted
`well_typed`) is pretty-printed, compiled by the real `capy`, run, and its stdout + exit status are
compared with `eval_prog`.  A rejected well-typed program, a compiler panic, a wrong output or a
wrong exit status is a failing input; it is shrunk on the AST and classified before it is reported."""
import json
import os
import re

from .. import common as C
from .. import gen_capy as G
from ..flow import Flow

FUEL = 4000

# classes of known findings (known_findings.d/C01.json) and the generator switch that produces them
PROBES = [("int128-division-unsupported", "div128"),
          ("int128-in-signature", "int128_in_signatures"),
          ("aggregate-assign-reads-target", "aggregate_assign_reads_target"),
          ("cast-signed-to-wider-unsigned", "cast_signed_to_wider_unsigned")]

I = G.T


def witnesses():
    """Hand-built minimal programs, one per known finding (re-derived on every run)."""
    S = ("struct", 1, (I("i32"), I("i32")))
    w = {}
    w["int128-division-unsupported"] = {"funs": [{"tparams": 0, "cparams": [], "params": [], "ret": G.VOID, "body":
        ("block", None, G.VOID, (("let", 1, I("u128"), True, ("int", I("u128"), 100)),
                                 ("print", ("bin", "div", ("var", 1), ("int", I("u128"), 7)))), ("unit",))}], "main": 0}
    w["int128-in-signature"] = {"funs": [
        {"tparams": 0, "cparams": [], "params": [(1, I("u128"))], "ret": I("u128"),
         "body": ("block", None, I("u128"), (), ("bin", "add", ("var", 1), ("int", I("u128"), 1)))},
        {"tparams": 0, "cparams": [], "params": [], "ret": G.VOID, "body":
         ("block", None, G.VOID, (("print", ("call", 0, (), (), (("int", I("u128"), 5),))),), ("unit",))}], "main": 1}
    w["aggregate-assign-reads-target"] = {"funs": [{"tparams": 0, "cparams": [], "params": [], "ret": G.VOID, "body":
        ("block", None, G.VOID,
         (("let", 1, S, True, ("struct", S, (("int", I("i32"), 1), ("int", I("i32"), 2)))),
          ("assign", ("var", 1), ("struct", S, (("field", ("var", 1), 1), ("field", ("var", 1), 0)))),
          ("print", ("field", ("var", 1), 0)), ("print", ("field", ("var", 1), 1))), ("unit",))}], "main": 0}
    w["cast-signed-to-wider-unsigned"] = {"funs": [{"tparams": 0, "cparams": [], "params": [], "ret": G.VOID, "body":
        ("block", None, G.VOID, (("let", 1, I("i8"), True, ("int", I("i8"), -1)),
                                 ("print", ("cast", I("u16"), ("var", 1)))), ("unit",))}], "main": 0}
    return w


# known findings that depend on how the program is WRITTEN (printer options), with the kind of mismatch expected
E_W = ("enum", 1, (G.VOID, I("i32")))
ERR_W = ("err", E_W, I("i64"))


def printer_witnesses():
    """[(class, program, printer options)]"""
    res = []
    # C01-5: a variant value returned directly into E!T is taken as the payload
    f = {"tparams": 0, "cparams": [], "params": [(1, I("i32"))], "ret": ERR_W, "body":
         ("block", None, ERR_W,
          (("if", ("cmp", "gt", ("var", 1), ("int", I("i32"), 2)),
            ("block", None, G.VOID, (("return", ("inject", ERR_W, 0, ("inject", E_W, 1, ("int", I("i32"), 9)))),), ("unit",)), ("unit",)),),
          ("inject", ERR_W, 1, ("cast", I("i64"), ("var", 1))))}
    m = {"tparams": 0, "cparams": [], "params": [], "ret": G.VOID, "body":
         ("block", None, G.VOID,
          (("print", ("switch", I("i64"), ("call", 0, (), (), (("int", I("i32"), 5),)), 2,
                      (("int", I("i64"), 1000), ("var", 2)), None, ERR_W)),), ("unit",))}
    res.append(("variant-returned-into-error-union-taken-as-payload", {"funs": [f, m], "main": 1}, {"direct_variants": True}))
    # C01-6: a payload-less variant written directly into E!T panics the code generator
    m2 = {"tparams": 0, "cparams": [], "params": [], "ret": G.VOID, "body":
          ("block", None, G.VOID,
           (("let", 1, ERR_W, False, ("inject", ERR_W, 0, ("inject", E_W, 0, ("unit",)))),
            ("print", ("isvar", ("var", 1), 0, ERR_W))), ("unit",))}
    res.append(("payloadless-variant-into-error-union-panics", {"funs": [m2], "main": 0}, {"direct_variants": True}))
    # C01-7: `[2]usize => ..` as a switch arm pattern with the argument used
    OA = ("opt", ("arr", 2, G.USIZE))
    m3 = {"tparams": 0, "cparams": [], "params": [], "ret": G.VOID, "body":
          ("block", None, G.VOID,
           (("let", 1, OA, False, ("inject", OA, 1, ("arr", G.USIZE, (("int", G.USIZE, 1), ("int", G.USIZE, 2))))),
            ("print", ("switch", G.USIZE, ("var", 1), 2, (("int", G.USIZE, 0), ("index", ("var", 2), ("int", G.USIZE, 1))), None, OA))),
           ("unit",))}
    res.append(("switch-arm-inline-array-type-pattern", {"funs": [m3], "main": 0}, {"inline_patterns": True}))
    # C01-8: core.println of a 64-bit value below -2^32 (the C08 cast defect inside core/fmt.capy)
    m4 = {"tparams": 0, "cparams": [], "params": [], "ret": G.VOID, "body":
          ("block", None, G.VOID, (("let", 1, I("i64"), True, ("int", I("i64"), -(10 ** 12))), ("print", ("var", 1))), ("unit",))}
    res.append(("core-println-wide-negative", {"funs": [m4], "main": 0}, {"core_print": True}))
    return res


PRINTER_CLASS_KIND = {"variant-returned-into-error-union-taken-as-payload": "wrong-output",
                      "payloadless-variant-into-error-union-panics": "compiler-panic",
                      "switch-arm-inline-array-type-pattern": "compiler-panic",
                      "core-println-wide-negative": "wrong-output"}


def sum_boundary_programs():
    """#unwrap on the wrong variant (fault in main and in a callee), defers around faults and returns."""
    res = []
    OI = ("opt", I("i32"))
    for k_have, k_want in ((0, 1), (1, 1), (1, 0)):
        for st, mk in ((E_W, lambda k: ("inject", E_W, k, ("unit",) if k == 0 else ("int", I("i32"), 7))),
                       (OI, lambda k: ("inject", OI, k, ("unit",) if k == 0 else ("int", I("i32"), 8))),
                       (ERR_W, lambda k: ("inject", ERR_W, k, ("inject", E_W, 0, ("unit",)) if k == 0 else ("int", I("i64"), 9)))):
            pt = G.variants(st)[k_want]
            use = ("print", ("isvar", ("var", 1), k_want, st)) if pt in (G.VOID, E_W) else ("print", ("unwrap", ("var", 1), k_want, st))
            if pt in (G.VOID, E_W) and k_have == k_want:
                continue
            callee = {"tparams": 0, "cparams": [], "params": [(1, st)], "ret": G.VOID, "body":
                      ("block", None, G.VOID, (("defer", ("print", ("int", I("u8"), 1))), ("print", ("int", I("u8"), 2)), use,
                                               ("print", ("int", I("u8"), 3))), ("unit",))}
            main = {"tparams": 0, "cparams": [], "params": [], "ret": I("u8"), "body":
                    ("block", None, I("u8"), (("defer", ("print", ("int", I("u8"), 4))), ("call", 0, (), (), (mk(k_have),)),
                                              ("print", ("int", I("u8"), 5))), ("int", I("u8"), 40 + k_have))}
            res.append({"funs": [callee, main], "main": 1})
    # .try on a success and on nil / an error, in a callee with pending defers
    for st, ok, bad in ((OI, ("inject", OI, 1, ("int", I("i32"), 8)), ("inject", OI, 0, ("unit",))),
                        (ERR_W, ("inject", ERR_W, 1, ("int", I("i64"), 9)), ("inject", ERR_W, 0, ("inject", E_W, 1, ("int", I("i32"), 3))))):
        pt = G.variants(st)[1]
        callee = {"tparams": 0, "cparams": [], "params": [(1, st)], "ret": st, "body":
                  ("block", None, st, (("defer", ("print", ("int", I("u8"), 1))), ("let", 2, pt, False, ("try", ("var", 1))),
                                       ("print", ("var", 2)), ("defer", ("print", ("int", I("u8"), 3)))),
                   ("inject", st, 1, ("bin", "add", ("var", 2), ("int", pt, 1))))}
        show = lambda e, x: ("print", ("switch", I("u8"), e, x, (("int", I("u8"), 20), ("int", I("u8"), 21)), None, st))
        main = {"tparams": 0, "cparams": [], "params": [], "ret": G.VOID, "body":
                ("block", None, G.VOID, (show(("call", 0, (), (), (ok,)), 5), show(("call", 0, (), (), (bad,)), 6),
                                         show(("call", 0, (), (), (ok,)), 7)), ("unit",))}
        res.append({"funs": [callee, main], "main": 1})
    return res


def boundary_programs():
    """Deterministic programs at the edges of the defined faults and of integer arithmetic (always run)."""
    res = []
    S = ("struct", 2, (I("u8"), I("i64")))
    for n in (1, 2, 5):
        for et, mk in ((I("u8"), lambda k: ("int", I("u8"), k + 1)), (I("i64"), lambda k: ("int", I("i64"), -k - 1)),
                       (S, lambda k: ("struct", S, (("int", I("u8"), k), ("int", I("i64"), k * 3))))):
            at = ("arr", n, et)
            leaf = (lambda e: ("field", e, 1)) if et == S else (lambda e: e)
            for idx in (n - 1, n, n + 1):
                for write in (False, True):
                    body = [("let", 1, at, True, ("arr", et, tuple(mk(k) for k in range(n)))),
                            ("let", 2, G.USIZE, True, ("int", G.USIZE, idx)),
                            ("print", ("var", 2))]
                    if write:
                        body.append(("assign", ("index", ("var", 1), ("var", 2)), mk(7)))
                        body.append(("print", leaf(("index", ("var", 1), ("int", G.USIZE, n - 1)))))
                    else:
                        body.append(("print", leaf(("index", ("var", 1), ("var", 2)))))
                    body.append(("print", ("int", I("i32"), 77)))
                    res.append({"funs": [{"tparams": 0, "cparams": [], "params": [], "ret": I("i32"),
                                          "body": ("block", None, I("i32"), tuple(body), ("int", I("i32"), 300 + idx))}], "main": 0})
    # comparisons / division / shifts at the extremes of every width
    for name, (sg, w) in G.INTS.items():
        if w == 128:
            continue
        t = I(name)
        lo, hi = G.int_range(t)
        vals = [lo, lo + 1, -1, 0, 1, hi - 1, hi] if sg else [0, 1, 2, hi - 1, hi]
        body = []
        for k, z in enumerate(vals):
            body.append(("let", 10 + k, t, True, ("int", t, z)))
        for k in range(len(vals) - 1):
            a, b = ("var", 10 + k), ("var", 11 + k)
            for op in ("lt", "le", "gt", "ge", "eq", "ne"):
                body.append(("print", ("cmp", op, a, b)))
                body.append(("print", ("cmp", op, b, b)))
            body.append(("print", ("bin", "add", a, b)))
            body.append(("print", ("bin", "mul", a, b)))
            body.append(("print", ("bin", "sub", a, b)))
            body.append(("print", ("bin", "div", a, ("int", t, 3))))
            body.append(("print", ("bin", "rem", a, ("int", t, 3))))
            body.append(("print", ("bin", "shr", a, ("int", t, 1))))
            body.append(("print", ("bin", "shl", b, ("int", t, w - 1))))
            body.append(("print", ("bin", "xor", a, b)))
            if sg:
                body.append(("print", ("bin", "div", b, ("int", t, -3))))
                body.append(("print", ("bin", "rem", a, ("int", t, -3))))
        res.append({"funs": [{"tparams": 0, "cparams": [], "params": [], "ret": G.VOID,
                              "body": ("block", None, G.VOID, tuple(body), ("unit",))}], "main": 0})
    return res


# ------------------------------------------------------------------ feature detectors (classification)
def has_int128_sig(prog):
    def is128(t):
        return t[0] == "i" and G.INTS[t[1]][1] == 128
    return any(is128(f["ret"]) or any(is128(t) for _, t in f["params"]) for f in prog["funs"])


def aggregate_assign_reads_target(prog):
    """Some assignment `p = rhs` of array / struct type whose rhs builds a literal and mentions p's root."""
    found = []

    def mentions(e, x):
        if e[0] == "var" and e[1] == x:
            return True
        return any(mentions(y, x) for y in G.parts(e)[1])

    def has_lit(e):
        return e[0] in ("arr", "struct") or any(has_lit(y) for y in G.parts(e)[1])

    def walk(e):
        if e[0] == "assign":
            root = e[1]
            while root[0] != "var":
                root = root[1]
            if has_lit(e[2]) and mentions(e[2], root[1]):
                found.append(root[1])
        for y in G.parts(e)[1]:
            walk(y)
    for f in prog["funs"]:
        walk(f["body"])
    return found


def classify(prog, kind, impl):
    bo = impl.get("build_out", "")
    if kind in ("rejected", "compiler-panic"):
        if "i128 args/return values not supported" in bo and has_int128_sig(prog):
            return "int128-in-signature"
        if re.search(r"[us](div|rem)\.i128", bo) and G.has_div128(prog):
            return "int128-division-unsupported"
    if kind in ("wrong-output", "wrong-exit-status"):
        if G.casts_signed_to_wider_unsigned(prog):
            return "cast-signed-to-wider-unsigned"
        if aggregate_assign_reads_target(prog):
            return "aggregate-assign-reads-target"
    return "unexplained:" + kind


# ------------------------------------------------------------------ running
def to_tuple(x):
    if isinstance(x, list):
        return tuple(to_tuple(y) for y in x)
    return x


def load_prog(j):
    return {"main": j["main"], "funs": [{"tparams": f["tparams"], "cparams": [to_tuple(t) for t in f["cparams"]],
                                          "params": [(x, to_tuple(t)) for x, t in f["params"]],
                                          "ret": to_tuple(f["ret"]), "body": to_tuple(f["body"])} for f in j["funs"]]}


def corpus():
    res = []
    d = os.path.join(C.CORPUS, "C01")
    if os.path.isdir(d):
        for f in sorted(os.listdir(d)):
            if f.endswith(".json"):
                res.append(load_prog(json.load(open(os.path.join(d, f)))["prog"]))
    return res


def model(drv, progs):
    lines = [G.serialise(p, FUEL) for p in progs]
    return [G.parse_outcome(l) for l in C.run_lines([drv], lines, indexed=False)]


def run_all(capy, progs, style=0, popts=None):
    popts = popts or [{}] * len(progs)
    return C.parallel_map(lambda kp: G.build_and_run(capy, G.pretty(kp[1], style=(style + kp[0]) % 5, **popts[kp[0]])),
                          list(enumerate(progs)))


def shrink(drv, capy, prog, kind, max_rounds=14, width=48, popt=None):
    popt = popt or {}
    cp = bool(popt.get("core_print"))
    """Greedy AST shrinking that preserves the kind of mismatch."""
    cur = prog
    for _ in range(max_rounds):
        cands = [c for c in sorted(G.shrink_candidates(cur), key=G.size) if G.size(c) < G.size(cur)][:width * 3]
        found = None
        for k in range(0, len(cands), width):
            part = cands[k:k + width]
            outs = model(drv, part)
            ok = [(c, o) for c, o in zip(part, outs) if o["wt"] and o["kind"] in ("DONE", "FAULT")]
            impl = C.parallel_map(lambda co: G.build_and_run(capy, G.pretty(co[0], **popt)), ok)
            for (c, o), i in zip(ok, impl):
                m = G.compare(c, o, i, core_print=cp)
                if m and m[0] == kind:
                    found = c
                    break
            if found:
                break
        if not found:
            break
        cur = found
    return cur


def run(tier, seed):
    fl = Flow("C01", tier, seed, "translation_validation")
    v = fl.v
    fl.proof_stage()
    drv = fl.driver()
    capy = fl.capy()
    if drv and capy:
        n = 200 if tier == "quick" else 1200
        nprobe = 6 if tier == "quick" else 30
        rng = fl.rng.fork("programs")
        progs = corpus() + boundary_programs() + sum_boundary_programs()
        ncorpus = len(progs)
        hist = {}
        for i in range(n):
            g = G.Gen(rng.fork(str(i)))
            progs.append(g.program())
            for k, c in g.hist.items():
                hist[k] = hist.get(k, 0) + c
        origin = ["corpus"] * ncorpus + ["generated"] * n
        # probes: witnesses + random programs with one defect switch on each
        wit = witnesses()
        for cls, sw in PROBES:
            progs.append(wit[cls])
            origin.append("witness:" + cls)
            prng = fl.rng.fork("probe-" + sw)
            for i in range(nprobe):
                progs.append(G.Gen(prng.fork(str(i)), {sw: True}, max_funs=2, max_stmts=6).program())
                origin.append("probe:" + cls)
        popts = [{} for _ in progs]
        for cls, wp, po in printer_witnesses():
            progs.append(wp)
            origin.append("witness:" + cls)
            popts.append(po)
        # core.println sub-stream: the first generated programs again, printing through core.println
        nprintln = 16 if tier == "quick" else 160
        for i in range(min(nprintln, n)):
            progs.append(progs[ncorpus + i])
            origin.append("println")
            popts.append({"core_print": True})
        outs = model(drv, progs)
        impls = run_all(capy, progs, style=seed % 5, popts=popts)
        kinds = {}
        ill_typed = []
        stuck = []
        compared = 0
        diffs = 0
        first = None
        nontriv = set()
        sizes = {}
        nevents = 0
        mism = []
        for idx, (p, o, im, org) in enumerate(zip(progs, outs, impls, origin)):
            po = popts[idx]
            kinds[o["kind"]] = kinds.get(o["kind"], 0) + 1
            if not o["wt"]:
                ill_typed.append(idx)
                continue
            if o["kind"] == "STUCK" or o["kind"] == "ERROR":
                stuck.append(idx)
                continue
            if o["kind"] not in ("DONE", "FAULT"):
                continue          # TRAP (division by zero is not a language-defined fault) / FUEL: outside the property
            compared += 1
            nevents += len(o["events"])
            sz = G.size(p)
            b = "<100" if sz < 100 else "<300" if sz < 300 else "<1000" if sz < 1000 else ">=1000"
            sizes[b] = sizes.get(b, 0) + 1
            h, _ = G.features(p)
            if len(o["events"]) >= 3 and (h.get("while", 0) + h.get("loop", 0) + h.get("call", 0) + h.get("arr", 0) + h.get("struct", 0)) > 0:
                nontriv.add(C.sha(G.serialise(p)))
            m = G.compare(p, o, im, core_print=bool(po.get("core_print")))
            if m:
                mism.append((idx, p, o, im, m, org))
        nshrunk = 0
        for idx, p, o, im, m, org in mism:
            # shrinking recompiles many candidates: only the first few failing programs are shrunk
            if org.startswith("witness") or nshrunk >= (3 if tier == "quick" else 8):
                small = p
            else:
                nshrunk += 1
                small = shrink(drv, capy, p, m[0], max_rounds=10 if tier == "quick" else 30, width=32, popt=popts[idx])
            po = popts[idx]
            cp = bool(po.get("core_print"))
            so = model(drv, [small])[0]
            sim = G.build_and_run(capy, G.pretty(small, **po))
            sm = G.compare(small, so, sim, core_print=cp) or m
            cls = classify(small, sm[0], sim)
            wcls = org[len("witness:"):] if org.startswith("witness:") else None
            if wcls in PRINTER_CLASS_KIND:
                cls = wcls if sm[0] == PRINTER_CLASS_KIND[wcls] else "%s:%s" % (wcls, sm[0])
            elif cp and cls.startswith("unexplained") and sm[0] in ("wrong-output",) and any(
                    nm in ("i64", "isize") and z < -(1 << 32) for nm, z in so["events"]):
                cls = "core-println-wide-negative"
            elif cp and cls.startswith("unexplained"):
                cls = "println:" + cls
            payload = {"key": "e2e:" + C.sha(G.serialise(small)), "stream": "end-to-end", "origin": org,
                       "mismatch": sm[0], "detail": sm[1], "source": G.pretty(small, **po), "printer_options": po,
                       "program_ast": small, "serialised": G.serialise(small, FUEL),
                       "expected_outcome": so, "expected_stdout": G.render_events(so["events"], cp),
                       "got_stdout": sim["stdout"][-2000:], "got_exit": sim["rc"], "build_output": sim["build_out"][-1500:],
                       "original_size": G.size(p), "shrunk_size": G.size(small)}
            v.failing(cls, payload)
            if v.classify(cls) is None:
                diffs += 1
                first = first or {k: payload[k] for k in ("source", "mismatch", "detail", "expected_stdout", "got_stdout", "got_exit")}
        fl.stream("end-to-end: capy executable (stdout, exit status) vs eval_prog", compared, diffs, first)
        if ill_typed:
            fl.broken.append({"what": "generator produced programs rejected by the extracted well_typed (machinery bug)",
                              "count": len(ill_typed), "first": G.serialise(progs[ill_typed[0]], FUEL)[:3000]})
        if stuck:
            fl.broken.append({"what": "eval_prog got stuck on a well-typed program (contradicts C01_type_safety_partial) or driver error",
                              "count": len(stuck), "first": G.serialise(progs[stuck[0]], FUEL)[:3000]})
        # every known finding must be re-derived by its witness
        for cls in [c for c, _ in PROBES] + list(PRINTER_CLASS_KIND):
            f = v.classify(cls)
            if f is not None and f["id"] not in v.known_hits:
                v.notes.append({"known_finding_not_reproduced": f["id"], "class": cls,
                                "meaning": "the witness program of this open finding now behaves as the semantics prescribe"})
        v.coverage["evaluations"] += compared
        v.coverage["distinct_nontrivial"] += len(nontriv)
        v.coverage["programs"] = compared                    # programs compiled, run and compared with eval_prog
        v.coverage["disagreements_checked"] = len(mism)      # each one re-run, shrunk on the AST and classified
        v.coverage["programs_generated"] = n
        v.coverage["corpus_programs"] = ncorpus
        v.coverage["probe_programs"] = len(progs) - n - ncorpus
        v.coverage["println_substream_programs"] = origin.count("println")
        v.coverage["print_events_compared"] = nevents
        v.coverage["model_outcomes"] = kinds
        v.coverage["skipped_trap_or_fuel"] = kinds.get("TRAP", 0) + kinds.get("FUEL", 0)
        v.coverage["histograms"] = {"generator_constructs": hist, "program_size_nodes": sizes}
        v.coverage["generator_switches_off_by_default"] = {
            "div128": "C01-1", "int128_in_signatures": "C01-2",
            "aggregate_assign_reads_target": "C01-3",
            "printer: direct_variants": "C01-5 / C01-6 (variant values written directly into E!T)",
            "printer: inline_patterns": "C01-7 (`[2]usize =>` switch arm pattern)",
            "not generated at all": "unannotated literals above i32::MAX (C09), break/continue across pending defers (C03), "
                                    "(defer, switch, enums and variant->enum casts ARE generated since the fixes in /repo 1af504c)"}
        v.coverage["rule"] = ("%d random well-typed CapyCore programs (1-5 functions, <= 12 globals, nesting <= 6, loops <= 64 iterations, "
                              "ints of all 12 types, bool, arrays, structs, enums with payloads, optionals, error unions, switch with "
                              "argument and default arm, #is_variant / #unwrap, .try, defer, labelled break/continue, blocks with values, "
                              "recursion, bounds-checked indexing) + a core.println sub-stream (the first programs again, printing through "
                              "core.println) + corpus + %d probe programs with one known-defect switch on; each is checked by the "
                              "extracted well_typed, evaluated by the extracted eval_prog (fuel %d), compiled by the real capy and run; "
                              "compared: stdout and exit status (fault message + exit 1 for out-of-bounds). non-trivial = >= 3 print "
                              "events and at least one loop / call / array / struct; distinct by serialised AST"
                              % (n, len(progs) - n - ncorpus, FUEL))
        v.add_samples([{"source": G.pretty(progs[ncorpus + i])[len(G.PRELUDE):][:1500], "model": outs[ncorpus + i]["kind"],
                        "events": len(outs[ncorpus + i]["events"])} for i in range(min(2, n))])
    v.assumptions = ["the language semantics is the one defined by eval_prog in coq/Common/CapyCore.v (two's complement wrap-around, truncating "
                     "division, shift amounts masked by width-1, left-to-right evaluation, place index before right-hand side, by-value "
                     "aggregates); it was written from the README and from observing the compiler, and is the specification here",
                     "covered fragment: integers of every width, bool, locals, assignment, if/else, while/loop, labelled break/continue, "
                     "blocks with values, functions/recursion, return, arrays with bounds checks, structs, casts, defer (exactly once, LIFO, on "
                     "every exit path), enums with payloads, variant->enum injection, switch with argument and default arm, #is_variant, "
                     "#unwrap (abort fault), optionals, error unions, .try; NOT yet in CapyCore: char, slices, pointers, lambdas, varargs, floats",
                     "division by zero and MIN / -1 trap the machine (SIGFPE); they are outcome Trap of the model, avoided by the generator and skipped",
                     "the pretty printer and the Capy printing prelude (decimal / hex printers over libc putchar) are trusted glue; the prelude is itself compiled by the compiler under test",
                     "x86-64 target: isize/usize are 64 bits"]
    return fl.finish()


def replay(path):
    r = json.load(open(path))
    print(json.dumps({k: r[k] for k in r if k not in ("program_ast",)}, indent=1)[:6000])
    return 0
