"""C27 — Distinct compiled entities get distinct symbol names (DESIGN.md C27).

Streams
  1. exhaustive: every path of <= 3 components over the name pool (below the
     working directory and below the module directory) x a fixed set of
     descriptor shapes: real mangled string (codegen::verif_mangle hook) vs the
     extracted model; the extracted decoder run on the implementation's strings.
  2. random descriptors (names, lambda/comptime indices and generic ids < 1000,
     owners, files outside both directories).
  3. internal names: mangle_internal / builtin names vs model.
  4. end to end: projects with a colliding / a non-colliding pair of files through
     the real `capy build` (DuplicateDefinition expected exactly when the model
     predicts a collision).
Direct oracle: pairwise collision search (hashing) over the implementation's
outputs; every collision between different entities is classified by the
extracted classifier `explain_collision` into narrow mechanisms; plus a regex
test that no mangled name is a compiler-internal name.
"""
import json
import os
import re
import shutil
import subprocess
import tempfile

from .. import common as C
from ..flow import Flow

POOL_QUICK = ["1", "f1", "m1", "a", "b", "a.b", "a-b", "src", "x9", "9x", "b.capy", "é"]
POOL_THOROUGH = POOL_QUICK + [".capy", "..", "a.b.c", "1.5", "f1-5", "0", "F1", "a-b-c"]
GLOBAL_NAMES = ["foo", "n1", "f1", "main", "x", "_9", "été"]
MECH = {0: "unexplained", 1: "digit-escape", 2: "dot-dash", 3: "src-drop", 4: "mod-src-drop", 5: "capy-strip"}
INTERNAL_RE = re.compile(r"^(main|_CI\d+.*E|\.str_\d+|\.i128_\d+|\.member_str\d+)$", re.S)
MAX_VIOL_PER_CLASS = 3


def hx(s):
    return s.encode("utf-8").hex()


def unhx(h):
    try:
        return bytes.fromhex(h).decode("utf-8", "replace")
    except ValueError:
        return h


class Desc:
    """file: absolute path; base 'G'/'L'; v: name or index; owner: None | (file, name);
    generic: None | int; tail: None | ('Z', i) | ('I', i, name)"""
    __slots__ = ("file", "base", "v", "owner", "generic", "tail")

    def __init__(self, file, base, v, owner=None, generic=None, tail=None):
        self.file, self.base, self.v, self.owner, self.generic, self.tail = file, base, v, owner, generic, tail

    def fields(self):
        return [hx(self.file), self.base, hx(self.v) if self.base == "G" else str(self.v),
                "-" if self.owner is None else hx(self.owner[0]) + ":" + hx(self.owner[1]),
                "-" if self.generic is None else str(self.generic),
                "-" if self.tail is None else
                ("Z:%d" % self.tail[1] if self.tail[0] == "Z" else "I:%d:%s" % (self.tail[1], hx(self.tail[2])))]

    def show(self, cwd=None):
        f = self.file
        if cwd and f.startswith(cwd + "/"):
            f = f[len(cwd) + 1:]
        s = "%s::%s" % (f, self.v if self.base == "G" else "lambda#%s" % self.v)
        if self.owner:
            s += "(owner %s::%s)" % self.owner
        if self.generic is not None:
            s += "<generic %d>" % self.generic
        if self.tail:
            s += " comptime#%d" % self.tail[1] + (".%s" % self.tail[2] if self.tail[0] == "I" else "")
        return s


def shapes(file):
    return [
        Desc(file, "G", "foo"), Desc(file, "G", "n1"), Desc(file, "G", "foo", generic=7),
        Desc(file, "G", "foo", tail=("Z", 3)), Desc(file, "G", "foo", generic=999, tail=("I", 12, "init_flag")),
        Desc(file, "G", "foo", tail=("I", 0, "value")),
        Desc(file, "L", 0), Desc(file, "L", 12, generic=5), Desc(file, "L", 999, tail=("Z", 0)),
        Desc(file, "L", 3, generic=998, tail=("I", 999, "value")),
        Desc(file, "L", 4, owner=(file, "foo")),
    ]


def rel_paths(pool, maxc=3):
    out = []

    def go(prefix, depth):
        for n in pool:
            out.append(prefix + [n + ".capy"])
        if depth + 1 < maxc:
            for n in pool:
                go(prefix + [n], depth + 1)
    go([], 0)
    return out


def impl_line(md, d):
    return "\t".join(["D", hx(md)] + d.fields())


def model_line(md, cwd, d, impl=None):
    l = ["D", hx(md), hx(cwd)] + d.fields()
    if impl is not None:
        l.append(impl)
    return "\t".join(l)


def capy_project(capy, pair, tag):
    """Builds main.capy importing the two relative paths; returns (status, output)."""
    d = tempfile.mkdtemp(prefix="verif-c27-")
    try:
        for k, rel in enumerate(pair):
            p = os.path.join(d, rel)
            os.makedirs(os.path.dirname(p), exist_ok=True)
            with open(p, "w") as f:
                f.write("foo :: () -> i32 { %d }\n" % (k + 1))
        with open(os.path.join(d, "main.capy"), "w") as f:
            f.write('core :: #mod("core");\na :: #import("%s");\nb :: #import("%s");\n'
                    'main :: () -> i32 {\n    core.println(a.foo());\n    core.println(b.foo());\n    0\n}\n' % pair)
        rc, out = C.run([capy, "build", "main.capy", "--mod-dir", C.REPO], cwd=d, timeout=120)
        out = "\n".join(l for l in out.split("\n") if not l.startswith("split_aggregate"))
        if rc == 0 and os.path.exists(os.path.join(d, "out", "main")):
            rc2, out2 = C.run([os.path.join(d, "out", "main")], cwd=d, timeout=20)
            return ("ran:%d:%s" % (rc2, out2.strip().replace("\n", ",")), out[-600:])
        m = re.search(r"DuplicateDefinition\(\"([^\"]*)\"\)", out)
        if m:
            return ("DuplicateDefinition:" + m.group(1), out[-600:])
        return ("build-failed:%d" % rc, out[-600:])
    finally:
        shutil.rmtree(d, ignore_errors=True)


def run(tier, seed):
    fl = Flow("C27", tier, seed, "proof")
    v = fl.v
    fl.proof_stage()
    drv = fl.driver()
    har = fl.harness("h_c27")
    cwd = tempfile.mkdtemp(prefix="verif-c27-cwd-")
    try:
        if drv and har:
            _streams(fl, v, tier, drv, har, cwd)
    finally:
        shutil.rmtree(cwd, ignore_errors=True)
    v.assumptions = [
        "modelled: crates/codegen/src/mangle.rs completely (all Mangle impls, add_part, create_mangled_for_file, mangle_internal) "
        "and FileName::get_components / SubDir::is_sub_dir_of / Path::strip_prefix of hir/src/common/names.rs",
        "strings are UTF-8 byte lists; paths are lists of Normal components of absolute clean paths (what crates/capy creates); "
        "Prefix components (Windows) and non-UTF-8 names are not modelled; the split at '/' is driver glue",
        "usize overflow of text.len()+1 is not modelled (needs a 2^64-byte name)",
        "Internal = {main, _CI<n><name>E, .str_<n>, .i128_<n>, .member_str<n>}; user-chosen `extern` symbol names are outside the statement",
        "a lambda that is the body of a global deliberately shares the global's symbol (same entity); GLOBAL_LAMBDAS is an input of the model (owner field)",
        "collision classes are decided by the extracted classifier explain_collision (unverified except on the witnesses; "
        "the verified statements are decode_mangle / injectivity on Safe / not-internal)",
    ]
    return fl.finish()


def _streams(fl, v, tier, drv, har, cwd):
    cov = v.coverage
    pool = POOL_QUICK if tier == "quick" else POOL_THOROUGH
    md = cwd + "/mods"          # module directory INSIDE the working directory (module test comes first)
    viol_count = {}

    def failing(cls, payload):
        if v.classify(cls) is None:
            viol_count[cls] = viol_count.get(cls, 0) + 1
            if viol_count[cls] > MAX_VIOL_PER_CLASS:
                return
        v.failing(cls, payload)

    # ---- corpus + stream 1: exhaustive ------------------------------------------------
    descs = []
    corpus = []
    cfile = os.path.join(C.CORPUS, "C27", "pairs.json")
    if os.path.exists(cfile):
        for ent in json.load(open(cfile))["pairs"]:
            for rel in ent["files"]:
                base = md if ent.get("module") else cwd
                corpus.append(Desc(base + "/" + rel, "G", "foo"))
    descs += corpus
    rels = rel_paths(pool)
    for rel in rels:
        descs += shapes(cwd + "/" + "/".join(rel))
    for rel in rels:
        descs += shapes(md + "/" + "/".join(rel))
    n_exh = len(descs)

    # ---- stream 2: random ----------------------------------------------------------------
    rng = fl.rng.fork("random")
    n_rand = 4000 if tier == "quick" else 150000
    big_pool = POOL_THOROUGH + ["core", "mod", "main", "l1", "z1", "g1", "i1", "n1", "x.y", "-", "--1", "1-", "src.capy"]
    for _ in range(n_rand):
        k = rng.range(1, 3)
        comps = [rng.choice(big_pool) for _ in range(k - 1)] + [rng.choice(big_pool) + ".capy"]
        r = rng.below(20)
        base = "/elsewhere" if r == 0 else (md if r < 8 else cwd)
        f = base + "/" + "/".join(comps)
        generic = rng.below(1000) if rng.chance(1, 2) else None
        t = rng.below(3)
        tail = None if t == 0 else (("Z", rng.below(1000)) if t == 1 else
                                     ("I", rng.below(1000), rng.choice(["init_flag", "value", "i1", "1"])))
        if rng.chance(1, 2):
            d = Desc(f, "G", rng.choice(GLOBAL_NAMES), generic=generic, tail=tail)
        else:
            owner = None
            if rng.chance(1, 4):
                owner = (f if rng.chance(3, 4) else cwd + "/other.capy", rng.choice(GLOBAL_NAMES))
            d = Desc(f, "L", rng.below(1000), owner=owner, generic=generic, tail=tail)
        descs.append(d)

    # ---- stream 2b: adjacent numeric ids whose decimal digits can be split differently ---------
    # (lambda#1<generic 23> vs lambda#12<generic 3>, foo<1>/comptime#23 vs foo<12>/comptime#3, ...):
    # every combination of a small id set in every multi-id descriptor shape of one file
    ids = [0, 1, 2, 3, 9, 10, 11, 12, 19, 21, 23, 31, 99, 100, 101, 110, 111, 112, 123, 231, 311, 999]
    f0 = cwd + "/demo.capy"
    for a in ids:
        for b in ids:
            descs.append(Desc(f0, "L", a, generic=b))
            descs.append(Desc(f0, "L", a, tail=("Z", b)))
            descs.append(Desc(f0, "G", "foo", generic=a, tail=("Z", b)))
            descs.append(Desc(f0, "G", "foo", generic=a, tail=("I", b, "value")))
            descs.append(Desc(f0, "L", a, tail=("I", b, "value")))
    ids3 = [1, 2, 3, 11, 12, 21, 23, 31, 111, 112, 123]
    for a in ids3:
        for b in ids3:
            for c in ids3:
                descs.append(Desc(f0, "L", a, generic=b, tail=("Z", c)))
                descs.append(Desc(f0, "L", a, generic=b, tail=("I", c, "init_flag")))

    impl = C.run_lines([har, cwd], [impl_line(md, d) for d in descs])
    model = C.run_lines([drv], [model_line(md, cwd, d, i) for d, i in zip(descs, impl)], indexed=False)
    if len(impl) != len(descs) or len(model) != len(descs):
        fl.broken.append({"what": "tool output length mismatch", "impl": len(impl), "model": len(model), "cases": len(descs)})
        return
    diffs = [0, 0]
    first = [None, None]
    dec_cases = dec_diffs = 0
    dec_first = None
    nontrivial = set()
    safe_n = wf_n = 0
    hist = {"G": 0, "L": 0, "generic": 0, "comptime": 0, "data": 0, "owner": 0, "module": 0, "crash": 0}
    groups = {}
    malformed = 0
    plain = re.compile(r"^[a-z]+(\.capy)?$")
    for k, (d, i, m) in enumerate(zip(descs, impl, model)):
        mf = m.split("\t")
        if len(mf) < 5:
            # the model driver could not process this case (e.g. the verified decoder runs out of
            # stack on an implementation string of an unexpected shape): a broken correspondence,
            # but the collision search on the implementation's own symbols below still runs
            malformed += 1
            if malformed == 1:
                fl.broken.append({"what": "model driver output malformed", "line": m, "case": d.show(cwd)})
            mf = ["?", "0", "0", "?", "?"]
        mstr, safe, wf, dec_model, dec_impl = mf[:5]
        stream = 0 if k < n_exh else 1
        hist[d.base] += 1
        hist["generic"] += d.generic is not None
        hist["comptime"] += d.tail is not None and d.tail[0] == "Z"
        hist["data"] += d.tail is not None and d.tail[0] == "I"
        hist["owner"] += d.owner is not None
        hist["module"] += d.file.startswith(md + "/")
        safe_n += safe == "1"
        wf_n += wf == "1"
        if i.startswith("PANIC:") and "unreachable" in i:
            canon = "CRASH1"
            hist["crash"] += 1
        else:
            canon = i
        if canon != mstr:
            diffs[stream] += 1
            if first[stream] is None:
                first[stream] = {"descriptor": d.show(cwd), "case_line": impl_line(md, d), "cwd": cwd, "implementation": unhx(i),
                                 "model": unhx(mstr)}
        comps = d.file.split("/")[1:]
        if not all(plain.match(c) for c in comps[-3:]):
            nontrivial.add((d.file, d.base, d.v, d.generic, d.tail, d.owner))
        if i.startswith("PANIC") or i.startswith("!") or i.startswith("MISMATCH"):
            if i.startswith("MISMATCH"):
                failing("mangle-impls-disagree", {"key": "mis:" + d.show(cwd), "descriptor": d.show(cwd),
                                                  "case_line": impl_line(md, d), "implementation": i})
            continue
        name = unhx(i)
        # direct oracle A: never an internal name
        if INTERNAL_RE.match(name):
            failing("internal-name-clash", {"key": "internal:" + name, "descriptor": d.show(cwd),
                                            "case_line": impl_line(md, d), "mangled": name})
        # decoder on the implementation's string (Safe descriptors: must give the descriptor back)
        if safe == "1":
            dec_cases += 1
            if dec_impl != "1":
                dec_diffs += 1
                if dec_first is None:
                    dec_first = {"descriptor": d.show(cwd), "implementation": name, "model": unhx(mstr),
                                 "decode(model string)=d": dec_model}
        groups.setdefault(i, []).append(k)

    fl.stream("exhaustive paths<=3 over %d names x %d shapes (cwd + module dir) incl. corpus" % (len(pool), len(shapes("x"))),
              n_exh, diffs[0], first[0])
    fl.stream("random descriptors (indices, generic ids < 1000)", len(descs) - n_exh, diffs[1], first[1])
    fl.stream("verified decoder on the implementation's strings (Safe descriptors)", dec_cases, dec_diffs, dec_first)
    cov["exhaustive"] = True

    # ---- direct oracle B: pairwise collision search -------------------------------------------
    pairs = []
    for s, ks in groups.items():
        if len(ks) < 2:
            continue
        seen = {}
        for k in ks:
            d = descs[k]
            key = tuple(d.fields())
            if key not in seen:
                seen[key] = k
        ks2 = list(seen.values())
        for k in ks2[1:]:
            pairs.append((ks2[0], k, s))
    cap = 30000 if tier == "quick" else 400000
    if len(pairs) > cap:
        # keep every group represented: stable subsample
        step = len(pairs) / float(cap)
        pairs = [pairs[int(j * step)] for j in range(cap)]
    xl = ["\t".join(["X", hx(md), hx(cwd)] + descs[a].fields() + descs[b].fields()) for a, b, _ in pairs]
    xr = C.run_lines([drv], xl, indexed=False)
    mech_hist = {}
    examples = {}
    collisions = 0
    if len(xr) != len(xl):
        fl.broken.append({"what": "classifier output length mismatch"})
    else:
        for (a, b, s), r in zip(pairs, xr):
            rf = r.split("\t")
            if len(rf) != 2:
                fl.broken.append({"what": "classifier output malformed", "line": r})
                break
            if rf[1] == "1":
                continue          # same entity (lambda owned by the global)
            collisions += 1
            ms = [int(x) for x in rf[0].split(",") if x != ""]
            if not ms:
                ms = [0]
            for mch in ms:
                cls = "collision:" + MECH.get(mch, "unexplained")
                mech_hist[cls] = mech_hist.get(cls, 0) + 1
                payload = {"key": "%s:%s" % (cls, unhx(s)), "what": "two different entities get the same symbol",
                           "symbol": unhx(s), "entity_1": descs[a].show(cwd), "entity_2": descs[b].show(cwd),
                           "mechanisms": [MECH.get(x, "?") for x in ms], "module_dir": "<cwd>/mods", "cwd": cwd,
                           "case_lines": [impl_line(md, descs[a]), impl_line(md, descs[b])],
                           "expected": "different symbol names", "model": "the model collides as well"
                           if model[a].split("\t")[0] == model[b].split("\t")[0] else "the model does NOT collide"}
                if cls not in examples and len(ms) == 1:
                    examples[cls] = (a, b, payload)
                failing(cls, payload)
    cov["collisions_found"] = collisions
    cov["collision_mechanisms"] = mech_hist
    cov["collision_pairs_classified"] = len(pairs)

    # ---- stream 3: internal names ----------------------------------------------------------------
    names = ["ptr_bitcast", "commandline_args", "struct_member_info", "enum_variant_tys", "array_layout_array",
             "x", "", "1", "0123456789ab", "é", "i8_bitcast"]
    il = ["N\t" + hx(n) for n in names]
    ii = C.run_lines([har, cwd], il + ["B\t" + hx(md)])
    im = C.run_lines([drv], il, indexed=False)
    idiff = sum(1 for a, b in zip(ii, im) if a != b)
    ifirst = next(({"name": n, "implementation": unhx(a), "model": unhx(b)} for n, a, b in zip(names, ii, im) if a != b), None)
    for a in ii[:len(il)] + (ii[-1].split("|") if ii and not ii[-1].startswith(("!", "PANIC")) else []):
        if not INTERNAL_RE.match(unhx(a)):
            idiff += 1
            ifirst = ifirst or {"what": "internal name outside the Internal set of the spec", "name": unhx(a)}
    fl.stream("mangle_internal / builtin names", len(il) + 1, idiff, ifirst)

    # ---- stream 4: end to end through `capy build` -----------------------------------------------
    e2e = []
    for cls, (a, b, payload) in sorted(examples.items()):
        da, db = descs[a], descs[b]
        if da.base == "G" and db.base == "G" and da.file.startswith(cwd + "/") and db.file.startswith(cwd + "/") \
                and not da.file.startswith(md + "/") and da.generic is None and da.tail is None:
            e2e.append((cls, da.file[len(cwd) + 1:], db.file[len(cwd) + 1:], True))
    e2e.append(("control", "a/x.capy", "b/x.capy", False))
    e2e.append(("control", "x9/a.capy", "9x/a.capy", False))
    if tier != "quick":
        e2e.append(("control", "a/b/x.capy", "a-b/x.capy", False))
    capy = fl.capy()
    if capy:
        res = C.parallel_map(lambda t: capy_project(capy, (t[1], t[2]), t[0]), e2e)
        ediff = 0
        efirst = None
        for (cls, p1, p2, collide), (status, out) in zip(e2e, res):
            ok_run = status == "ran:0:1,2"
            if collide != (not ok_run):
                ediff += 1
                efirst = efirst or {"files": [p1, p2], "model_predicts_collision": collide, "capy": status, "output": out}
            if not ok_run:
                failing(cls if collide else "e2e-build-fails-without-collision",
                        {"key": "e2e:%s:%s" % (p1, p2), "what": "program with two files defining `foo` does not build/run",
                         "files": [p1, p2], "capy": status, "output": out, "expected": "prints 1 and 2",
                         "model_predicts_collision": collide})
        fl.stream("end to end `capy build` of colliding / non-colliding file pairs", len(e2e), ediff, efirst)
        cov["e2e_programs"] = [{"files": [p1, p2], "capy": st} for (c, p1, p2, _), (st, _) in zip(e2e, res)]

    cov["evaluations"] += len(descs) + len(pairs) + len(il) + len(e2e)
    cov["distinct_nontrivial"] += len(nontrivial)
    cov["descriptor_histogram"] = hist
    cov["safe_descriptors"] = safe_n
    cov["wf_descriptors"] = wf_n
    cov["name_pool"] = pool
    cov["rule"] = ("every path of <= 3 components over the %d-name pool, below the working directory and below the module "
                   "directory, x %d descriptor shapes (naive/concrete global, naive/concrete lambda with and without owner, "
                   "comptime, comptime data) + %d random descriptors with indices and generic ids < 1000; non-trivial = "
                   "some path component is not purely lower-case letters (digit, dot, dash, src, non-ASCII)"
                   % (len(pool), len(shapes("x")), n_rand))
    v.add_samples([{"descriptor": descs[k].show(cwd), "implementation": unhx(impl[k]), "model": unhx(model[k].split("\t")[0])}
                   for k in (0, n_exh // 3, n_exh // 2, n_exh - 1, len(descs) - 1)])


def replay(path):
    r = json.load(open(path))
    print(json.dumps(r, indent=1, ensure_ascii=False))
    lines = r.get("case_lines") or ([r["case_line"]] if "case_line" in r else [])
    if lines:
        from .. import cargotools
        ok, out, har = cargotools.build_harness("h_c27")
        if ok:
            cwd = tempfile.mkdtemp(prefix="verif-c27-cwd-")
            try:
                # the recorded paths contain the scratch cwd of the original run; rebase them
                old = r.get("cwd")
                if old:
                    lines = [l.replace(hx(old), hx(cwd)) for l in lines]
                res = C.run_lines([har, cwd], lines, workers=1)
                for l, o in zip(lines, res):
                    print("implementation now:", unhx(o))
            finally:
                shutil.rmtree(cwd, ignore_errors=True)
    return 0
