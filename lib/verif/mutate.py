"""Input generators shared by C06 / C07 / C21.

* corpus():           source texts found in /repo (examples, core, parser fixtures, hir/hir_ty/codegen
                      test snippets) -- deterministic order
* ProgGen:            generator of well-typed, terminating, core-free Capy programs with exactly one `main`;
                      with `sabotage=k` the k-th choice point produces ONE type- / mutability- / const- /
                      scope-breaking construct (near-valid program), everything else stays the same
* text mutators:      token-level mutations of arbitrary source text, random UTF-8, deep nesting
* run_capy():         one child-process run of the real `capy build` with classification of the outcome
                      (exit status / signal / panic site `file:line` / Cranelift verifier text / timeout)

Every function is a pure function of the `Rng` it is given (common.Rng, splitmix64)."""
import glob
import os
import re
import shutil
import signal
import subprocess
import tempfile

from . import common as C

# ----------------------------------------------------------------------------------------------
# corpus
# ----------------------------------------------------------------------------------------------

_RAW = re.compile(r'(?:check|check_impl|check_raw|check_raw_with_args|check_files|check_with_entry)\s*\(\s*r#"(.*?)"#', re.S)


def _dedent(s):
    lines = s.split("\n")
    ind = None
    for l in lines:
        if l.strip():
            k = len(l) - len(l.lstrip(" "))
            ind = k if ind is None else min(ind, k)
    ind = ind or 0
    return "\n".join(l[ind:] if len(l) >= ind else l.lstrip(" ") for l in lines).strip("\n") + "\n"


_corpus_cache = {}


def corpus(kinds=("examples", "core", "parser", "hir_ty", "codegen", "hir")):
    """[(tag, text)] in a deterministic order.  Multi-file test snippets (`#- name`) are skipped."""
    key = tuple(kinds)
    if key in _corpus_cache:
        return list(_corpus_cache[key])
    out = []
    R = C.REPO

    def rd(p):
        try:
            return open(p, encoding="utf-8").read()
        except Exception:
            return None
    if "examples" in kinds:
        for f in sorted(glob.glob(os.path.join(R, "examples", "*.capy"))):
            t = rd(f)
            if t is not None:
                out.append(("examples/" + os.path.basename(f), t))
    if "core" in kinds:
        for f in sorted(glob.glob(os.path.join(R, "core", "src", "**", "*.capy"), recursive=True)):
            t = rd(f)
            if t is not None:
                out.append(("core/" + os.path.relpath(f, os.path.join(R, "core", "src")), t))
    if "parser" in kinds:
        for f in sorted(glob.glob(os.path.join(R, "crates", "parser", "src", "tests", "*", "*.test"))):
            t = rd(f)
            if t is not None:
                out.append(("parser/" + os.path.basename(f), t.split("\n===\n")[0] + "\n"))
    srcs = []
    if "hir_ty" in kinds:
        srcs += [("hir_ty", f) for f in sorted(glob.glob(os.path.join(R, "crates", "hir_ty", "src", "tests", "*.rs")))]
    if "codegen" in kinds:
        srcs += [("codegen", os.path.join(R, "crates", "codegen", "src", "tests.rs"))]
    if "hir" in kinds:
        srcs += [("hir", os.path.join(R, "crates", "hir", "src", "body.rs"))]
    for tag, f in srcs:
        t = rd(f)
        if t is None:
            continue
        for i, m in enumerate(_RAW.finditer(t)):
            s = m.group(1)
            if "#- " in s:
                continue
            out.append(("%s/%s#%d" % (tag, os.path.basename(f), i), _dedent(s)))
    _corpus_cache[key] = out
    return list(out)


_MAIN_DEF = re.compile(r"(?m)^\s*main\s*:\s*[^:=\n]*[:=]")


def has_main(text):
    return _MAIN_DEF.search(text) is not None


def ensure_main(text):
    """Append a trivial entry point when the snippet defines no global `main`."""
    if has_main(text):
        return text
    return text.rstrip("\n") + "\n\nmain :: () {}\n"


# ----------------------------------------------------------------------------------------------
# generator of well-typed programs
# ----------------------------------------------------------------------------------------------

INTS = ["i8", "i16", "i32", "i64", "u8", "u16", "u32", "u64", "isize", "usize"]
INT_MAX = {"i8": 127, "i16": 32767, "i32": 2 ** 31 - 1, "i64": 2 ** 63 - 1, "u8": 255, "u16": 65535,
           "u32": 2 ** 32 - 1, "u64": 2 ** 63 - 1, "isize": 2 ** 31 - 1, "usize": 2 ** 31 - 1}
SAB_KINDS = ("type", "mut", "const", "scope")


def ty_str(t):
    k = t[0]
    if k in ("int", "float", "named"):
        return t[1]
    if k == "bool":
        return "bool"
    if k == "arr":
        return "[%d]%s" % (t[1], ty_str(t[2]))
    if k == "ptr":
        return ("^mut " if t[1] else "^") + ty_str(t[2])
    if k == "opt":
        return "?" + ty_str(t[1])
    raise ValueError(t)


BOOL = ("bool",)


def INT(n):
    return ("int", n)


class ProgGen:
    """Well-typed program generator.  `sabotage`: None (valid program) or an index of a choice point."""

    def __init__(self, rng, sabotage=None, want_kind=None, size=3, with_core=False):
        self.rng = rng
        self.sab = sabotage
        self.want_kind = want_kind
        self.points = 0
        self.point_kinds = []
        self.sab_kind = None
        self.sab_desc = None
        self.size = size
        self.with_core = with_core
        self.uid = 0
        self.structs = {}     # name -> [(field, ty)]
        self.distincts = {}   # name -> base ty
        self.enums = {}       # name -> [(variant, payload ty or None)]
        self.funcs = []       # (name, [param tys], ret ty)
        self.consts = []      # (name, ty)
        self.scopes = []      # list of dict name -> (ty, mutable)
        self.features = {}
        self.text = self._program()

    # -- helpers ---------------------------------------------------------------
    def feat(self, k):
        self.features[k] = self.features.get(k, 0) + 1

    def fresh(self, p):
        self.uid += 1
        return "%s%d" % (p, self.uid)

    def point(self, kind):
        """A choice point that could be sabotaged with `kind`.  True iff this one is."""
        i = self.points
        self.points += 1
        self.point_kinds.append(kind)
        if self.sab is not None and i == self.sab:
            self.sab_kind = kind
            return True
        return False

    def vars_of(self, ty, mutable=None):
        r = []
        for sc in self.scopes:
            for n, (t, m, _locked) in sc.items():
                if t == ty and (mutable is None or m == mutable) and not (mutable and _locked):
                    r.append(n)
        return r

    def all_vars(self):
        r = []
        for sc in self.scopes:
            r += [(n, t, m, l) for n, (t, m, l) in sc.items()]
        return r

    def bind(self, name, ty, mutable, locked=False):
        self.scopes[-1][name] = (ty, mutable, locked)

    def scalar_ty(self):
        r = self.rng
        k = r.below(10)
        if k < 6:
            return INT(r.choice(INTS[:8] if r.chance(5, 6) else INTS))
        if k < 8:
            return BOOL
        return ("float", r.choice(["f32", "f64"]))

    def any_ty(self, depth=0):
        r = self.rng
        k = r.below(12)
        if k < 7 or depth > 1:
            return self.scalar_ty()
        if k == 7:
            return ("arr", r.range(1, 4), self.any_ty(depth + 1))
        if k == 8 and self.structs:
            return ("named", r.choice(sorted(self.structs)))
        if k == 9 and self.distincts:
            return ("named", r.choice(sorted(self.distincts)))
        if k == 10 and self.enums:
            return ("named", r.choice(sorted(self.enums)))
        return self.scalar_ty()

    # -- expressions --------------------------------------------------------------
    def lit(self, ty):
        r = self.rng
        k = ty[0]
        if k == "int":
            return str(r.below(min(INT_MAX[ty[1]], 100) + 1))
        if k == "bool":
            return r.choice(["true", "false"])
        if k == "float":
            return "%d.%d" % (r.below(50), r.below(100))
        if k == "arr":
            return "%s.[%s]" % (ty_str(ty[2]), ", ".join(self.expr(ty[2], 9) for _ in range(ty[1])))
        if k == "named":
            n = ty[1]
            if n in self.structs:
                return "%s.{ %s }" % (n, ", ".join("%s = %s" % (f, self.expr(t, 9)) for f, t in self.structs[n]))
            if n in self.distincts:
                return "%s.(%s)" % (n, self.expr(self.distincts[n], 9))
            if n in self.enums:
                v, p = r.choice(self.enums[n])
                if p is None:
                    return "%s.%s" % (n, v)
                return "%s.%s.(%s)" % (n, v, self.expr(p, 9))
        if k == "opt":
            if r.chance(1, 3):
                return "%s.(nil)" % ty_str(ty)
            return "%s.(%s)" % (ty_str(ty), self.expr(ty[1], 9))
        if k == "ptr":
            raise ValueError("no literal of pointer type")
        raise ValueError(ty)

    def wrong_expr(self, ty):
        """An expression that cannot be used where `ty` is expected."""
        r = self.rng
        k = ty[0]
        if k == "bool":
            return r.choice(["1", "2.5", "\"s\"", "i32.(1)"])
        if k == "int":
            c = ["true", "\"text\"", "1.5", "f64.(2.0)", "'a' == 'a'"]
            if ty[1] in ("i8", "u8", "i16", "u16", "i32", "u32"):
                c.append("i64.(7)" if ty[1][0] == "i" else "u64.(7)")
            if ty[1][0] == "u":
                c.append("i8.(-1)")
            if self.structs:
                c.append(self._valid_of(("named", sorted(self.structs)[0])))
            return r.choice(c)
        if k == "float":
            return r.choice(["true", "\"f\"", "i32.(1)"])
        if k == "arr":
            return r.choice(["1", "true", "%s.[%s]" % (ty_str(ty[2]), ", ".join([self._valid_of(ty[2])] * (ty[1] + 1)))])
        if k == "named":
            others = [n for n in list(self.structs) + list(self.distincts) + list(self.enums) if n != ty[1]]
            c = ["true", "\"n\""]
            if ty[1] not in self.distincts:
                c.append("1")
            if others:
                c.append(self._valid_of(("named", sorted(others)[0])))
            return r.choice(c)
        return "true"

    def _valid_of(self, ty):
        sab = self.sab
        self.sab = None
        pts = self.points
        pk = len(self.point_kinds)
        try:
            return self.lit(ty)
        finally:
            self.sab = sab
            self.points = pts
            del self.point_kinds[pk:]

    def expr(self, ty, depth=0):
        """Expression of type `ty` (valid in the current scope), unless this point is sabotaged."""
        good = self._expr(ty, depth)
        if self.point("type"):
            bad = self.wrong_expr(ty)
            self.sab_desc = "expression of type %s replaced by %s" % (ty_str(ty), bad)
            return bad
        return good

    def _expr(self, ty, depth):
        r = self.rng
        k = ty[0]
        vs = self.vars_of(ty)
        leaf = depth >= self.size
        c = r.below(10)
        if leaf or c < 3:
            if vs and r.chance(2, 3):
                return self.ref(r.choice(vs))
            cs = [n for n, t in self.consts if t == ty]
            if cs and r.chance(1, 3):
                return r.choice(cs)
            if k == "ptr":
                return self.ptr_expr(ty)
            return self.lit(ty)
        if k == "int":
            if c == 3:
                o = r.choice(["+", "-", "*"])
                self.feat("arith")
                return "(%s %s %s)" % (self.expr(ty, depth + 1), o, self.expr(ty, depth + 1))
            if c == 4:
                self.feat("divmod")
                return "(%s %s %d)" % (self.expr(ty, depth + 1), r.choice(["/", "%"]), r.range(1, 9))
            if c == 5:
                src = INT(r.choice(INTS[:8]))
                self.feat("cast")
                return "%s.(%s)" % (ty[1], self.expr(src, depth + 1))
            if c == 6:
                fs = [f for f in self.funcs if f[2] == ty]
                if fs:
                    return self.call(r.choice(fs), depth)
            if c == 7:
                got = self.projection(ty, depth)
                if got:
                    return got
        if k == "bool":
            if c in (3, 4):
                t = INT(r.choice(INTS[:8]))
                self.feat("cmp")
                return "(%s %s %s)" % (self.expr(t, depth + 1), r.choice(["<", "<=", "==", "!=", ">", ">="]), self.expr(t, depth + 1))
            if c == 5:
                return "(!%s)" % self.expr(BOOL, depth + 1)
            if c in (6, 7):
                self.feat("logic")
                return "(%s %s %s)" % (self.expr(BOOL, depth + 1), r.choice(["&&", "||"]), self.expr(BOOL, depth + 1))
        if k == "float":
            if c in (3, 4):
                return "(%s %s %s)" % (self.expr(ty, depth + 1), r.choice(["+", "-", "*"]), self.expr(ty, depth + 1))
            if c == 5:
                self.feat("cast")
                return "%s.(%s)" % (ty[1], self.expr(INT(r.choice(["i32", "u8", "i16"])), depth + 1))
        if k == "ptr":
            return self.ptr_expr(ty)
        if c == 8:
            self.feat("if-expr")
            return "(if %s { %s } else { %s })" % (self.expr(BOOL, depth + 1), self.expr(ty, depth + 1), self.expr(ty, depth + 1))
        if c == 9:
            self.feat("block-expr")
            self.scopes.append({})
            st = self.stmts(r.range(0, 2), depth + 1)
            e = self.expr(ty, depth + 1)
            self.scopes.pop()
            return "({ %s%s })" % ("".join(s + " " for s in st), e)
        fs = [f for f in self.funcs if f[2] == ty]
        if fs and r.chance(1, 2):
            return self.call(r.choice(fs), depth)
        if vs:
            return self.ref(r.choice(vs))
        return self.lit(ty)

    def ref(self, name):
        """A reference to a visible name; sabotage = scope-breaking."""
        if self.point("scope"):
            k = self.rng.below(3)
            if k == 0:
                bad = "undefined_%d" % self.rng.below(100)
            elif k == 1:
                bad = name + "_gone"
            else:
                bad = "later_%d" % self.rng.below(10)
            self.sab_desc = "reference to `%s` replaced by undefined `%s`" % (name, bad)
            return bad
        return name

    def ptr_expr(self, ty):
        vs = self.vars_of(ty[2], mutable=True if ty[1] else None)
        vs = [v for v in vs if not any(v in sc and sc[v][2] for sc in self.scopes)] or vs
        if not vs:
            # no addressable variable: fall back on a pointer variable or a fresh temporary through a block
            n = self.fresh("t")
            return "({ %s : %s = %s; %s%s })" % (n, ty_str(ty[2]), self._valid_of(ty[2]), "^mut " if ty[1] else "^", n)
        self.feat("ref")
        v = self.rng.choice(vs)
        if ty[1] and self.point("mut"):
            imm = [n for n, t, m, l in self.all_vars() if t == ty[2] and not m]
            if imm:
                b = self.rng.choice(imm)
                self.sab_desc = "`^mut %s` of immutable binding" % b
                return "^mut " + b
            self.sab_kind = None
            self.sab = -1
        return ("^mut " if ty[1] else "^") + v

    def projection(self, ty, depth):
        r = self.rng
        cands = []
        for n, t, m, l in self.all_vars():
            if t[0] == "arr" and t[2] == ty:
                cands.append("%s[%d]" % (n, r.below(t[1])))
            if t[0] == "named" and t[1] in self.structs:
                for f, ft in self.structs[t[1]]:
                    if ft == ty:
                        cands.append("%s.%s" % (n, f))
            if t[0] == "ptr" and t[2] == ty:
                cands.append("%s^" % n)
            if t[0] == "named" and t[1] in self.distincts and self.distincts[t[1]] == ty:
                cands.append("%s.(%s)" % (ty_str(ty), n))
        if cands:
            self.feat("projection")
            return r.choice(cands)
        return None

    def call(self, f, depth):
        self.feat("call")
        return "%s(%s)" % (f[0], ", ".join(self.expr(t, depth + 1) for t in f[1]))

    # -- statements -----------------------------------------------------------------
    def stmts(self, n, depth):
        return [self.stmt(depth) for _ in range(n)]

    def stmt(self, depth):
        r = self.rng
        c = r.below(16)
        deep = depth >= self.size
        if c < 5:
            return self.local_def(depth)
        if c < 8:
            s = self.assign(depth)
            if s:
                return s
            return self.local_def(depth)
        if c == 8 and not deep:
            self.feat("if-stmt")
            self.scopes.append({})
            a = self.stmts(r.range(1, 2), depth + 1)
            self.scopes.pop()
            s = "if %s { %s }" % (self.expr(BOOL, depth + 1), " ".join(a))
            if r.chance(1, 2):
                self.scopes.append({})
                b = self.stmts(r.range(1, 2), depth + 1)
                self.scopes.pop()
                s += " else { %s }" % " ".join(b)
            return s + ";"
        if c == 9 and not deep:
            self.feat("while")
            i = self.fresh("i")
            n = r.range(1, 5)
            self.scopes.append({})
            self.bind(i, INT("i32"), True, locked=True)
            body = self.stmts(r.range(1, 2), depth + 1)
            self.scopes.pop()
            return "{ %s : i32 = 0; while %s < %d { %s %s = %s + 1; }; };" % (i, i, n, " ".join(body), i, i)
        if c == 10 and not deep:
            self.feat("defer")
            s = self.assign(depth + 1)
            if s:
                self.scopes.append({})
                inner = self.stmts(1, depth + 1)
                self.scopes.pop()
                return "{ defer { %s }; %s };" % (s, " ".join(inner))
        if c == 11 and not deep:
            self.feat("labeled-block")
            ty = self.scalar_ty()
            l = self.fresh("lbl")
            n = self.fresh("v")
            self.scopes.append({})
            pre = self.stmts(r.range(0, 1), depth + 1)
            cond = self.expr(BOOL, depth + 1)
            e1 = self.expr(ty, depth + 1)
            lab = l
            if self.point("scope"):
                lab = l + "_x"
                self.sab_desc = "break to undefined label `%s" % lab
            e2 = self.expr(ty, depth + 1)
            self.scopes.pop()
            s = "%s : %s = `%s: { %s if %s { break `%s %s; }; %s };" % (n, ty_str(ty), l, " ".join(pre), cond, lab, e1, e2)
            self.bind(n, ty, True)
            return s
        if c == 12 and self.enums and not deep:
            return self.switch_stmt(depth)
        if c == 13:
            fs = [f for f in self.funcs if f[2] is None]
            if fs:
                return self.call(r.choice(fs), depth) + ";"
        if c == 14 and not deep:
            return self.const_use(depth)
        return self.local_def(depth)

    def const_use(self, depth):
        """Constructs that need a compile-time constant: array sizes and local type aliases."""
        r = self.rng
        self.feat("const-use")
        if r.chance(1, 2):
            n = self.fresh("n")
            a = self.fresh("a")
            k = r.range(1, 4)
            ety = INT(r.choice(INTS[:8]))
            if self.point("const"):
                shape = r.below(5)
                arrv = self._valid_of(("arr", k, ety))
                if shape == 0:
                    self.sab_desc = "array size is a mutable local with a value"
                    s = "%s := %d; %s : [%s]%s = %s;" % (n, k, a, n, ty_str(ety), arrv)
                elif shape == 1:
                    self.sab_desc = "array size is a mutable local WITHOUT a value"
                    s = "%s : usize; %s : [%s]%s;" % (n, a, n, ty_str(ety))
                elif shape == 2:
                    self.sab_desc = "array size is arithmetic on a mutable local"
                    s = "%s := %d; %s : [%s + 1]%s;" % (n, k, a, n, ty_str(ety))
                elif shape == 3:
                    self.sab_desc = "enum discriminant is a mutable local without a value"
                    s = "%s : u8; %s :: enum { A | %s, B };" % (n, self.fresh("LE"), n)
                else:
                    self.sab_desc = "array size is a typed mutable local with a value"
                    s = "%s : usize = %d; %s : [%s]%s = %s;" % (n, k, a, n, ty_str(ety), arrv)
                self.bind(n, INT("usize"), True, locked=True)
                return s
            s = "%s :: %d; %s : [%s]%s = %s;" % (n, k, a, n, ty_str(ety), self.lit(("arr", k, ety)))
            self.bind(a, ("arr", k, ety), True)
            return s
        t = self.fresh("T")
        v = self.fresh("c")
        ety = self.scalar_ty()
        if self.point("const"):
            if r.chance(1, 2):
                self.sab_desc = "type annotation names a mutable local holding a type"
                return "%s := %s; %s : %s = %s;" % (t, ty_str(ety), v, t, self._valid_of(ety))
            self.sab_desc = "type annotation names a mutable `type` local WITHOUT a value"
            return "%s : type; %s : %s = %s;" % (t, v, t, self._valid_of(ety))
        s = "%s :: %s; %s : %s = %s;" % (t, ty_str(ety), v, t, self.expr(ety, depth + 1))
        self.bind(v, ety, True)
        return s

    def switch_stmt(self, depth):
        r = self.rng
        self.feat("switch")
        en = r.choice(sorted(self.enums))
        vs = self.vars_of(("named", en))
        pre = ""
        if vs:
            scrut = r.choice(vs)
        else:
            scrut = self.fresh("e")
            pre = "%s : %s = %s; " % (scrut, en, self.lit(("named", en)))
            self.bind(scrut, ("named", en), True)
        res = self.fresh("sw")
        ty = INT(r.choice(INTS[:8]))
        arms = []
        # a fresh argument name per switch, never reused: the known C05 defect (the switch argument
        # stays visible after its arm) must not change the meaning of these programs
        arg = self.fresh("p")
        for v, p in self.enums[en]:
            # (the argument has the variant's own type inside the arm; it is not used)
            self.scopes.append({})
            e = self.expr(ty, depth + 1)
            self.scopes.pop()
            arms.append(".%s => %s," % (v, e))
        self.bind(res, ty, True)
        return "%s%s : %s = switch %s in %s { %s };" % (pre, res, ty_str(ty), arg, scrut, " ".join(arms))

    def local_def(self, depth):
        r = self.rng
        ty = self.any_ty()
        n = self.fresh("x")
        mutable = r.chance(2, 3)
        if r.chance(1, 8):
            ptrs = [(v, t) for v, t, m, l in self.all_vars() if t[0] in ("int", "bool", "float") and m and not l]
            if ptrs:
                v, t = r.choice(ptrs)
                mut = r.chance(1, 2)
                pty = ("ptr", mut, t)
                e = self.expr(pty, self.size)
                self.feat("ptr-local")
                s = "%s :: %s;" % (n, e)
                self.bind(n, pty, False)
                return s
        e = self.expr(ty, depth + 1)
        self.feat("local-" + ty[0])
        s = "%s : %s %s %s;" % (n, ty_str(ty), "=" if mutable else ":", e)
        self.bind(n, ty, mutable)
        return s

    def assign(self, depth):
        r = self.rng
        cands = []
        for n, t, m, l in self.all_vars():
            if l:
                continue
            if m and t[0] in ("int", "bool", "float", "named", "arr"):
                cands.append((n, t, "var"))
            if m and t[0] == "arr" and t[2][0] in ("int", "bool", "float"):
                cands.append((n, t, "idx"))
            if m and t[0] == "named" and t[1] in self.structs:
                cands.append((n, t, "field"))
            if t[0] == "ptr" and t[1]:
                cands.append((n, t, "deref"))
        if not cands:
            return None
        n, t, how = r.choice(cands)
        self.feat("assign-" + how)
        if how == "var":
            lhs, vt = n, t
        elif how == "idx":
            lhs, vt = "%s[%d]" % (n, r.below(t[1])), t[2]
        elif how == "field":
            f, ft = r.choice(self.structs[t[1]])
            lhs, vt = "%s.%s" % (n, f), ft
        else:
            lhs, vt = "%s^" % n, t[2]
        e = self.expr(vt, depth + 1)
        op = "="
        if vt[0] == "int" and r.chance(1, 4):
            op = r.choice(["+=", "-=", "*="])
        if self.point("mut"):
            # target something immutable instead
            imm = [(v, vt2) for v, vt2, m, l in self.all_vars() if not m and vt2[0] in ("int", "bool", "float")]
            iptr = [(v, vt2) for v, vt2, m, l in self.all_vars() if vt2[0] == "ptr" and not vt2[1]]
            if imm and (not iptr or r.chance(2, 3)):
                v, vt2 = r.choice(imm)
                self.sab_desc = "assignment to immutable binding / parameter `%s`" % v
                return "%s = %s;" % (v, self._valid_of(vt2))
            if iptr:
                v, vt2 = r.choice(iptr)
                self.sab_desc = "assignment through immutable pointer `%s`" % v
                return "%s^ = %s;" % (v, self._valid_of(vt2[2]))
            nm = self.fresh("k")
            self.sab_desc = "assignment to fresh immutable binding `%s`" % nm
            return "%s :: 5; %s = 6;" % (nm, nm)
        return "%s %s %s;" % (lhs, op, e)

    # -- top level ----------------------------------------------------------------------
    def func(self, name, params, ret):
        r = self.rng
        self.scopes = [{}]
        ps = []
        for t in params:
            p = self.fresh("a")
            ps.append("%s: %s" % (p, ty_str(t)))
            self.bind(p, t, False)
        body = self.stmts(r.range(1, 2 + self.size), 0)
        tail = ""
        if ret is not None:
            tail = "\n    " + self.expr(ret, 0)
        self.scopes = []
        return "%s :: (%s)%s {\n    %s%s\n}\n" % (name, ", ".join(ps), " -> " + ty_str(ret) if ret is not None else "",
                                                "\n    ".join(body), tail)

    def _program(self):
        r = self.rng
        out = []
        if self.with_core:
            out.append("core :: #mod(\"core\");\n")
        for _ in range(r.range(0, 2)):
            n = self.fresh("S")
            fs = [(self.fresh("f"), self.any_ty(1)) for _ in range(r.range(1, 3))]
            out.append("%s :: struct { %s };\n" % (n, ", ".join("%s: %s" % (f, ty_str(t)) for f, t in fs)))
            self.structs[n] = fs
        for _ in range(r.range(0, 1)):
            n = self.fresh("D")
            b = self.scalar_ty()
            out.append("%s :: distinct %s;\n" % (n, ty_str(b)))
            self.distincts[n] = b
        for _ in range(r.range(0, 1)):
            n = self.fresh("E")
            vs = []
            for _ in range(r.range(1, 3)):
                vs.append((self.fresh("V"), self.scalar_ty() if r.chance(1, 2) else None))
            out.append("%s :: enum { %s };\n" % (n, ", ".join(v if p is None else "%s: %s" % (v, ty_str(p)) for v, p in vs)))
            self.enums[n] = vs
        for _ in range(r.range(0, 2)):
            n = self.fresh("K")
            t = self.scalar_ty()
            self.scopes = [{}]
            out.append("%s : %s : %s;\n" % (n, ty_str(t), self.lit(t)))
            self.scopes = []
            self.consts.append((n, t))
        for _ in range(r.range(0, 3)):
            n = self.fresh("fn")
            params = [self.any_ty(1) for _ in range(r.range(0, 3))]
            ret = self.any_ty(1) if r.chance(3, 4) else None
            out.append(self.func(n, params, ret))
            self.funcs.append((n, params, ret))
        ret = INT(r.choice(["i32", "u8", "i64", "usize"])) if r.chance(2, 3) else None
        body = self.func("main", [], ret)
        if self.with_core:
            # print something through core (generic / varargs / any machinery)
            body = body.replace("{\n", "{\n    core.println(\"start \", 42, \" \", true);\n", 1)
        out.append(body)
        return "".join(out)


# ---- const positions x non-const operands ------------------------------------------------------
# Every kind of operand that is NOT a compile-time constant, in every position that requires one.
# Each program must be rejected with a diagnostic (and is then unsafe, nothing generated); the
# controls with a constant operand must build.  C07 runs the whole matrix on every check.

CONST_OPERANDS = [
    # name, statements that introduce it inside the function, the expression, extra globals, is_const
    ("const-local", "n :: 3;", "n", "", True),
    ("const-global", "", "GN", "GN : usize : 3;\n", True),
    ("literal", "", "3", "", True),
    ("mut-local-with-value", "n := 3;", "n", "", False),
    ("mut-local-typed-with-value", "n : usize = 3;", "n", "", False),
    ("mut-local-without-value", "n : usize;", "n", "", False),
    ("parameter", None, "p", "", False),                      # the enclosing function gets (p: usize)
    ("call-result", "", "get_n()", "get_n :: () -> usize { 3 }\n", False),
    ("global-from-call", "", "GC", "get_n :: () -> usize { 3 }\nGC :: get_n();\n", False),
    ("arith-on-mut-local", "n := 3;", "n + 1", "", False),
    ("arith-on-unset-local", "m : usize;", "m * 2", "", False),
    ("arith-on-parameter", None, "p + 1", "", False),
    ("deref-of-pointer", "n := 3; q :: ^n;", "q^", "", False),
    ("field-of-mut-struct", "s := P.{ f = 3 };", "s.f", "P :: struct { f: usize };\n", False),
    ("element-of-mut-array", "a := usize.[3, 4];", "a[0]", "", False),
    ("if-on-mut-local", "n := 3;", "if n > 1 { 2 } else { 3 }", "", False),
]
# type-valued operands for the type-annotation position
TYPE_OPERANDS = [
    ("const-local-type", "T :: i32;", "T", "", True),
    ("mut-local-type-with-value", "T := i32;", "T", "", False),
    ("mut-local-type-without-value", "T : type;", "T", "", False),
    ("parameter-type", None, "PT", "", False),                # the enclosing function gets (PT: type)
    ("call-result-type", "", "get_t()", "get_t :: () -> type { i32 }\n", False),
]
CONST_POSITIONS = ("array-length", "enum-discriminant", "comptime-argument", "type-annotation",
                   "array-length-in-literal", "distinct-of-array", "struct-member-array")


def const_matrix():
    """[(operand, position, operand_is_const, source)] -- deterministic, no randomness."""
    out = []

    def prog(stmts, use, globs, param):
        if param is None:
            return "%smain :: () {\n    %s\n    %s\n}\n" % (globs, stmts, use)
        return "%swork :: (%s) {\n    %s\n}\nmain :: () {\n    work(%s);\n}\n" % (globs, param[0], use, param[1])
    for name, stmts, e, globs, is_const in CONST_OPERANDS:
        param = ("p: usize", "3") if stmts is None else None
        st = stmts or ""
        uses = {
            "array-length": "arr : [%s]i32;" % e,
            "enum-discriminant": "E :: enum { A | %s, B };\n    v : E = E.B;" % e,
            "comptime-argument": "r := ident(%s);" % e,
            "array-length-in-literal": "arr := [%s]i32.(i32.[1, 2, 3]);" % e,
            "distinct-of-array": "D :: distinct [%s]u8;\n    d : D;" % e,
            "struct-member-array": "S :: struct { m: [%s]u8 };\n    s0 : S;" % e,
        }
        for pos, use in uses.items():
            g = globs + ("ident :: (comptime N: usize) -> usize { N }\n" if pos == "comptime-argument" else "")
            out.append((name, pos, is_const, prog(st, use, g, param)))
    for name, stmts, e, globs, is_const in TYPE_OPERANDS:
        param = ("PT: type", "i32") if stmts is None else None
        st = stmts or ""
        out.append((name, "type-annotation", is_const, prog(st, "x : %s = 1;" % e, globs, param)))
        g = globs + "ident_t :: (comptime X: type) -> type { X }\n"
        out.append((name, "comptime-argument", is_const, prog(st, "y : ident_t(%s) = 1;" % e, g, param)))
        out.append((name, "array-element-type", is_const, prog(st, "z : [2]%s;" % (e if e.isidentifier() else "(" + e + ")"), globs, param)))
    return out


def gen_valid(rng, size=3, with_core=False):
    return ProgGen(rng, None, size=size, with_core=with_core)


def gen_near_valid(rng, size=3, with_core=False, kind=None):
    """(valid ProgGen, sabotaged ProgGen or None).  Both are generated from the same stream, so they
    differ in exactly one construct."""
    seed = rng.next()
    base = ProgGen(C.Rng(seed), None, size=size, with_core=with_core)
    if base.points == 0:
        return base, None
    if kind is None:
        # choose the kind first so that the rare kinds (mut / const / scope) are not drowned by
        # the many expression points
        present = [x for x in SAB_KINDS if x in base.point_kinds]
        kind = rng.choice(present) if present else None
    idxs = [i for i, k in enumerate(base.point_kinds) if kind is None or k == kind]
    if not idxs:
        return base, None
    k = rng.choice(idxs)
    bad = ProgGen(C.Rng(seed), k, size=size, with_core=with_core)
    if bad.sab_kind is None or bad.text == base.text:
        return base, None
    return base, bad


# ----------------------------------------------------------------------------------------------
# text-level mutators
# ----------------------------------------------------------------------------------------------

TOKEN = re.compile(r"[A-Za-z_][A-Za-z0-9_]*|\d+\.\d+|\d+|\"(?:\\.|[^\"\\\n])*\"|'(?:\\.|[^'\\\n])'|::|:=|->|=>|==|!=|<=|>=|&&|\|\||\+=|-=|\*=|\.\.|\S", re.S)
KEYWORDS = ["if", "else", "while", "loop", "switch", "in", "break", "continue", "return", "defer", "comptime", "struct",
            "enum", "distinct", "mut", "extern", "import", "mod", "nil", "true", "false", "as", "try"]
TYPES = ["i8", "i16", "i32", "i64", "i128", "u8", "u16", "u32", "u64", "u128", "isize", "usize", "f32", "f64", "bool",
         "str", "char", "type", "any", "void", "rawptr", "rawslice"]
PUNCT = ["(", ")", "{", "}", "[", "]", ";", ",", ".", ":", "::", ":=", "=", "^", "?", "!", "->", "=>", "`", "#", "|",
         "+", "-", "*", "/", "%", "<", ">", "==", "&&", "||", "~", "@", "$", "\\", "\"", "'"]
ODD = ["\u0663", "\u00e9", "\u4e2d", "\U0001F600", "\u200b", "\ufeff", "\r", "\r\n", "\t", "\0", "\x7f", "\u0661\u0662",
       "0x", "0b", "1e", "1e+", "1_", "0.", ".0", "1.2.3", "99999999999999999999999", "340282366920938463463374607431768211456",
       "'\\", "\"\\", "'ab'", "''", "\"\\q\"", "//", "/*", "#unwrap", "#is_variant", "#import", "#mod", "#builtin",
       "comptime", "extern", ".try", ".[", ".{", ".(", "^mut", "`lbl:", "break `x", "_"]


def tokens(text):
    return [(m.start(), m.end()) for m in TOKEN.finditer(text)]


def text_mutate(rng, text, n=1):
    """n token-level mutations (replace / delete / insert / duplicate / swap / truncate)."""
    t = text
    for _ in range(n):
        toks = tokens(t)
        if not toks:
            t = t + rng.choice(PUNCT)
            continue
        a, b = toks[rng.below(len(toks))]
        k = rng.below(12)
        tok = t[a:b]
        if k == 0:
            t = t[:a] + t[b:]
        elif k == 1:
            t = t[:a] + rng.choice(PUNCT) + t[b:]
        elif k == 2:
            t = t[:a] + rng.choice(PUNCT) + t[a:]
        elif k == 3:
            t = t[:a] + rng.choice(KEYWORDS) + " " + t[a:]
        elif k == 4:
            t = t[:a] + rng.choice(TYPES) + t[b:]
        elif k == 5:
            t = t[:a] + rng.choice(ODD) + t[b:]
        elif k == 6:
            c, d = toks[rng.below(len(toks))]
            if b <= c:
                t = t[:a] + t[c:d] + t[b:c] + tok + t[d:]
            elif d <= a:
                t = t[:c] + tok + t[d:a] + t[c:d] + t[b:]
        elif k == 7:
            t = t[:b] + " " + tok + t[b:]
        elif k == 8:
            ids = [t[x:y] for x, y in toks if re.match(r"[A-Za-z_]", t[x])]
            if ids:
                t = t[:a] + rng.choice(ids) + t[b:]
        elif k == 9:
            c, d = toks[rng.below(len(toks))]
            lo, hi = min(a, c), max(b, d)
            if hi - lo < 400:
                t = t[:lo] + t[hi:]
        elif k == 10:
            if re.fullmatch(r"\d+", tok):
                t = t[:a] + rng.choice(["0", "255", "256", "65536", "2147483648", "4294967296", "18446744073709551616",
                                        "-1", "1.0", "true", "\"1\""]) + t[b:]
            elif tok == "::":
                t = t[:a] + ":=" + t[b:]
            elif tok == ":=":
                t = t[:a] + "::" + t[b:]
            else:
                t = t[:a] + rng.choice(KEYWORDS) + t[b:]
        else:
            cut = rng.below(len(t) + 1)
            if rng.chance(1, 3):
                t = t[:cut]
            else:
                t = t[:a] + rng.choice(PUNCT) + rng.choice(PUNCT) + t[b:]
    return t


def semantic_mutate(rng, text):
    """ONE near-valid mutation of an arbitrary (presumably valid) program: returns (text, kind) or None.
    kinds: type (literal / type name swapped), mut (`:=`->`::`, `^mut`->`^`), const (`::`->`:=` of a
    definition), scope (identifier renamed to an undefined one)."""
    toks = tokens(text)
    if not toks:
        return None
    order = list(range(len(toks)))
    rng.shuffle(order)
    want = rng.choice(SAB_KINDS)
    for i in order[:400]:
        a, b = toks[i]
        tok = text[a:b]
        if want == "type":
            if re.fullmatch(r"\d+", tok) and (a == 0 or text[a - 1] not in "[."):
                return text[:a] + rng.choice(["true", "\"s\"", "1.5"]) + text[b:], "type"
            if tok in ("true", "false"):
                return text[:a] + rng.choice(["1", "\"s\""]) + text[b:], "type"
            if tok in TYPES[:15] and rng.chance(1, 2):
                o = rng.choice([x for x in ["bool", "str", "i8", "u64", "f32"] if x != tok])
                return text[:a] + o + text[b:], "type"
        elif want == "mut":
            if tok == ":=":
                return text[:a] + "::" + text[b:], "mut"
            if tok == "mut" and a > 0 and text[a - 1] == "^":
                return text[:a] + text[b:].lstrip(" "), "mut"
        elif want == "const":
            if tok == "::" and i + 1 < len(toks):
                nxt = text[toks[i + 1][0]:toks[i + 1][1]]
                if nxt not in ("(", "struct", "enum", "distinct", "#", "comptime", "extern") and rng.chance(1, 2):
                    return text[:a] + ":=" + text[b:], "const"
        else:
            if re.fullmatch(r"[a-z_][A-Za-z0-9_]*", tok) and tok not in KEYWORDS and tok not in TYPES \
                    and not (a > 0 and text[a - 1] == ".") and tok != "main":
                return text[:a] + tok + "_undefined" + text[b:], "scope"
    return None


def random_utf8(rng, maxlen=200):
    n = rng.below(maxlen + 1)
    out = []
    for _ in range(n):
        k = rng.below(20)
        if k < 8:
            out.append(chr(rng.range(32, 126)))
        elif k < 12:
            out.append(rng.choice(PUNCT))
        elif k < 14:
            out.append(rng.choice(["\n", " ", "\t", "\r\n"]))
        elif k < 16:
            out.append(rng.choice(KEYWORDS + TYPES) + " ")
        elif k < 18:
            out.append(rng.choice(ODD))
        else:
            cp = rng.choice([rng.range(0x80, 0x7ff), rng.range(0x800, 0xd7ff), rng.range(0xe000, 0xffff),
                             rng.range(0x10000, 0x10ffff), rng.range(0, 31)])
            out.append(chr(cp))
    return "".join(out)


def deep_nest(rng, depth):
    """Bracket / expression nesting of the given depth (the quantifier allows up to 200)."""
    k = rng.below(8)
    if k == 0:
        e = "(" * depth + "1" + ")" * depth
    elif k == 1:
        e = "{" * depth + "1" + "}" * depth
    elif k == 2:
        e = "-" * depth + "1"
    elif k == 3:
        e = "1" + " + (1" * depth + ")" * depth
    elif k == 4:
        e = "i32.[" * min(depth, 60) + "1" + "]" * min(depth, 60)
    elif k == 5:
        e = "if true {" * depth + "1" + "} else { 2 }" * depth
    elif k == 6:
        return "T :: " + "^" * depth + "i32;\nmain :: () {}\n"
    else:
        # (2^14 bytes; the 2^20-byte version compiles for ~1 min and ends in CodeTooLarge: corpus/C06)
        return "T :: " + "[2]" * min(depth, 14) + "u8;\nmain :: () { x : T; }\n"
    return "main :: () {\n    x := %s;\n}\n" % e


# ----------------------------------------------------------------------------------------------
# running the real executable
# ----------------------------------------------------------------------------------------------

PANIC_RE = re.compile(r"panicked at ([^\s:]+(?::\\)?[^:\n]*):(\d+):(\d+):?\s*\n?([^\n]*)")


def norm_site(path):
    """`/repo/crates/x/src/y.rs`, `crates/x/src/y.rs`, `/root/.cargo/registry/src/<hash>/<crate>-<ver>/src/..`
    -> short stable form."""
    p = path.replace("\\", "/")
    m = re.search(r"registry/src/[^/]+/(.+)$", p)
    if m:
        return m.group(1)
    m = re.search(r"(crates/.+)$", p)
    if m:
        return m.group(1)
    m = re.search(r"rustc/[0-9a-f]+/(library/.+)$", p)
    if m:
        return m.group(1)
    return p


def classify_output(rc, out, timed_out=False):
    """-> (kind, site, message). kind: ok | errors | panic | verifier | cranelift-error | signal | timeout |
    comptime-panic | exit:<n>"""
    m = PANIC_RE.search(out)
    if timed_out:
        return "timeout", "timeout", ""
    if "Error defining function" in out or "Verifier errors" in out or "VerifierErrors" in out:
        mm = re.search(r"Error defining function:\s*\n(.*)", out)
        return "verifier", "verifier", (mm.group(1) if mm else "")[:300]
    if m:
        site, loc = site_key(m.group(1), m.group(2), m.group(4))
        return "panic", site, (m.group(4)[:260] + "  [at %s]" % loc)
    if "Cranelift Error" in out:
        return "cranelift-error", "cranelift-error", out[out.find("Cranelift Error"):][:300]
    if rc is not None and rc < 0:
        try:
            name = signal.Signals(-rc).name
        except Exception:
            name = str(-rc)
        return "signal", "signal:" + name, ""
    if "has overflowed its stack" in out:
        return "signal", "stack-overflow", ""
    if rc == 0:
        return "ok", "", ""
    if "not compiling due to previous errors" in out:
        return "errors", "", ""
    if rc == 1:
        return "exit:1", "", out[-300:]
    return "exit:%s" % rc, "exit:%s" % rc, out[-300:]


CPU_LIMIT = 10.0     # seconds of CPU time (user+sys of the child and its children): the "10 s" of the property,
                     # measured as CPU time so that an overloaded machine does not fake hangs


def run_capy(capy, files, root="main.capy", args=("--no-exec",), timeout=10.0, mod_dir=None, keep=None,
             sub="build", wall_limit=150.0):
    """Compile `files` ({relative name: text or bytes}) with the real executable in a scratch directory.
    The child is killed after `wall_limit` seconds of wall time; it counts as a hang when it used more
    than `timeout` seconds of CPU time (or was killed).  Returns a dict; `obj` = bytes of
    out/<stem>.o when produced."""
    import threading
    d = tempfile.mkdtemp(prefix="verif-capy-")
    try:
        for name, text in files.items():
            p = os.path.join(d, name)
            os.makedirs(os.path.dirname(p), exist_ok=True)
            with open(p, "wb") as f:
                f.write(text if isinstance(text, bytes) else text.encode("utf-8"))
        env = dict(os.environ)
        env["RUST_BACKTRACE"] = "0"
        env["NO_COLOR"] = "1"
        cmd = [capy, sub, root, "--mod-dir", mod_dir or C.REPO, "--color", "never"] + list(args)

        def once(tmo):
            p = subprocess.Popen(cmd, cwd=d, env=env, stdin=subprocess.DEVNULL, stdout=subprocess.PIPE,
                                 stderr=subprocess.STDOUT, start_new_session=True)
            killed = [False]

            def kill():
                killed[0] = True
                try:
                    os.killpg(p.pid, signal.SIGKILL)
                except OSError:
                    pass
            t = threading.Timer(tmo, kill)
            t.start()
            try:
                out = p.stdout.read()
                _, status, ru = os.wait4(p.pid, 0)
            finally:
                t.cancel()
            p.returncode = os.waitstatus_to_exitcode(status)
            cpu = ru.ru_utime + ru.ru_stime
            return (None if killed[0] else p.returncode), out, killed[0], cpu
        rc, out, to, cpu = once(wall_limit)
        retried = False
        if to and cpu < timeout:
            # killed although it used little CPU: starved or blocked -- once more
            retried = True
            shutil.rmtree(os.path.join(d, "out"), ignore_errors=True)
            rc, out, to, cpu = once(wall_limit * 2)
        out = out.decode("utf-8", "replace")
        slow = to or cpu > timeout
        kind, site, msg = classify_output(rc, out, False)
        plain = (kind, site, msg)
        if slow:
            msg = "cpu %.1fs; outcome when left running: %s %s %s" % (cpu, kind, site, msg)
            kind, site = "timeout", "timeout"
        stem = os.path.splitext(os.path.basename(root))[0]
        obj = None
        op = os.path.join(d, "out", stem + ".o")
        if os.path.exists(op):
            obj = open(op, "rb").read()
        exe = os.path.join(d, "out", stem)
        res = {"rc": rc, "kind": kind, "site": site, "msg": msg, "out": out, "obj": obj, "timed_out": slow,
               "retried": retried, "exe": os.path.exists(exe), "cpu": cpu, "killed": to, "plain": plain}
        if keep:
            res.update(keep(d, res))
        return res
    finally:
        shutil.rmtree(d, ignore_errors=True)


def msg_sig(msg):
    """panic message without the parts that vary between inputs (numbers, quoted names, expression ids)."""
    m = re.sub(r"`[^`]*`", "`_`", msg or "")
    m = re.sub(r"\d+", "N", m)
    m = re.sub(r"\s+", " ", m).strip()
    return m[:48]


# ---- crash sites: (file, enclosing function, kind of panic, text of the panicking statement) ---------
# Line numbers shift with every hook / repair in /repo, so a site is identified by things that do not:
# the file, the name of the enclosing `fn` (found by scanning the source upwards from the reported
# line, at run time, in the tree that was actually compiled), the kind of panic (from the message)
# and the normalised source text of the statement at the reported line.  Two different panics in one
# function differ in statement text and/or kind, so they stay different classes.  The line is kept
# only as information (`loc`).

_FN_RE = re.compile(r"^(\s*)(?:pub(?:\([^)]*\))?\s+)?(?:default\s+)?(?:const\s+)?(?:async\s+)?(?:unsafe\s+)?"
                    r"(?:extern\s+\"[^\"]*\"\s+)?fn\s+([A-Za-z_][A-Za-z0-9_]*)")
_src_cache = {}


def resolve_source(path):
    """file named in a panic message -> readable path (or None)"""
    cands = [path]
    if not os.path.isabs(path):
        cands.append(os.path.join(C.REPO, path))
    m = re.search(r"(crates/.+)$", path.replace("\\", "/"))
    if m:
        cands.append(os.path.join(C.REPO, m.group(1)))
    for c in cands:
        if os.path.isfile(c):
            return c
    return None


def _source_lines(path):
    real = resolve_source(path)
    if real is None:
        return None
    try:
        st = os.stat(real)
        key = (real, st.st_mtime_ns, st.st_size)
        if key not in _src_cache:
            _src_cache[key] = open(real, encoding="utf-8", errors="replace").read().split("\n")
        return _src_cache[key]
    except OSError:
        return None


_STR_RE = re.compile(r'"(?:\\.|[^"\\])*"|\'(?:\\.|[^\'\\])\'')


def _brace_seq(line):
    l = _STR_RE.sub("", line)
    c = l.find("//")
    if c >= 0:
        l = l[:c]
    return [ch for ch in l if ch in "{}"]


def enclosing_fn(lines, lineno):
    """name of the innermost `fn` whose body is still open at line `lineno` (1-based).  Scanning upwards,
    closing braces are matched against opening ones; an opening brace that matches nothing opens a
    block around the line, and the header of that block (the lines above it up to the previous
    statement end) is looked at: if it is a `fn` header, that is the function."""
    if not lines or lineno < 1 or lineno > len(lines):
        return "?"
    skip = 0
    for i in range(lineno - 2, -1, -1):
        opened = False
        for ch in reversed(_brace_seq(lines[i])):
            if ch == "}":
                skip += 1
            elif skip > 0:
                skip -= 1
            else:
                opened = True
        if opened:
            j = i
            while j >= 0 and i - j < 40:
                m = _FN_RE.match(lines[j])
                if m:
                    return m.group(2)
                if j < i:
                    t = lines[j].strip()
                    if t.endswith(";") or t.endswith("}") or t.endswith("{") or t.endswith("},") or t == "":
                        break
                j -= 1
    return "?"


_GENERIC = re.compile(r"^(?:_ => |[A-Za-z_:]+(?:\(.*\))? => )?(?:unreachable!\(\)|todo!\(\)|unimplemented!\(\)|\.unwrap\(\)|panic!\(\))[,;]?$")


def statement_text(lines, lineno):
    """normalised text of the statement at the reported line; a line that only continues a method chain
    (`.unwrap()`, `.expect(..)`) is extended upwards to the start of the chain; a generic or very short
    statement (`_ => unreachable!(),`) is extended by the three preceding non-blank lines so that the
    many identical ones of a large function stay apart"""
    if not lines or lineno < 1 or lineno > len(lines):
        return ""
    i = lineno - 1
    parts = [lines[i].strip()]
    k = 0
    while parts[0].startswith(".") and i > 0 and k < 6:
        i -= 1
        k += 1
        parts.insert(0, lines[i].strip())
    t = re.sub(r"\s+", " ", " ".join(parts))
    if _GENERIC.match(t) or len(t) < 28:
        ctx = []
        j = i - 1
        while j >= 0 and len(ctx) < 3:
            if lines[j].strip():
                ctx.insert(0, lines[j].strip())
            j -= 1
        t = t + "  <~ " + re.sub(r"\s+", " ", " | ".join(ctx))
    return t


def panic_kind(msg):
    m = msg or ""
    table = [("called `Option::unwrap()` on a `None`", "unwrap-none"), ("called `Result::unwrap()` on an `Err`", "unwrap-err"),
             ("internal error: entered unreachable code", "unreachable"), ("index out of bounds", "index-oob"),
             ("is out of bounds of", "str-index"), ("is not a char boundary", "str-boundary"),
             ("out of range for slice", "slice-range"), ("slice index starts at", "slice-range"),
             ("assertion failed", "assert"), ("assertion `left", "assert"), ("not yet implemented", "todo"),
             ("not implemented", "unimplemented"), ("no entry found for key", "map-key"),
             ("already borrowed", "borrow"), ("already mutably borrowed", "borrow")]
    for pat, k in table:
        if pat in m:
            return k
    mm = re.search(r"attempt to (\w+) with overflow", m)
    if mm:
        return "overflow-" + mm.group(1)
    if "attempt to divide by zero" in m:
        return "div-zero"
    return "msg"


def site_key(path, line, msg):
    """-> (key, loc):  key = '<file>:<fn>:<kind>:<statement slug>-<hash6>' ; loc = '<file>:<line>' (information).
    When the source cannot be read (std / rustc paths) the key falls back on the message signature."""
    import hashlib
    short = norm_site(path)
    loc = "%s:%s" % (short, line)
    lines = _source_lines(path)
    kind = panic_kind(msg)
    if lines is None:
        sig = re.sub(r"[^A-Za-z0-9]+", "_", msg_sig(msg)).strip("_")[:40]
        return "%s:?:%s:%s" % (short, kind, sig), loc
    try:
        ln = int(line)
    except ValueError:
        ln = 0
    fn = enclosing_fn(lines, ln)
    st = statement_text(lines, ln)
    h = hashlib.sha256(st.encode()).hexdigest()[:6]
    slug = re.sub(r"[^A-Za-z0-9]+", "_", st).strip("_")[:36]
    return "%s:%s:%s:%s-%s" % (short, fn, kind, slug, h), loc


def strip_timing(out):
    """Diagnostic / progress text with the timing figures removed."""
    out = re.sub(r"\(parsed in [0-9.]+s\)", "(parsed in Xs)", out)
    out = re.sub(r"\(compiler took [0-9.]+s\)", "(compiler took Xs)", out)
    out = re.sub(r" in [0-9.]+s", " in Xs", out)
    return out
