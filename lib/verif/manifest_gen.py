"""Regenerates MANIFEST.json from the table below (kept in one place so it always validates)."""
import json
import os
import sys

HERE = os.path.dirname(os.path.dirname(os.path.dirname(os.path.abspath(__file__))))

TB = ("Trusted: Coq 8.16.1 kernel (+vm_compute), extraction (ExtrOcamlBasic only), OCaml/Rust/Python glue, "
      "hand-written model tied to /repo by the correspondence streams run on every check. ")

CHECKS = {
    "C25": dict(
        category="proof",
        text=("Coq theorems: for every text and offset the modelled LineIndex::line_col returns (newlines before offset, "
              "offset - line start) without reaching any panic site, and the rendered header is its 1-based version; "
              "model tied to the real line_index crate by exhaustive differential runs (len<=6 quick / <=8 thorough over "
              "{a,LF,CR,TAB,e-acute} x all offsets) and to Diagnostic::display through rendered diagnostics of mutated corpus files."),
        design_ref="DESIGN.md section 6, C25",
        note=TB + "std's partition_point is modelled by its documented specification (precondition proved). Axioms: none.",
        technique="Coq proof (induction over the text) + exhaustive model/implementation correspondence"),
    "C05": dict(
        category="proof",
        text=("Coq theorem by mutual structural induction over ALL programs of a binder-only syntax: the scope-stack model of hir/body.rs "
              "(push/pop/mem::take discipline, params, inline header params, globals) resolves every identifier exactly as an "
              "environment-passing lexical-scoping specification prescribes and never reaches the empty-scope-stack unwrap; after the "
              "committed fix (child scope per switch arm) this holds for switch arguments too (C05_fixed_full); one narrow class "
              "(lambda in a lambda header after a named parameter: assert panic) is refuted and listed as a finding. Tied to hir::lower "
              "via a cfg hook on every identifier occurrence of 4k (quick) / 60k (thorough) generated programs and to printed values of built programs."),
        design_ref="DESIGN.md section 6 C05, section 10.6",
        note=TB + "Cast/index lowering order, labels, imports and directives are outside the model (they do not touch scopes). Axioms: none.",
        technique="Coq proof (refinement of a stack machine to environment-passing semantics) + differential correspondence + end-to-end printed values"),
    "C14": dict(
        category="proof",
        text=("Coq theorems for EVERY typing oracle and every access path: the arm-for-arm model of get_mutability (assignment and ^mut consumers) "
              "is SOUND IN FULL for the repaired code (C14_fix2_full_sound: an accepted assignment or ^mut never targets an immutable "
              "place, with every auto-dereferenced pointer level taken into account) and complete outside a precisely defined class; for the "
              "pre-fix variants soundness is refuted by witnesses (call results, indexed pointers, second dereference, multi-level auto-deref) "
              "kept as history. Exhaustive chain enumeration (16 root "
              "types x <=3 steps x plain/compound/^mut/^) through the real front end vs the model; accepted programs are built and run and no "
              "`::` cell may change (run-time oracle independent of the model)."),
        design_ref="DESIGN.md section 6 C14, section 10.6",
        note=TB + "Block-tail, cast and file-member arms are modelled and proved about but not generated. Axioms: none.",
        technique="Coq proof (case analysis over access paths with a typing oracle) + exhaustive front-end correspondence + run-time immutability oracle"),
    "C15": dict(
        category="proof",
        text=("Coq theorems about the model of get_const (the real worklist, fuel = tree size proved sufficient), const_data and the consumers: "
              "get_const answers Const exactly for expressions const by the README rule (char literals excepted, refuted witness), accepted "
              "array lengths and discriminants denote the expression's value, non-const is reported, consumers do not crash on supported "
              "kinds (comptime-argument crashes refuted with witnesses). A multi-file world model (names resolved in the file of the body being evaluated) with value theorems "
              "for worlds (C15_world_accepted_*_denotes). Exhaustive expression kind x const position x declaration order through the real front "
              "end with comptime evaluation; accepted array lengths reflected at run time; 60 imported-global chains with same-named globals in "
              "the importer, reflected values compared with the denoted value."),
        design_ref="DESIGN.md section 6 C15, section 10.6",
        note=TB + "The type-annotation consumer (const_ty) is checked with the spec as oracle but not modelled; JIT evaluation and two indexing crashes lie outside the model and are reported as findings. Axioms: none.",
        technique="Coq proof (worklist invariant with fuel bound, inductive IsConst) + exhaustive front-end correspondence + end-to-end reflected lengths"),
    "C01": dict(
        category="translation_validation",
        text=("Independent oracle = definitional interpreter eval_prog of coq/Common/CapyCore.v (integers of all 12 types with wrap-around, "
              "truncating division, masked shifts, casts; bool; locals; assignment to places; if/else; while/loop; labelled break/continue; "
              "blocks with values; calls/recursion; return; bounds-checked arrays; structs; defer (LIFO, exactly once); enums with payloads, optionals, error unions, switch with argument and default arm, #is_variant, #unwrap (abort fault), .try; print events; exit status = main's result mod 256; "
              "fault = message + exit 1). Coq proves its meta-theory: determinism, fuel monotonicity, preservation and type safety "
              "(C01_type_safety_partial: a program accepted by well_typed never gets stuck, for every fuel). Every run: 64 boundary programs "
              "+ 240 (quick) / 1500 (thorough) generated well-typed programs are re-checked by the extracted well_typed, evaluated by the "
              "extracted interpreter, compiled by the real capy and run; stdout and exit status must agree; failing programs are shrunk on the AST."),
        design_ref="DESIGN.md section 6 C01, section 10.12",
        note=TB + "The semantics itself is the specification (written from the README and observation). Not yet in CapyCore: char, slices, pointers, lambdas, varargs, floats (pointers/slices need a store-based semantics). Division by zero / MIN/-1 are machine traps (skipped). No simulation proof source->Cranelift IR exists or is claimed; lowering-decision theorems live in C02/C03/C08/C10/C11. Axioms: none.",
        technique="Translation validation against a Coq-defined semantics + Coq proofs of the semantics' meta-theory (type safety by a step functional)"),
    "C02": dict(
        category="proof",
        text=("Coq theorems, for ALL layout numbers satisfying the layout invariants and, through Common/Layout.v, for all well-formed TYPES with stride <= 4096 (C02_typed_*): the byte footprint of every modelled store-emitting "
              "operation (write_all, cast_into_memory arms, tagged-union payload casts, nil values, memset loops swept to 4096 and lifted by "
              "forallb, ABI cast words) lies inside its destination outside exactly characterised classes; field-wise literal stores are proved in place and pairwise disjoint (C02_literal_*). For the pinned code the full statement was "
              "refuted (pointer-width tag store; stride-sized aggregate copies); both were repaired in /repo (38e2441, 7d3c1b1) and the "
              "repaired variants are proved (C02_fixed_tag_variant_to_enum, C02_sizecopy_except_known). Guard-byte programs on the real capy: changed guards must equal the model's "
              "prediction (correspondence) and, outside known classes, none may change (oracle)."),
        design_ref="DESIGN.md section 6 C02, section 10.13",
        note=TB + "A literal that reads its own destination (C02-4) stays an open finding; stack-slot adjacency is Cranelift's and not modelled. Axioms: none.",
        technique="Coq proof (footprint arithmetic with refuted/except-known classes) + end-to-end guard-byte correspondence"),
    "C04": dict(
        category="proof",
        text=("Coq theorems about the model of comptime result capture and re-materialisation (comptime.rs, functions.rs Expr::Comptime) and the "
              "checker's ComptimePointer guard: scalar round trip for every integer width and any register garbage, f32-via-f64 exact at bit "
              "level for non-NaN, data and type-id round trips for pointer-free types, side effects happen once; guard completeness and the "
              "accepted-result round trip are refuted (str, aggregates with pointers/slices, ?^T, i128, nested enum results) and proved "
              "outside those narrow classes. End to end: generated comptime blocks print the comptime copy next to a run-time copy."),
        design_ref="DESIGN.md section 6 C04, section 10.12",
        note=TB + "What the JIT-compiled body computes is not modelled (run time). Axioms: none.",
        technique="Coq proof (encode/decode round trips, refuted/except-known) + end-to-end comptime-vs-runtime programs"),
    "C16": dict(
        category="proof",
        text=("PARTIAL. Proved in Coq on the reference semantics (CapyCore eval under a comptime environment): evaluating generic code equals "
              "evaluating the substituted code (C16_subst_equiv), a generic call behaves like a call to the appended hand-substituted copy up "
              "to the fault's function index, equal comptime arguments give equal behaviour, instantiation-table non-interference. The real "
              "instantiation machinery is only tested: generated programs with generic functions (1-3 comptime parameters: integer types, "
              "integers; nested generic calls; forwarding chains that pass comptime parameters on in permuted/duplicated order with compile-time fingerprints) instantiated 1-4 times vs the same AST with substituted copies (python subst = extracted Coq "
              "subst_fun on every case); real generic = real copy = eval_prog."),
        design_ref="DESIGN.md section 6 C16, section 10.12",
        note=TB + "Type arguments: integer and distinct integer types, struct/enum types for opaque uses, generics in another file; not generated: inline header references and varargs; the table model is not tied to hir_ty by a harness. Axioms: none.",
        technique="Coq proof (substitution lemma by induction on fuel over a step functional) + end-to-end differential generic/substituted programs"),
    "C19": dict(
        category="proof",
        text=("Coq theorems for ALL structs of scalars and nested fixed arrays (any number of fields): the code's eightbyte merge and "
              "classify_arg equal the System V AMD64 classification written independently (MEMORY exactly when SysV says so, else the same "
              "class array; no panic site, no fuel exhaustion); field layout equals C's; split_aggregate's cast words sit at 0 and 8, carry the "
              "eightbyte's class and over-cover by an exactly stated amount (exact coverage refuted, witness {[3]u8}). The whole-signature "
              "rule (6 INTEGER / 8 SSE registers, whole-argument spill, MEMORY arguments on the stack, sret through a hidden pointer) is proved "
              "for any number of parameters (C19_passmode_agrees, induction over the parameter list with the register counters as invariant); "
              "read extents of the caller are characterised (over-read refuted, witness {[3]u8}). The extracted abi_ok also runs on the real "
              "fn_ty_to_abi (cfg hook) for ~10k signatures per run; both call directions are run against gcc -O0/-O2."),
        design_ref="DESIGN.md section 6 C19, section 10.13",
        note=TB + "Cranelift's sequential register assignment and gcc are trusted and exercised end to end; x86-64 System V only. Axioms: none.",
        technique="Coq proof (classification agreement by induction over fields) + verified checker on the real ABI lowering + end-to-end against gcc"),
    "C03": dict(
        category="proof",
        text=("Coq model of label lowering (hir body.rs) + the defer-stack code generator (functions.rs) + execution, against a big-step "
              "semantics in which leaving a block by any path runs the defers reached so far, newest first, once. After the committed fix "
              "(c8af5e1) the full theorem holds for ALL accepted programs (C03_fixed_full, structural induction + induction on loop "
              "iterations); for the pre-fix code generator the full statement is refuted by three witnesses and proved outside the three "
              "syntactic classes (kept as history). Label resolution proved correct for all programs; no modelled panic site reachable. "
              "Tied to /repo per run by ~15k (quick) / 229k (thorough) real capy executions vs extracted model vs extracted spec and a "
              "label-error acceptance stream."),
        design_ref="DESIGN.md section 6 C03, section 10.7",
        note=TB + "Deferred expressions are atomic; ScopeIds are nesting levels; Cranelift/linker/libc are end to end only. Axioms: none.",
        technique="Coq proof (simulation of the defer-stack compiler against big-step semantics) + end-to-end differential correspondence + extracted spec as oracle"),
    "C10": dict(
        category="proof",
        text=("Coq theorems on a lowering-trace model of a[i] and #unwrap: an out-of-range index yields only descriptor loads, the message and "
              "exit 1 (no element access, before the assigned value is evaluated); an in-range index accesses exactly one element at "
              "base+i*stride, at any nesting depth (induction); wrong-variant #unwrap aborts; literal out-of-range rejected iff idx>=size. "
              "For the repaired code the index theorems hold with no excluded class (C10_fixed_full: every index type incl. u128, every element type "
              "incl. zero-sized); the #unwrap statement stays refuted for discriminants above 255 (8-bit tag overflow). End-to-end programs with run-time indices 0..len+4, boundary values, unwraps of every sum kind, literal indices."),
        design_ref="DESIGN.md section 6 C10, section 10.7",
        note=TB + "a[i] += v, indexing of globals and inside comptime are not modelled; a reordering of load/store before the check is only visible to the trace theorem, not end to end. Axioms: none.",
        technique="Coq proof on a lowering-trace model + end-to-end correspondence + extracted value-level spec"),
    "C11": dict(
        category="proof",
        text=("Coq theorems: automatically assigned discriminants are pairwise distinct for every enum (two-pass invariant, no bound); the switch "
              "checker accepts iff arms are variants, duplicate-free and (exhaustive or default); dispatch runs exactly the arm of the value's "
              "variant with the payload bound, else the default. For the repaired code the checker theorems hold for every scrutinee incl. distinct/variant wrappers (C11_fx_check_accepts_iff, "
              "C11_fx_check_no_crash_full); still refuted and listed as findings: discriminants above 255 (tag overflow) and the ?^T default-arm assert. Front-end stream (4k switches: "
              "diagnostic kind or panic vs model) and end-to-end stream (~640 compiled switches over all variants)."),
        design_ref="DESIGN.md section 6 C11, section 10.7",
        note=TB + "MultipleDefaultArms / RegularArmAfterDefault are compared against a Python spec, arm body types are not modelled, types are abstracted to atoms. Axioms: none.",
        technique="Coq proof (invariant over the two-pass discriminant assignment, checker iff, dispatch table) + differential correspondence + end-to-end"),
    "C26": dict(
        category="proof",
        text=("Coq refinement proof, for ALL histories of the type checker's usage protocol (no bound on items or rounds): the complete model of "
              "topo::TopoSort (insertion-ordered maps, shift_remove, num_children underflow as Crash) represents an abstract scheduler "
              "(pending/done/waits); peek_all offers exactly the ready items in order, CycleErr iff something is pending and nothing ready, "
              "then every pending item waits on a pending item; completed items are never offered again; the worklist empties when all "
              "complete; no underflow under the protocol (reachable outside it, witness). Stream A drives the real TopoSort<u32> on 44k "
              "exhaustive + 20k random protocol histories + 20k malformed sequences; stream B checks the protocol and the offers on traces "
              "of the real InferenceCtx::finish (cfg hook) over the examples, core and generated multi-file programs."),
        design_ref="DESIGN.md section 6 C26, section 10.8",
        note=TB + "That hir_ty follows the protocol is validated on recorded traces every run, not proved about globals.rs; indexmap semantics and dev-profile overflow checks are assumed. Axioms: none.",
        technique="Coq proof (representation invariant, induction over histories) + exhaustive/random API correspondence + protocol validation on real traces"),
    "C20": dict(
        category="proof",
        text=("PARTIAL. Proved in Coq: confluence of the finish loop over the C26 TopoSort model for an abstract inference step given as "
              "section hypotheses (acyclic deps via a rank, result a function of the deps' results, completes only when deps are finished, "
              "asks only for unfinished real deps): results are equal for every permutation of the seed, the finished set is exactly the "
              "reachable set, no panic site reachable, fuel monotone; hypotheses satisfiable. Not proved: termination, that the real infer "
              "satisfies the hypotheses, cyclic programs, indexing/imports/codegen. Those are covered by a metamorphic end-to-end stream: "
              "generated accepted programs with 3-12 interdependent globals, permuted and split into <=3 files, built and run with the "
              "real capy; acceptance, stdout and exit status must be invariant."),
        design_ref="DESIGN.md section 6 C20, section 10.8",
        note=TB + "The section hypotheses on `infer` are part of the trusted base of this property (only the TopoSort protocol of the real infer is validated, by C26 stream B). Axioms: none.",
        technique="Coq proof of scheduler confluence under stated hypotheses (partial) + metamorphic end-to-end testing"),
    "C08": dict(
        category="proof",
        text=("Coq theorems with the operand VALUE universally quantified (Z): the modelled instruction selection of compile_num_binary / unary "
              "ops / cast_num / get_final_ty / Ty::max, interpreted over Common/Bits.v, meets the two's-complement specification for all 14 "
              "integer-like types and 18 operators (128-bit / and % excepted: refuted, does not compile), the full 14x14 integer cast matrix "
              "with no excluded class for the repaired code (C08_cast_full_fixed; the pre-fix zero-extension defect is kept as refuted history), comptime re-materialisation of integers, and "
              "int<->float casts outside two refuted classes (Flocq). Real capy runs 200-triple programs at run time AND in comptime; the "
              "extracted model predicts and the extracted spec judges every printed bit pattern."),
        design_ref="DESIGN.md section 6 C08, section 10.9",
        note=TB + "Cranelift instruction semantics are trusted as written in Bits.v/Floats.v and validated by the stream (x86_64 only); float arithmetic/comparisons have correspondence only; weak operand types are outside the theorems. Axioms: integer theorems none; float-cast theorems depend on Flocq's classical real-number axioms (Classical_Prop.classic, ClassicalDedekindReals.sig_forall_dec, sig_not_dec, FunctionalExtensionality.functional_extensionality_dep).",
        technique="Coq proof (bit-vector arithmetic on Z with lia/Z.div_mod_to_equations, Flocq for floats) + end-to-end differential correspondence + extracted spec as oracle"),
    "C09": dict(
        category="proof",
        text=("Coq theorems about the model of literal lowering (decimal with _ and e, hex, bin, char/string escapes), acceptance "
              "(get_max_int_size, expect_match shortcut) and defaulting (finalize_int): checked left-to-right parsing returns the positional "
              "value iff it fits u64 (induction), escapes denote their characters, a literal is accepted iff it fits its type and keeps its "
              "value, in full for the repaired code (C09_lower_dec_full_fixed, C09_accept_full_fixed; i128/isize limits and 0e20 were repaired), outside one "
              "remaining refuted class (unannotated literals above i32::MAX are compiled as i32). Front-end harness for acceptance/escapes (11k spellings), real capy for printed values."),
        design_ref="DESIGN.md section 6 C09, section 10.9",
        note=TB + "Float literals and global literals are checked against an exact-rational / observed-rule oracle only (no Coq model); f32 double rounding found there. Axioms: none.",
        technique="Coq proof (induction over digit lists) + front-end correspondence + end-to-end printed values"),
    "C24": dict(
        category="proof",
        text=("Coq theorem for ALL correctly parenthesised expression trees (strong induction on tree size, fuel 6(n+1)): the fuelled "
              "transcription of the Pratt parser of grammar/expr.rs (binding powers, prefix/postfix handling, call-argument loop, "
              "quick-assign look-ahead, lambda detection scan) parses the printed tokens back to the tree with no errors; minimal and "
              "redundant printers correct; coded binding powers equal the documented table; left associativity, level order, prefix/postfix "
              "tighter with the exact code-derived prefix-vs-postfix relation. Real lexer+parser+ast accessors vs model vs tree on all trees "
              "to depth 3 (reduced operator set), all operator pairs, sampled depth 5, token mutants."),
        design_ref="DESIGN.md section 6 C23/C24, section 10.10",
        note=TB + "Token-kind level; constructs outside the expression fragment return Unsupported in the model; the trivia defect C24-1 was repaired in /repo (d7fa2e4). Axioms: none.",
        technique="Coq proof (print/parse round trip by strong induction) + differential correspondence through the ast crate"),
    "C23": dict(
        category="proof",
        text=("PARTIAL. Proved in Coq: any trace of the parser-core API (start/complete/precede/bump) with every marker completed yields a "
              "well-bracketed event list with one AddToken per bump; Sink::finish is lossless whenever it returns and cannot return with "
              "surplus AddTokens; every recorded error position lies within the input; previous_token_range out-of-bounds condition "
              "characterised; linear fuel for printed expressions only (parse_terminates_partial). NOT proved: the full grammar's totality, "
              "termination and panic-freedom - decided per input on the real parser by an oracle (no panic, CPU watchdog, linear budget, "
              "tree text == input, error ranges in range) over exhaustive <=4-token sequences, a recovery-stress stream (every loop body x embedding position x recovery-set token), soups, "
              "fixtures/examples/core mutations, nesting to 200; the real event lists are replayed through the extracted Sink model."),
        design_ref="DESIGN.md section 6 C23/C24, section 10.10",
        note=TB + "The whole grammar (31 functions) is transcribed in Model/Grammar.v with cursor monotonicity, error ranges and well-bracketedness proved for both entry points and real event lists compared on every run; parse_fuel_linear is NOT proved. Four genuine parser defects (double bump over trivia; three never-terminating recovery loops) were repaired in /repo (d7fa2e4, 3c3ff74); the model variant in force mirrors the repaired code. Axioms: none.",
        technique="Coq proof of the event/sink layer (partial) + verified checkers on the real parser's output + watchdog oracle"),
    "C07": dict(
        category="proof",
        text=("PARTIAL. Proved in Coq: the gate of main.rs as a decision table (object iff no errors, nothing unsafe, one main, codegen ok; "
              "assert fires iff no errors and something unsafe under tracking), the unsafe-tracking traversal over an abstract HIR flags "
              "every location containing an attributed error (tree induction, no bound) and flags nothing unmarked; the extracted checker "
              "gate_ok decides the observable statement. NOT proved: no diagnostic implies nothing unsafe / codegen succeeds (a whole-checker "
              "invariant) - tested per input: gate_ok runs on (errors, unsafe, codegen outcome) of the real pipeline for near-valid programs "
              "(one type/mutability/const/scope-breaking mutation), gate model vs real capy build, error-free programs linked and run."),
        design_ref="DESIGN.md section 6 C07, section 10.11",
        note=TB + "The HIR traversal model is tied to the code only through the oracle (no HIR dump compared). Axioms: none.",
        technique="Coq proof (decision table, tree/fuel induction) + verified checker on the real pipeline + differential gate model"),
    "C06": dict(
        category="proof",
        text=("PARTIAL (a property of the running program). Proved in Coq: the exact no-crash condition of diagnostics rendering (non-empty "
              "range inside the text on char boundaries, not ending on a newline; CR-free texts) and crash witnesses outside it, plus "
              "re-exported totality theorems of the line index and the lexer. The rendering model equals the real Diagnostic::display on "
              "24k cases including which panic site fires. Everything else is exploration: child-process fuzzing of the real capy build "
              "(random UTF-8, corpus mutations, mutated well-typed programs; panic site, verifier text, CPU-time hang criterion), crashes "
              "de-duplicated by panic site; ~30 reproduced sites are known findings, any other site is a violation."),
        design_ref="DESIGN.md section 6 C06, section 10.11",
        note=TB + "Rust stack overflow, Cranelift verifier, allocator exhaustion and wall-clock time cannot be exhibited by a Gallina model; panic classes are file:line with a +-12 line tolerance; the hang criterion is CPU time scaled by a reference compile. Axioms: none.",
        technique="Coq proof for modelled components (partial) + model/implementation correspondence for rendering + fuzzing oracle with per-site classes"),
    "C21": dict(
        category="proof",
        text=("PARTIAL (mostly run-time). Proved in Coq: outputs of sorted iteration, commutative folds and the unsafe-tracking loop are invariant "
              "under permutation of unordered-container iteration; first-use type-id numbering is prefix-stable and injective; main-file "
              "choice invariant when unique; diagnostic PRINT ORDER across files is refuted as order-dependent (FxHashMap iteration), so "
              "that facet is tested only. Run-time stream: generated valid and invalid programs built 3 times in fresh processes (different "
              "directories, stale out/, padded environments), object bytes and diagnostics compared; library-level file-load order."),
        design_ref="DESIGN.md section 6 C21, section 10.11",
        note=TB + "ASLR, pointer hashing (internment) and time cannot be exhibited by deterministic Gallina functions. Axioms: none.",
        technique="Coq proof of order-invariance lemmas (partial) + repeated-build differential testing"),
    "C12": dict(
        category="proof",
        text=("Coq theorems over ALL types of the Ty syntax (no pool, no bound) about the arm-for-arm model of Ty::can_fit_into / "
              "can_cast_to / is_weak_replaceable_by / max: fit is reflexive, fit implies cast, weak-replaceable implies fit in full for the "
              "repaired code (C12_weak_implies_fit_full_fixed), max never panics; max accepts both operands and is order-independent outside "
              "exactly defined classes (boolean classifiers shared by theorems and run-time oracle; the distinct-arm class is empty for the "
              "repaired code, the zero-sized-under-sum class C12-3 stays open). Model tied to the real crate by 360k ordered pairs x 11 "
              "functions + 4140 front-end programs per run; every law is also evaluated on the implementation's own answers."),
        design_ref="DESIGN.md section 6 C12/C13, section 10.3",
        note=TB + "The re-inference pass (reinfer_expr) is not modelled; its panic is reported as a failing input. Intern equality = structural equality and FxHashMap = last-wins association list are assumed. Axioms: none.",
        technique="Coq proof (nested structural induction over types) + differential correspondence + law oracle on the implementation"),
    "C13": dict(
        category="proof",
        text=("Coq theorem over ALL types: a nominal value (distinct, variant, named struct) accepted by the modelled can_fit_into never lands "
              "on a different nominal type nor on its own underlying type, outside one refuted narrow class (own distinct wrapper, C13-1; the same-shape-struct-into-variant-payload class is empty for the repaired code); casts distinct<->underlying accepted both ways. Same correspondence streams as C12 "
              "plus a program-level acceptance matrix (annotation, argument, return, if/else both orders) against the ExpectMatch model."),
        design_ref="DESIGN.md section 6 C12/C13, section 10.3",
        note=TB + "Value preservation of distinct<->underlying casts is a lowering fact covered by C08. Assignment and binary-operand positions are not generated at program level. Axioms: none.",
        technique="Coq proof (structural induction over types) + differential correspondence + law oracle on the implementation"),
    "C17": dict(
        category="proof",
        text=("Coq theorems over ALL well-formed types and both pointer widths about the arm-for-arm model of codegen/layout.rs (u32 arithmetic "
              "with explicit panic sites): align in {1,2,4,8}; struct offsets aligned, in order, non-overlapping, inside the size; array size = "
              "len*stride; distinct/variant transparent; optional-of-pointer pointer-sized; enum/optional/error-union tag at max payload, size = "
              "tag+1; stride = size rounded up; model = independent specification (C struct layout) whenever it returns, and it returns whenever "
              "sizes fit u32. Unrestricted array rule refuted ([2^32]u8 has size 0). Tied to the real calc_layouts by exhaustive depth<=2 "
              "enumeration + random depth 3 at 64/32 bit and to host gcc offsetof."),
        design_ref="DESIGN.md section 6 C17, section 10.5",
        note=TB + "LAYOUTS memo table not modelled (pure cache). Overflow = panic assumes the dev profile. Types are built from Ty constructors directly through a cfg hook. Axioms: none.",
        technique="Coq proof (nested structural induction over types, refinement model->spec) + exhaustive/differential correspondence + rule oracle on the implementation + gcc comparison"),
    "C18": dict(
        category="proof",
        text=("Coq theorems about the model of convert.rs type ids and the meta.capy readers: decoding recovers every field of a simple id "
              "(finite bit-field domain, lifted by forallb); for all well-formed bit-packed types the asserts never fire and the id carries "
              "the specified size/align/width/sign/mutability; simple-id injectivity refuted (isize/i64) and proved outside that class; "
              "compound-id arithmetic. The to_type_id table walk is modelled and compared with the real code on <=30-type sequences; reflection "
              "tables, offsets, type equality and any are checked end to end by generated programs run with the real capy against the C17 "
              "specification and address arithmetic."),
        design_ref="DESIGN.md section 6 C18, section 10.5",
        note=TB + "Not proved: that the emitted layout/info arrays are in counter order (ty_info.rs emission) and the any/type casts - covered by correspondence / end-to-end only (64-bit host). Axioms: none.",
        technique="Coq proof (finite bit-field sweep lifted by forallb, case analysis) + differential correspondence + end-to-end reflection programs"),
    "C22": dict(
        category="proof",
        text=("Coq theorem: for EVERY input text the model lexer (reading of tokenizer.txt under Logos maximal munch + the "
              "hand-written sub-lexers lex_char/lex_string/lex_comment) terminates without crash and its tokens satisfy the "
              "specification lex_ok (start at 0, contiguous, ordered, end at the byte length, every boundary a char boundary, "
              "every kind agrees with its text; losslessness corollary). The Logos automaton is generated code, so the model is "
              "tied to the real lexer by exhaustive differential runs over the 24-symbol alphabet (len<=3 quick, <=4 thorough), "
              "every Unicode-Nd range endpoint, random/corpus streams, and the extracted lex_ok is run on the real lexer's tokens."),
        design_ref="DESIGN.md section 6, C22",
        note=TB + "The Logos-generated automaton and regex-syntax's Unicode tables are not verified; tokenizer.txt literals/regexes are compared with the model's tables on every run. Axioms: none.",
        technique="Coq proof (induction on fuel/text, Cover invariant) + exhaustive model/implementation correspondence + verified checker on real tokens"),
    "C27": dict(
        category="proof",
        text=("Coq theorems about a complete model of codegen/mangle.rs and FileName::get_components: a verified decoder inverts "
              "mangling on every Safe descriptor (no bound on path/name length or indices), hence injectivity there; a mangled name is never "
              "main/_CI..E/.str_N/.i128_N/.member_strN; for arbitrary non-empty part lists equal strings are position-wise equal up to "
              "the digit escape. Full injectivity is refuted (digit-escape, dot-dash, src-drop witnesses). Model tied to the real code "
              "through a cfg hook: exhaustive paths<=3 over a 12/20-name pool x 11 descriptor shapes + random descriptors, pairwise "
              "collision search on the implementation's symbols with an extracted mechanism classifier, decoder run on real strings, "
              "colliding pairs rebuilt end to end (DuplicateDefinition)."),
        design_ref="DESIGN.md section 6 C27, section 10.4",
        note=TB + "The collision classifier is extracted but only verified on the witnesses; user-chosen extern names are outside the statement. Axioms: none.",
        technique="Coq proof (decoder round trip, induction over parts) + exhaustive correspondence + collision-search oracle"),
    "C28": dict(
        category="proof",
        text=("Coq theorems about a model of lower_import (#import/#mod), join+path_clean on absolute paths, SubDir and the "
              "compile work list against a file-system oracle: resolution equals walking the path from the importer's directory; "
              "every outcome (accept, not .capy, not found, outside, mod not alphanumeric/missing/without mod.capy) characterised by an "
              "iff; the work list returns exactly the reachable files, duplicate-free, for any number of files (fuel justified by the "
              "not-yet-compiled measure). Tied to the real capy CLI on generated directory trees (events, per-import target, diagnostics, "
              "exit status) and to an independent evaluation of the property on the real file system."),
        design_ref="DESIGN.md section 6 C28, section 10.4",
        note=TB + "file.name member resolution is only exercised end to end; symlinks/OS path semantics not modelled. Axioms: none.",
        technique="Coq proof (fold/stack path semantics, BFS invariant with measure) + end-to-end CLI correspondence + file-system oracle"),
}

NOT_YET = {}


def main():
    props = [json.loads(l)["id"] for l in open(os.path.join(HERE, "properties.jsonl"))]
    checks = []
    for pid in props:
        if pid not in CHECKS:
            continue
        c = CHECKS[pid]
        checks.append({
            "property_id": pid,
            "quick_cmd": "./check %s --tier quick" % pid,
            "thorough_cmd": "./check %s --tier thorough" % pid,
            "evidence_file": "/verif/evidence/%s.json" % pid,
            "replay_cmd_template": "./check %s --replay {path}" % pid,
            "engine": "coq-mctc",
            "level_claimed": {"category": c["category"], "text": c["text"], "design_ref": c["design_ref"]},
            "level_note": c["note"],
            "technique": c["technique"],
        })
    na = [{"property_id": pid, "reason": NOT_YET.get(pid, "not yet built in this round: no Coq model/check exists yet, so nothing is claimed (see DESIGN.md section 7 for the plan)")}
          for pid in props if pid not in CHECKS]
    m = {
        "version": 1,
        "setup_cmd": "./setup.sh",
        "hooks": {
            "guard": "capy_verif",
            "enable": "RUSTFLAGS=\"--cfg capy_verif\" (set by lib/verif/common.py:env_offline for every cargo build of the harness workspace and of capy)",
            "baseline_off_cmd": "cd /repo && CARGO_NET_OFFLINE=true cargo test --workspace --no-fail-fast --offline",
            "source_commits": HOOK_COMMITS,
            "add_only": True,
        },
        "engines": [{
            "name": "coq-mctc",
            "path": "/verif/check",
            "serves_properties": [c["property_id"] for c in checks],
            "kind_free_text": "Model-Checker-Theorem-Correspondence: Coq 8.16 theorems about hand-written Gallina models of the anchored Rust code; extracted models and verified checkers run against the real crates / capy executable on generated inputs every run",
        }],
        "checks": checks,
        "not_applicable": na,
        "notes": "See DESIGN.md. known_findings.json lists genuine defects that are recorded rather than repaired.",
    }
    with open(os.path.join(HERE, "MANIFEST.json"), "w") as f:
        json.dump(m, f, indent=1)
        f.write("\n")


HOOK_COMMITS = ["1c1e07d", "c523f62", "efaef7a", "9e918b4", "c8b1eb9", "a81023b", "f65f0bd"]

if __name__ == "__main__":
    main()
