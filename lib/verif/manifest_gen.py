"""Regenerates MANIFEST.json from the table below (kept in one place so it always validates)."""
import json
import os
import sys

HERE = os.path.dirname(os.path.dirname(os.path.dirname(os.path.abspath(__file__))))

TB = ("Trusted: Coq 8.16.1 kernel (+vm_compute), extraction (ExtrOcamlBasic only), OCaml/Rust/Python glue, "
      "hand-written model tied to /repo by the correspondence streams run on every check. ")

CHECKS = {
    "C25": dict(
        category="proof",
        text=("Coq theorems: for every text and offset the modelled LineIndex::line_col returns (newlines before offset, "
              "offset - line start) without reaching any panic site, and the rendered header is its 1-based version; "
              "model tied to the real line_index crate by exhaustive differential runs (len<=6 quick / <=8 thorough over "
              "{a,LF,CR,TAB,e-acute} x all offsets) and to Diagnostic::display through rendered diagnostics of mutated corpus files."),
        design_ref="DESIGN.md section 6, C25",
        note=TB + "std's partition_point is modelled by its documented specification (precondition proved). Axioms: none.",
        technique="Coq proof (induction over the text) + exhaustive model/implementation correspondence"),
    "C05": dict(
        category="proof",
        text=("Coq theorem by mutual structural induction over ALL programs of a binder-only syntax: the scope-stack model of hir/body.rs "
              "(push/pop/mem::take discipline, params, inline header params, globals) resolves every identifier exactly as an "
              "environment-passing lexical-scoping specification prescribes and never reaches the empty-scope-stack unwrap; after the "
              "committed fix (child scope per switch arm) this holds for switch arguments too (C05_fixed_full); one narrow class "
              "(lambda in a lambda header after a named parameter: assert panic) is refuted and listed as a finding. Tied to hir::lower "
              "via a cfg hook on every identifier occurrence of 4k (quick) / 60k (thorough) generated programs and to printed values of built programs."),
        design_ref="DESIGN.md section 6 C05, section 10.6",
        note=TB + "Cast/index lowering order, labels, imports and directives are outside the model (they do not touch scopes). Axioms: none.",
        technique="Coq proof (refinement of a stack machine to environment-passing semantics) + differential correspondence + end-to-end printed values"),
    "C14": dict(
        category="proof",
        text=("Coq theorems for EVERY typing oracle and every access path: the arm-for-arm model of get_mutability (assignment and ^mut consumers) "
              "accepts exactly the type-directed mutable places outside a precisely defined class `suspect` (the arms that look at the "
              "initialiser expression instead of the pointer type), where soundness and completeness are refuted by witnesses replayed "
              "on the real compiler (writes through immutable pointers that change a `::` binding). Exhaustive chain enumeration (16 root "
              "types x <=3 steps x plain/compound/^mut/^) through the real front end vs the model; accepted programs are built and run and no "
              "`::` cell may change (run-time oracle independent of the model)."),
        design_ref="DESIGN.md section 6 C14, section 10.6",
        note=TB + "Block-tail, cast and file-member arms are modelled and proved about but not generated. Axioms: none.",
        technique="Coq proof (case analysis over access paths with a typing oracle) + exhaustive front-end correspondence + run-time immutability oracle"),
    "C15": dict(
        category="proof",
        text=("Coq theorems about the model of get_const (the real worklist, fuel = tree size proved sufficient), const_data and the consumers: "
              "get_const answers Const exactly for expressions const by the README rule (char literals excepted, refuted witness), accepted "
              "array lengths and discriminants denote the expression's value, non-const is reported, consumers do not crash on supported "
              "kinds (comptime-argument crashes refuted with witnesses). Exhaustive expression kind x const position x declaration order "
              "through the real front end with comptime evaluation; accepted array lengths reflected at run time."),
        design_ref="DESIGN.md section 6 C15, section 10.6",
        note=TB + "The type-annotation consumer (const_ty) is checked with the spec as oracle but not modelled; JIT evaluation and two indexing crashes lie outside the model and are reported as findings. Axioms: none.",
        technique="Coq proof (worklist invariant with fuel bound, inductive IsConst) + exhaustive front-end correspondence + end-to-end reflected lengths"),
    "C12": dict(
        category="proof",
        text=("Coq theorems over ALL types of the Ty syntax (no pool, no bound) about the arm-for-arm model of Ty::can_fit_into / "
              "can_cast_to / is_weak_replaceable_by / max: fit is reflexive, fit implies cast, weak-replaceable implies fit outside one "
              "narrow refuted class (witness = the compiler's own assert panic), max never panics; the two max laws (accepts both, "
              "order-independent) are refuted at witnesses and otherwise evaluated on the real implementation for every ordered pair of a "
              "600-type universe. Model tied to the real crate by 360k pairs x 11 functions + 2000 front-end programs per run."),
        design_ref="DESIGN.md section 6 C12/C13, section 10.3",
        note=TB + "The re-inference pass (reinfer_expr) is not modelled; its panic is reported as a failing input. Intern equality = structural equality and FxHashMap = last-wins association list are assumed. Axioms: none.",
        technique="Coq proof (nested structural induction over types) + differential correspondence + law oracle on the implementation"),
    "C13": dict(
        category="proof",
        text=("Coq theorem over ALL types: a nominal value (distinct, variant, named struct) accepted by the modelled can_fit_into never lands "
              "on a different nominal type nor on its own underlying type, outside two refuted narrow classes (own distinct wrapper; "
              "same-shape struct into variant payload); casts distinct<->underlying accepted both ways. Same correspondence streams as C12 "
              "plus a program-level acceptance matrix (annotation, argument, return, if/else both orders) against the ExpectMatch model."),
        design_ref="DESIGN.md section 6 C12/C13, section 10.3",
        note=TB + "Value preservation of distinct<->underlying casts is a lowering fact covered by C08. Assignment and binary-operand positions are not generated at program level. Axioms: none.",
        technique="Coq proof (structural induction over types) + differential correspondence + law oracle on the implementation"),
    "C17": dict(
        category="proof",
        text=("Coq theorems over ALL well-formed types and both pointer widths about the arm-for-arm model of codegen/layout.rs (u32 arithmetic "
              "with explicit panic sites): align in {1,2,4,8}; struct offsets aligned, in order, non-overlapping, inside the size; array size = "
              "len*stride; distinct/variant transparent; optional-of-pointer pointer-sized; enum/optional/error-union tag at max payload, size = "
              "tag+1; stride = size rounded up; model = independent specification (C struct layout) whenever it returns, and it returns whenever "
              "sizes fit u32. Unrestricted array rule refuted ([2^32]u8 has size 0). Tied to the real calc_layouts by exhaustive depth<=2 "
              "enumeration + random depth 3 at 64/32 bit and to host gcc offsetof."),
        design_ref="DESIGN.md section 6 C17, section 10.5",
        note=TB + "LAYOUTS memo table not modelled (pure cache). Overflow = panic assumes the dev profile. Types are built from Ty constructors directly through a cfg hook. Axioms: none.",
        technique="Coq proof (nested structural induction over types, refinement model->spec) + exhaustive/differential correspondence + rule oracle on the implementation + gcc comparison"),
    "C18": dict(
        category="proof",
        text=("Coq theorems about the model of convert.rs type ids and the meta.capy readers: decoding recovers every field of a simple id "
              "(finite bit-field domain, lifted by forallb); for all well-formed bit-packed types the asserts never fire and the id carries "
              "the specified size/align/width/sign/mutability; simple-id injectivity refuted (isize/i64) and proved outside that class; "
              "compound-id arithmetic. The to_type_id table walk is modelled and compared with the real code on <=30-type sequences; reflection "
              "tables, offsets, type equality and any are checked end to end by generated programs run with the real capy against the C17 "
              "specification and address arithmetic."),
        design_ref="DESIGN.md section 6 C18, section 10.5",
        note=TB + "Not proved (partial): the table/counter invariant of to_type_id, ty_info.rs emission and the any/type casts are covered by correspondence / end-to-end only (64-bit host). Axioms: none.",
        technique="Coq proof (finite bit-field sweep lifted by forallb, case analysis) + differential correspondence + end-to-end reflection programs"),
    "C22": dict(
        category="proof",
        text=("Coq theorem: for EVERY input text the model lexer (reading of tokenizer.txt under Logos maximal munch + the "
              "hand-written sub-lexers lex_char/lex_string/lex_comment) terminates without crash and its tokens satisfy the "
              "specification lex_ok (start at 0, contiguous, ordered, end at the byte length, every boundary a char boundary, "
              "every kind agrees with its text; losslessness corollary). The Logos automaton is generated code, so the model is "
              "tied to the real lexer by exhaustive differential runs over the 24-symbol alphabet (len<=3 quick, <=4 thorough), "
              "every Unicode-Nd range endpoint, random/corpus streams, and the extracted lex_ok is run on the real lexer's tokens."),
        design_ref="DESIGN.md section 6, C22",
        note=TB + "The Logos-generated automaton and regex-syntax's Unicode tables are not verified; tokenizer.txt literals/regexes are compared with the model's tables on every run. Axioms: none.",
        technique="Coq proof (induction on fuel/text, Cover invariant) + exhaustive model/implementation correspondence + verified checker on real tokens"),
    "C27": dict(
        category="proof",
        text=("Coq theorems about a complete model of codegen/mangle.rs and FileName::get_components: a verified decoder inverts "
              "mangling on every Safe descriptor (no bound on path/name length or indices), hence injectivity there; a mangled name is never "
              "main/_CI..E/.str_N/.i128_N/.member_strN; for arbitrary non-empty part lists equal strings are position-wise equal up to "
              "the digit escape. Full injectivity is refuted (digit-escape, dot-dash, src-drop witnesses). Model tied to the real code "
              "through a cfg hook: exhaustive paths<=3 over a 12/20-name pool x 11 descriptor shapes + random descriptors, pairwise "
              "collision search on the implementation's symbols with an extracted mechanism classifier, decoder run on real strings, "
              "colliding pairs rebuilt end to end (DuplicateDefinition)."),
        design_ref="DESIGN.md section 6 C27, section 10.4",
        note=TB + "The collision classifier is extracted but only verified on the witnesses; user-chosen extern names are outside the statement. Axioms: none.",
        technique="Coq proof (decoder round trip, induction over parts) + exhaustive correspondence + collision-search oracle"),
    "C28": dict(
        category="proof",
        text=("Coq theorems about a model of lower_import (#import/#mod), join+path_clean on absolute paths, SubDir and the "
              "compile work list against a file-system oracle: resolution equals walking the path from the importer's directory; "
              "every outcome (accept, not .capy, not found, outside, mod not alphanumeric/missing/without mod.capy) characterised by an "
              "iff; the work list returns exactly the reachable files, duplicate-free, for any number of files (fuel justified by the "
              "not-yet-compiled measure). Tied to the real capy CLI on generated directory trees (events, per-import target, diagnostics, "
              "exit status) and to an independent evaluation of the property on the real file system."),
        design_ref="DESIGN.md section 6 C28, section 10.4",
        note=TB + "file.name member resolution is only exercised end to end; symlinks/OS path semantics not modelled. Axioms: none.",
        technique="Coq proof (fold/stack path semantics, BFS invariant with measure) + end-to-end CLI correspondence + file-system oracle"),
}

NOT_YET = {}


def main():
    props = [json.loads(l)["id"] for l in open(os.path.join(HERE, "properties.jsonl"))]
    checks = []
    for pid in props:
        if pid not in CHECKS:
            continue
        c = CHECKS[pid]
        checks.append({
            "property_id": pid,
            "quick_cmd": "./check %s --tier quick" % pid,
            "thorough_cmd": "./check %s --tier thorough" % pid,
            "evidence_file": "/verif/evidence/%s.json" % pid,
            "replay_cmd_template": "./check %s --replay {path}" % pid,
            "engine": "coq-mctc",
            "level_claimed": {"category": c["category"], "text": c["text"], "design_ref": c["design_ref"]},
            "level_note": c["note"],
            "technique": c["technique"],
        })
    na = [{"property_id": pid, "reason": NOT_YET.get(pid, "not yet built in this round: no Coq model/check exists yet, so nothing is claimed (see DESIGN.md section 7 for the plan)")}
          for pid in props if pid not in CHECKS]
    m = {
        "version": 1,
        "setup_cmd": "./setup.sh",
        "hooks": {
            "guard": "capy_verif",
            "enable": "RUSTFLAGS=\"--cfg capy_verif\" (set by lib/verif/common.py:env_offline for every cargo build of the harness workspace and of capy)",
            "baseline_off_cmd": "cd /repo && CARGO_NET_OFFLINE=true cargo test --workspace --no-fail-fast --offline",
            "source_commits": HOOK_COMMITS,
            "add_only": True,
        },
        "engines": [{
            "name": "coq-mctc",
            "path": "/verif/check",
            "serves_properties": [c["property_id"] for c in checks],
            "kind_free_text": "Model-Checker-Theorem-Correspondence: Coq 8.16 theorems about hand-written Gallina models of the anchored Rust code; extracted models and verified checkers run against the real crates / capy executable on generated inputs every run",
        }],
        "checks": checks,
        "not_applicable": na,
        "notes": "See DESIGN.md. known_findings.json lists genuine defects that are recorded rather than repaired.",
    }
    with open(os.path.join(HERE, "MANIFEST.json"), "w") as f:
        json.dump(m, f, indent=1)
        f.write("\n")


HOOK_COMMITS = ["1c1e07d", "c523f62", "efaef7a", "9e918b4", "c8b1eb9"]

if __name__ == "__main__":
    main()
