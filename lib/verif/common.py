"""Shared orchestration helpers: paths, PRNG, subprocess, evidence, verdicts."""
import fcntl
import hashlib
import json
import os
import shutil
import subprocess
import sys
import tempfile
import time
from contextlib import contextmanager

VERIF = os.path.dirname(os.path.dirname(os.path.dirname(os.path.abspath(__file__))))
REPO = os.environ.get("VERIF_REPO", "/repo")
CACHE = os.path.join(VERIF, ".cache")
COQ = os.path.join(VERIF, "coq")
OCAML = os.path.join(VERIF, "ocaml")
HARNESS = os.path.join(VERIF, "harness")
TARGET = os.path.join(CACHE, "target")
EVIDENCE = os.path.join(VERIF, "evidence")
REPLAY = os.path.join(VERIF, "replay")
CORPUS = os.path.join(VERIF, "corpus")
NCPU = os.cpu_count() or 4
GUARD = "capy_verif"

MASK = (1 << 64) - 1


class Rng:
    """splitmix64; every random choice of a check derives from one of these."""

    def __init__(self, seed):
        self.s = seed & MASK

    def next(self):
        self.s = (self.s + 0x9E3779B97F4A7C15) & MASK
        z = self.s
        z = ((z ^ (z >> 30)) * 0xBF58476D1CE4E5B9) & MASK
        z = ((z ^ (z >> 27)) * 0x94D049BB133111EB) & MASK
        return z ^ (z >> 31)

    def below(self, n):
        return self.next() % n if n > 0 else 0

    def range(self, lo, hi):  # inclusive
        return lo + self.below(hi - lo + 1)

    def choice(self, seq):
        return seq[self.below(len(seq))]

    def chance(self, num, den):
        return self.below(den) < num

    def shuffle(self, l):
        for i in range(len(l) - 1, 0, -1):
            j = self.below(i + 1)
            l[i], l[j] = l[j], l[i]
        return l

    def fork(self, tag):
        h = hashlib.sha256(("%d/%s" % (self.s, tag)).encode()).digest()
        return Rng(int.from_bytes(h[:8], "big"))


def env_offline(extra=None):
    e = dict(os.environ)
    e.update({
        "CARGO_NET_OFFLINE": "true",
        "CARGO_TARGET_DIR": TARGET,
        "RUSTFLAGS": "--cfg %s" % GUARD,
        "GOPROXY": "off",
        "PIP_NO_INDEX": "1",
        "CARGO_TERM_COLOR": "never",
    })
    if extra:
        e.update(extra)
    return e


def run(cmd, cwd=None, env=None, timeout=None, input=None, check=False, stdout=subprocess.PIPE,
        stderr=subprocess.STDOUT):
    """Run a command, returning (returncode, output text). rc 124 on timeout (the whole
    process group is killed, so no orphaned coqc/rustc keeps running)."""
    import signal
    p = subprocess.Popen(cmd, cwd=cwd, env=env, stdin=subprocess.PIPE if input is not None else subprocess.DEVNULL,
                         stdout=stdout, stderr=stderr, text=True, start_new_session=True)
    try:
        out, _ = p.communicate(input=input, timeout=timeout)
        rc = p.returncode
    except subprocess.TimeoutExpired:
        try:
            os.killpg(p.pid, signal.SIGKILL)
        except OSError:
            pass
        out, _ = p.communicate()
        rc = 124
    out = out or ""
    if check and rc != 0:
        raise RuntimeError("command failed (%d): %s\n%s" % (rc, cmd, out[-4000:]))
    return rc, out


@contextmanager
def locked(name):
    os.makedirs(CACHE, exist_ok=True)
    f = open(os.path.join(CACHE, name + ".lock"), "w")
    try:
        fcntl.flock(f, fcntl.LOCK_EX)
        yield
    finally:
        fcntl.flock(f, fcntl.LOCK_UN)
        f.close()


@contextmanager
def scratch(prefix="verif-"):
    d = tempfile.mkdtemp(prefix=prefix)
    try:
        yield d
    finally:
        shutil.rmtree(d, ignore_errors=True)


def sha(s):
    if isinstance(s, str):
        s = s.encode()
    return hashlib.sha256(s).hexdigest()[:16]


def load_known_findings(prop):
    """Open known findings of `prop` from known_findings.json and known_findings.d/*.json
    (committed files; never written at run time)."""
    import glob as _glob
    paths = [os.path.join(VERIF, "known_findings.json")] + sorted(_glob.glob(os.path.join(VERIF, "known_findings.d", "*.json")))
    res = []
    for p in paths:
        if not os.path.exists(p):
            continue
        with open(p) as f:
            data = json.load(f)
        res += [e for e in data.get("findings", []) if e.get("property") == prop and e.get("status") == "open"]
    return res


class Verdict:
    """Collects violations / known findings / evidence for one check run."""

    def __init__(self, prop, tier, seed, level):
        self.prop = prop
        self.tier = tier
        self.seed = seed
        self.level = level
        self.t0 = time.time()
        self.violations = []      # (replay_path, suffix)
        self.known_hits = {}      # finding id -> (finding, count, example)
        self.class_counts = {}    # unknown failure class -> number of failing inputs
        self.coverage = {"evaluations": 0, "distinct_nontrivial": 0, "rule": "", "samples": []}
        self.assumptions = []
        self.known = load_known_findings(prop)
        self.notes = []
        # replay files of earlier runs of this property are stale
        import glob as _glob
        for f in _glob.glob(os.path.join(REPLAY, "%s-*.json" % prop)):
            try:
                os.remove(f)
            except OSError:
                pass

    # -- reporting -----------------------------------------------------------
    def write_replay(self, payload):
        os.makedirs(REPLAY, exist_ok=True)
        body = json.dumps(payload, indent=1, sort_keys=True, default=str)
        path = os.path.join(REPLAY, "%s-%s.json" % (self.prop, sha(body)))
        with open(path, "w") as f:
            f.write(body)
        return path

    def violation(self, payload, no_input=False):
        """Report a violation (deduplicated by payload['key'] if present)."""
        key = payload.get("key")
        if key is not None and any(k == key for (_, _, k) in self.violations):
            return
        payload = dict(payload)
        payload["property"] = self.prop
        path = self.write_replay(payload)
        self.violations.append((path, " no-failing-input-found" if no_input else "", key))

    def classify(self, cls):
        """Return the open known finding whose class equals cls, if any."""
        for f in self.known:
            if f.get("class") == cls:
                return f
        return None

    def failing(self, cls, payload):
        """A concrete failing input of class `cls`: known finding or violation."""
        f = self.classify(cls)
        if f is not None:
            ent = self.known_hits.setdefault(f["id"], [f, 0, payload])
            ent[1] += 1
        else:
            # at most 3 replay files per class of failure; the rest are only counted
            n = self.class_counts.get(cls, 0) + 1
            self.class_counts[cls] = n
            if n > 3:
                return
            payload = dict(payload)
            payload["class"] = cls
            payload.setdefault("key", cls)
            self.violation(payload)

    def add_samples(self, samples, limit=6):
        for s in samples:
            if len(self.coverage["samples"]) < limit:
                self.coverage["samples"].append(s)

    # -- finish --------------------------------------------------------------
    def finish(self):
        wall = time.time() - self.t0
        for fid, (f, n, ex) in sorted(self.known_hits.items()):
            print("KNOWN-FINDING: property=%s %s [%s] (%d failing inputs this run)"
                  % (self.prop, f.get("what", f.get("class")), fid, n))
        for (path, suffix, _k) in self.violations:
            print("VIOLATION property=%s replay=%s%s" % (self.prop, path, suffix))
        cov = dict(self.coverage)
        cov["known_findings_hit"] = {fid: n for fid, (f, n, ex) in self.known_hits.items()}
        if self.class_counts:
            cov["failing_inputs_by_class"] = dict(self.class_counts)
        if self.notes:
            cov["notes"] = self.notes
        ev = {
            "property_id": self.prop,
            "tier": self.tier,
            "seed": self.seed,
            "level": self.level,
            "coverage": cov,
            "assumptions": self.assumptions,
            "wall_s": round(wall, 2),
            "violations": len(self.violations),
        }
        os.makedirs(EVIDENCE, exist_ok=True)
        with open(os.path.join(EVIDENCE, "%s.json" % self.prop), "w") as f:
            json.dump(ev, f, indent=1, sort_keys=True, default=str)
            f.write("\n")
        print("%s %s: %d evaluations, %d violations, %d known findings hit, %.1fs"
              % (self.prop, self.tier, cov.get("evaluations", 0), len(self.violations),
                 len(self.known_hits), wall))
        return 1 if self.violations else 0


def chunks(l, n):
    for i in range(0, len(l), n):
        yield l[i:i + n]


def parallel_map(fn, items, workers=None):
    """Thread pool map (work is in subprocesses, so threads suffice)."""
    from concurrent.futures import ThreadPoolExecutor
    with ThreadPoolExecutor(max_workers=workers or NCPU) as ex:
        return list(ex.map(fn, items))


def run_lines(cmd, lines, workers=None, case_timeout=10.0, indexed=True, env=None):
    """Feed `lines` to line-server `cmd`, sharded over `workers` processes.
    indexed=True: the tool follows harness/common `serve` (results '#idx\\tres' in
    $VERIF_OUT); a process that dies or stalls loses only the case it was running,
    which is reported as '!DIED:<rc>' / '!TIMEOUT' and the rest is re-run.
    indexed=False: plain stdout lines (the OCaml model drivers)."""
    workers = workers or NCPU
    if not lines:
        return []
    shard = max(1, (len(lines) + workers - 1) // workers)
    parts = list(chunks(list(lines), shard))

    def plain(part):
        p = subprocess.run(cmd, input="\n".join(part) + "\n", stdout=subprocess.PIPE,
                           stderr=subprocess.DEVNULL, text=True, env=env)
        out = p.stdout.split("\n")
        if out and out[-1] == "":
            out.pop()
        if len(out) != len(part):
            out = (out + ["!DIED:%d" % p.returncode] * len(part))[:len(part)]
        return out

    def served(part):
        res = [None] * len(part)
        base = 0
        while base < len(part):
            fd, path = tempfile.mkstemp(prefix="verif-out-")
            os.close(fd)
            e = dict(env or os.environ)
            e["VERIF_OUT"] = path
            sub = part[base:]
            rc = 0
            try:
                p = subprocess.run(cmd, input="\n".join(sub) + "\n", stdout=subprocess.DEVNULL,
                                   stderr=subprocess.DEVNULL, text=True, env=e,
                                   timeout=case_timeout * len(sub) / 4.0 + case_timeout + 30)
                rc = p.returncode
            except subprocess.TimeoutExpired:
                rc = 124
            got = 0
            try:
                with open(path, encoding="utf-8", errors="replace") as f:
                    for l in f:
                        if l.startswith("#") and "\t" in l and l.endswith("\n"):
                            i, r = l[1:-1].split("\t", 1)
                            res[base + int(i)] = r
                            got = max(got, int(i) + 1)
            finally:
                os.remove(path)
            if got >= len(sub):
                break
            res[base + got] = "!TIMEOUT" if rc == 124 else "!DIED:%d" % rc
            base = base + got + 1
        return res

    out = []
    for o in parallel_map(served if indexed else plain, parts, workers):
        out.extend(o)
    return out
