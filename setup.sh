#!/bin/sh
# MANIFEST.setup_cmd: offline build of the Coq development, the extracted model
# drivers, the Rust harness workspace and capy (hooks on) from /repo's tree.
cd "$(dirname "$0")" && PYTHONPATH=lib exec python3 -m verif.setup
