(* Line server for the C12/C13 model (trusted glue: parsing and printing only).

   Type syntax (whitespace separated prefix tokens):
     NYR UNK i<w> u<w> f<w> BOOL STR CHAR TYPE ANY RS NIL VOID AJ
     AA <n> ty | A <n> ty | SL ty | P <0|1> ty | D <uid> ty | RP <0|1> | FILE <n> | PF <loc>
     FN <k> (<flags> ty)*k ty <loc> | FP <k> (<flags> ty)*k ty      flags = <comptime|-1>,<varargs 0|1>,<imp 0|1>
     AS <k> (<name> ty)*k | S <uid> <k> (<name> ty)*k | E <uid> <k> ty*k
     V <euid> <name> <uid> ty <discr> | O ty | EU ty ty

   Input line:  "PAIRS <enums> ; a ; b1 ; b2 ; ..."   (<enums> = enum types registered in ENUM_MAP)
     output: "<mbw a><zs a><cfn a> w1 w2 ..." with per-b word
       <fit><cast><weak><feqF><feqT><hs><cdf>:<max>:<fit a c><fit b c>
     where <max> = N | P | A | B | =<type tokens joined by '_'>.
     Model-only classification is appended after '|': the unary word gets
     "|<known_weak_fit a><value_ty a><is_nominal a>", every pair word gets
     "|<known_max a b><ntarget_code a b><known_order a b>" (extracted classifiers of Spec/TyLaws.v).
   Input line:  "EM <enums> ; <lit 0|1> ; found ; expected"  -> ACCEPT | SILENT | MISMATCH | PANIC
   Input line:  "EB <enums> ; found ; block_ty"  (expect_block_match), "ER ..." (expect_return)  -> same answers
   Input line:  "BIN <enums> ; add|eq ; lhs ; rhs" (binary operator / compound assignment),
                "ASSIGN <enums> ; value ; dest" (plain assignment)  -> same answers *)
open Conv
open Ty

exception Parse of string

let rec parse_ty (toks : string list) : ty * string list =
  match toks with
  | [] -> raise (Parse "eof")
  | t :: r ->
    let num s = n_of_int (int_of_string s) in
    let take1 r = match r with x :: r' -> (x, r') | [] -> raise (Parse "eof") in
    (match t with
     | "NYR" -> (NotYetResolved, r) | "UNK" -> (Unknown, r)
     | "BOOL" -> (TBool, r) | "STR" -> (TStr, r) | "CHAR" -> (TChar, r)
     | "TYPE" -> (TType, r) | "ANY" -> (TAny, r) | "RS" -> (RawSlice, r)
     | "NIL" -> (Nil, r) | "VOID" -> (Void, r) | "AJ" -> (AlwaysJumps, r)
     | "AA" -> let (n, r) = take1 r in let (s, r) = parse_ty r in (AnonArray (num n, s), r)
     | "A" -> let (n, r) = take1 r in let (s, r) = parse_ty r in (Array (num n, s), r)
     | "SL" -> let (s, r) = parse_ty r in (Slice s, r)
     | "P" -> let (m, r) = take1 r in let (s, r) = parse_ty r in (Ptr (m = "1", s), r)
     | "D" -> let (u, r) = take1 r in let (s, r) = parse_ty r in (Distinct (num u, s), r)
     | "RP" -> let (m, r) = take1 r in (RawPtr (m = "1"), r)
     | "FILE" -> let (n, r) = take1 r in (File (num n), r)
     | "PF" -> let (n, r) = take1 r in (PolyFn (num n), r)
     | "FN" -> let (k, r) = take1 r in
       let (ps, r) = parse_params (int_of_string k) r in
       let (ret, r) = parse_ty r in let (l, r) = take1 r in (Fn (ps, ret, num l), r)
     | "FP" -> let (k, r) = take1 r in
       let (ps, r) = parse_params (int_of_string k) r in
       let (ret, r) = parse_ty r in (FnPtr (ps, ret), r)
     | "AS" -> let (k, r) = take1 r in let (ms, r) = parse_members (int_of_string k) r in (AnonStruct ms, r)
     | "S" -> let (u, r) = take1 r in let (k, r) = take1 r in
       let (ms, r) = parse_members (int_of_string k) r in (Struct (num u, ms), r)
     | "E" -> let (u, r) = take1 r in let (k, r) = take1 r in
       let rec go k r = if k = 0 then ([], r) else
           let (v, r) = parse_ty r in let (vs, r) = go (k - 1) r in (v :: vs, r) in
       let (vs, r) = go (int_of_string k) r in (Enum (num u, vs), r)
     | "V" -> let (eu, r) = take1 r in let (nm, r) = take1 r in let (u, r) = take1 r in
       let (s, r) = parse_ty r in let (d, r) = take1 r in (Variant (num eu, num nm, num u, s, num d), r)
     | "O" -> let (s, r) = parse_ty r in (Optional s, r)
     | "EU" -> let (e, r) = parse_ty r in let (p, r) = parse_ty r in (ErrorUnion (e, p), r)
     | _ ->
       let n = String.length t in
       if n >= 2 && (t.[0] = 'i' || t.[0] = 'u' || t.[0] = 'f') then begin
         let w = num (String.sub t 1 (n - 1)) in
         ((match t.[0] with 'i' -> IInt w | 'u' -> UInt w | _ -> TFloat w), r)
       end else raise (Parse ("token " ^ t)))
and parse_params k r =
  if k = 0 then ([], r) else
    match r with
    | fl :: r ->
      let (c, v, i) = match String.split_on_char ',' fl with
        | [c; v; i] -> (int_of_string c, v = "1", i = "1") | _ -> raise (Parse "flags") in
      let pf = { pf_comptime = (if c < 0 then None else Some (n_of_int c)); pf_varargs = v; pf_impossible = i } in
      let (t, r) = parse_ty r in
      let (ps, r) = parse_params (k - 1) r in ((pf, t) :: ps, r)
    | [] -> raise (Parse "eof")
and parse_members k r =
  if k = 0 then ([], r) else
    match r with
    | nm :: r ->
      let (t, r) = parse_ty r in
      let (ms, r) = parse_members (k - 1) r in ((n_of_int (int_of_string nm), t) :: ms, r)
    | [] -> raise (Parse "eof")

let rec show (t : ty) : string list =
  let n x = string_of_int (int_of_n x) in
  match t with
  | NotYetResolved -> ["NYR"] | Unknown -> ["UNK"]
  | IInt w -> ["i" ^ n w] | UInt w -> ["u" ^ n w] | TFloat w -> ["f" ^ n w]
  | TBool -> ["BOOL"] | TStr -> ["STR"] | TChar -> ["CHAR"]
  | AnonArray (k, s) -> "AA" :: n k :: show s
  | Array (k, s) -> "A" :: n k :: show s
  | Slice s -> "SL" :: show s
  | Ptr (m, s) -> "P" :: (if m then "1" else "0") :: show s
  | Distinct (u, s) -> "D" :: n u :: show s
  | TType -> ["TYPE"] | TAny -> ["ANY"]
  | RawPtr m -> ["RP"; if m then "1" else "0"]
  | RawSlice -> ["RS"]
  | File f -> ["FILE"; n f]
  | PolyFn l -> ["PF"; n l]
  | Fn (ps, r, l) -> ("FN" :: string_of_int (List.length ps) :: List.concat_map show_param ps) @ show r @ [n l]
  | FnPtr (ps, r) -> ("FP" :: string_of_int (List.length ps) :: List.concat_map show_param ps) @ show r
  | AnonStruct ms -> "AS" :: string_of_int (List.length ms) :: List.concat_map (fun (k, s) -> n k :: show s) ms
  | Struct (u, ms) -> "S" :: n u :: string_of_int (List.length ms) :: List.concat_map (fun (k, s) -> n k :: show s) ms
  | Enum (u, vs) -> "E" :: n u :: string_of_int (List.length vs) :: List.concat_map show vs
  | Variant (eu, nm, u, s, d) -> ("V" :: n eu :: n nm :: n u :: show s) @ [n d]
  | Nil -> ["NIL"]
  | Optional s -> "O" :: show s
  | ErrorUnion (e, p) -> "EU" :: (show e @ show p)
  | Void -> ["VOID"] | AlwaysJumps -> ["AJ"]
and show_param (pf, t) =
  let c = match pf.pf_comptime with None -> "-1" | Some k -> string_of_int (int_of_n k) in
  (c ^ "," ^ (if pf.pf_varargs then "1" else "0") ^ "," ^ (if pf.pf_impossible then "1" else "0")) :: show t

let sections (line : string) : string list list =
  let toks = List.filter (fun s -> s <> "") (String.split_on_char ' ' line) in
  let rec go cur acc = function
    | [] -> List.rev (List.rev cur :: acc)
    | ";" :: r -> go [] (List.rev cur :: acc) r
    | t :: r -> go (t :: cur) acc r in
  go [] [] toks

let rec parse_many toks = match toks with
  | [] -> []
  | _ -> let (t, r) = parse_ty toks in t :: parse_many r

let one toks = match parse_ty toks with (t, []) -> t | _ -> raise (Parse "trailing")

let bc b = if b then '1' else '0'
let rb = function Util.Ok b -> bc b | Util.Crash _ -> 'P' | Util.OutOfFuel -> 'F'

let enum_map_of (es : ty list) : TyRel.enum_map =
  (* set_enum_uid inserts; a later registration of the same uid overwrites *)
  List.rev (List.filter_map (fun t -> match t with Enum (u, _) -> Some (u, t) | _ -> None) es)

(* model variant: `driver fixes=max,weak,feq` switches on the flags of TyRel.fixes that mirror
   the fix patches C12-2 (max), C12-1 (weak), C13-2 (feq); no argument = pinned commit *)
let fx : TyRel.fixes =
  let on name =
    Array.exists (fun a ->
      String.length a > 6 && String.sub a 0 6 = "fixes=" &&
      List.mem name (String.split_on_char ',' (String.sub a 6 (String.length a - 6)))) Sys.argv in
  { TyRel.fx_max_distinct = on "max"; TyRel.fx_weak_nominal = on "weak"; TyRel.fx_feq_uid = on "feq" }

let show_outcome = function
  | Util.Ok ExpectMatch.Accept -> "ACCEPT"
  | Util.Ok ExpectMatch.SilentReject -> "SILENT"
  | Util.Ok ExpectMatch.Mismatch -> "MISMATCH"
  | Util.Crash s -> "PANIC" ^ string_of_int (int_of_n s)
  | Util.OutOfFuel -> "FUEL"

let () =
  iter_lines (fun line ->
    try
      match sections (String.trim line) with
      | ("PAIRS" :: es) :: a :: bs ->
        let m = enum_map_of (parse_many es) in
        let a = one a in
        let buf = Buffer.create 4096 in
        Buffer.add_char buf (bc (TyRel.might_be_weak a));
        Buffer.add_char buf (bc (TyRel.is_zero_sized a));
        Buffer.add_char buf (rb (TyRel.created_from_nothing fx m a));
        Buffer.add_char buf '|';
        Buffer.add_char buf (bc (TyLaws.known_weak_fit fx a));
        Buffer.add_char buf (bc (TyLaws.value_ty a));
        Buffer.add_char buf (bc (Ty.is_nominal a));
        List.iter (fun btoks ->
          let b = one btoks in
          Buffer.add_char buf ' ';
          Buffer.add_char buf (bc (TyRel.fit fx a b));
          Buffer.add_char buf (bc (TyRel.cast fx a b));
          Buffer.add_char buf (bc (TyRel.weak fx a b));
          Buffer.add_char buf (bc (TyRel.feq fx false a b));
          Buffer.add_char buf (bc (TyRel.feq fx true a b));
          Buffer.add_char buf (bc (TyRel.has_semantics_of fx a b));
          Buffer.add_char buf (rb (TyRel.differentiate fx m a b));
          Buffer.add_char buf ':';
          (match TyRel.tmax fx m a b with
           | Util.Ok None -> Buffer.add_string buf "N:--"
           | Util.Crash _ -> Buffer.add_string buf "P:--"
           | Util.OutOfFuel -> Buffer.add_string buf "F:--"
           | Util.Ok (Some c) ->
             if ty_eqb c a then Buffer.add_char buf 'A'
             else if ty_eqb c b then Buffer.add_char buf 'B'
             else (Buffer.add_char buf '='; Buffer.add_string buf (String.concat "_" (show c)));
             Buffer.add_char buf ':';
             Buffer.add_char buf (bc (TyRel.fit fx a c));
             Buffer.add_char buf (bc (TyRel.fit fx b c)));
          Buffer.add_char buf '|';
          Buffer.add_string buf (string_of_int (int_of_n (TyLaws.known_max fx false a b)));
          Buffer.add_string buf (string_of_int (int_of_n (TyLaws.ntarget_code (TyLaws.ntarget fx a b))));
          Buffer.add_char buf (bc (TyLaws.known_order a b))) bs;
        print_endline (Buffer.contents buf)
      | ("EM" :: es) :: [lit] :: f :: [e] ->
        ignore es;
        let f = one f in
        let e = match e with
          | ["ENUM"] -> ExpectMatch.ExpEnum
          | ["SUM"] -> ExpectMatch.ExpSumType
          | _ -> ExpectMatch.Concrete (one e) in
        print_endline (match ExpectMatch.expect_match fx (lit = "1") f e with
          | Util.Ok ExpectMatch.Accept -> "ACCEPT"
          | Util.Ok ExpectMatch.SilentReject -> "SILENT"
          | Util.Ok ExpectMatch.Mismatch -> "MISMATCH"
          | Util.Crash s -> "PANIC" ^ string_of_int (int_of_n s)
          | Util.OutOfFuel -> "FUEL")
      | ((("EB" | "ER") as kind) :: es) :: f :: [e] ->
        let m = enum_map_of (parse_many es) in
        print_endline (match (if kind = "EB" then ExpectMatch.expect_block_match fx m (one f) (one e)
                              else ExpectMatch.expect_return fx m (one f) (one e)) with
          | Util.Ok ExpectMatch.Accept -> "ACCEPT"
          | Util.Ok ExpectMatch.SilentReject -> "SILENT"
          | Util.Ok ExpectMatch.Mismatch -> "MISMATCH"
          | Util.Crash s -> "PANIC" ^ string_of_int (int_of_n s)
          | Util.OutOfFuel -> "FUEL")
      | ("BIN" :: es) :: [op] :: a :: [b] ->
        let m = enum_map_of (parse_many es) in
        let op = if op = "add" then ExpectMatch.OpAdd else ExpectMatch.OpEq in
        print_endline (show_outcome (ExpectMatch.binary_outcome fx m op (one a) (one b)))
      | ("ASSIGN" :: _) :: value :: [dest] ->
        print_endline (show_outcome (ExpectMatch.assign_outcome fx (one value) (one dest)))
      | _ -> print_endline "!BADLINE"
    with Parse s -> print_endline ("!PARSE " ^ s))
