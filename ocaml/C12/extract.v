From Capy Require Import Common.Util Common.Ty Model.TyRel Model.ExpectMatch Spec.TyLaws.
Require Extraction.
Require Import ExtrOcamlBasic.
Extraction Language OCaml.
Separate Extraction ty_eqb wf_ty nodup_names size might_be_weak is_zero_sized feq fit weak has_semantics_of tmax
  created_from_nothing cast differentiate expect_match expect_block_match expect_return binary_outcome assign_outcome common_ty is_nominal
  accepts value_ty known_weak_fit known_max known_order max_accepts ntarget ntarget_code law_nominal law_fit_implies_cast law_weak_implies_fit law_max_accepts.
