From Capy Require Import Common.Util Model.ParserCore Model.Sink Model.Grammar Spec.ParseSpec.
From Coq Require Import NArith ZArith.
Require Extraction.
Require Import ExtrOcamlBasic.
Extraction Language OCaml.
Separate Extraction parse_top grammar_fuel finish leaves balanced count_add count_nt tree_lossless errs_ok total BinNat.N.succ BinInt.Z.succ.
