(* C23 model driver (trusted glue: names <-> numbers, printing).
   stdin line: "<events> | <tokens>"   events "S<NodeKind> F A ...", tokens "<TokenKind>:<len> ..."
   stdout:     "<balanced> <count_add> <count_nt> <lossless> | <tree>"  or  "... | CRASH<n>" *)
open Conv
open ParserCore
open Sink
open ParseSpec

let names : (string, int) Hashtbl.t = Hashtbl.create 64
let rev_names : (int, string) Hashtbl.t = Hashtbl.create 64
let next = ref 2
let intern s =
  if s = "Comment" then 0 else if s = "Error" then 1 else
  match Hashtbl.find_opt names s with
  | Some n -> n
  | None -> let n = !next in incr next; Hashtbl.add names s n; Hashtbl.add rev_names n s; n
let name_of n = if n = 0 then "Comment" else if n = 1 then "Error" else
  (match Hashtbl.find_opt rev_names n with Some s -> s | None -> "?")

let () =
  iter_lines (fun line ->
    match String.split_on_char '|' line with
    | evs :: toks :: _ ->
      let words s = List.filter (fun w -> w <> "") (String.split_on_char ' ' s) in
      let events = List.map (fun w ->
        if w = "F" then EFinish else if w = "A" then EAdd
        else EStart (n_of_int (intern (String.sub w 1 (String.length w - 1))))) (words evs) in
      let tnames = ref [] in
      let tokens = List.map (fun w ->
        let i = String.rindex w ':' in
        let k = String.sub w 0 i and len = int_of_string (String.sub w (i + 1) (String.length w - i - 1)) in
        tnames := k :: !tnames;
        let kind = match k with
          | "Whitespace" -> KWs | "CommentLeader" -> KCLead | "CommentContents" -> KCCont
          | _ -> KTok (n_of_int (intern ("tok:" ^ k))) in
        (kind, nat_of_int len)) (words toks) in
      let tnames = Array.of_list (List.rev !tnames) in
      let lens = Array.of_list (List.map (fun (_, l) -> int_of_nat l) tokens) in
      let starts = Array.make (Array.length lens + 1) 0 in
      Array.iteri (fun i l -> starts.(i + 1) <- starts.(i) + l) lens;
      let bal = balanced events in
      let ca = int_of_nat (count_add events) and cn = int_of_nat (count_nt (List.map fst tokens)) in
      let buf = Buffer.create 256 in
      let rec show t = match t with
        | STok i -> let i = int_of_nat i in
          Buffer.add_string buf (Printf.sprintf " [%s %d %d]" tnames.(i) starts.(i) starts.(i + 1))
        | SNode (k, kids) ->
          Buffer.add_string buf (Printf.sprintf " (%s" (name_of (int_of_n k)));
          List.iter show kids; Buffer.add_char buf ')' in
      (match finish events tokens with
       | Util.Ok t ->
         show t;
         print_endline (Printf.sprintf "%b %d %d %b |%s" bal ca cn
           (tree_lossless t (nat_of_int (Array.length lens))) (Buffer.contents buf))
       | Util.Crash n -> print_endline (Printf.sprintf "%b %d %d false | CRASH%d" bal ca cn (int_of_n n))
       | Util.OutOfFuel -> print_endline (Printf.sprintf "%b %d %d false | FUEL" bal ca cn))
    | _ -> print_endline "BAD")
