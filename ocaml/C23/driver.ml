(* C23 model driver (trusted glue: names <-> numbers, printing).
   stdin line: "<events> | <tokens>"   events "S<NodeKind> F A ...", tokens "<TokenKind>:<len> ..."
   stdout:     "<balanced> <count_add> <count_nt> <lossless> | <tree>"  or  "... | CRASH<n>" *)
open Conv
open ParserCore
open Sink
open ParseSpec

let names : (string, int) Hashtbl.t = Hashtbl.create 64
let rev_names : (int, string) Hashtbl.t = Hashtbl.create 64
let next = ref 2
let intern s =
  if s = "Comment" then 0 else if s = "Error" then 1 else
  match Hashtbl.find_opt names s with
  | Some n -> n
  | None -> let n = !next in incr next; Hashtbl.add names s n; Hashtbl.add rev_names n s; n
let name_of n = if n = 0 then "Comment" else if n = 1 then "Error" else
  (match Hashtbl.find_opt rev_names n with Some s -> s | None -> "?")


(* ---- grammar model (Model/Grammar.v): names <-> the codes defined there (generated from Grammar.v) ---- *)
let tok_codes = [ "Int", 1; "Hex", 2; "Bin", 3; "Float", 4; "Bool", 5; "DoubleQuote", 6; "SingleQuote", 7; "StringContents", 8; "Escape", 9; "Ident", 10; "Caret", 11; "Mut", 12; "Hash", 13; "Distinct", 14; "Comptime", 15; "Struct", 16; "Enum", 17; "Question", 18; "Hyphen", 19; "Plus", 20; "Bang", 21; "Tilde", 22; "If", 23; "Else", 24; "While", 25; "Loop", 26; "Switch", 27; "LParen", 28; "RParen", 29; "LBrack", 30; "RBrack", 31; "LBrace", 32; "RBrace", 33; "Dot", 34; "Backtick", 35; "Colon", 36; "Comma", 37; "Ellipsis", 38; "Arrow", 39; "Extern", 40; "As", 41; "Try", 42; "In", 43; "FatArrow", 44; "Equals", 45; "Semicolon", 46; "Return", 47; "Break", 48; "Continue", 49; "Defer", 50; "DoublePipe", 51; "DoubleAnd", 52; "Left", 53; "LeftEquals", 54; "Right", 55; "RightEquals", 56; "DoubleEquals", 57; "BangEquals", 58; "Pipe", 59; "Asterisk", 60; "Slash", 61; "Percent", 62; "And", 63; "DoubleLeft", 64; "DoubleRight", 65 ]
let node_names = [ 0, "Comment"; 1, "Error"; 2, "Root"; 3, "VarRef"; 4, "Call"; 5, "ArgList"; 6, "Arg"; 7, "Directive"; 8, "ArrayDecl"; 9, "ArraySize"; 10, "ArrayLiteral"; 11, "ArrayItem"; 12, "IndexExpr"; 13, "Index"; 14, "Source"; 15, "Distinct"; 16, "ComptimeExpr"; 17, "ParenExpr"; 18, "Block"; 19, "IfExpr"; 20, "ElseBranch"; 21, "WhileExpr"; 22, "Condition"; 23, "SwitchExpr"; 24, "SwitchArm"; 25, "VariantShorthand"; 26, "DefaultArm"; 27, "LabelDecl"; 28, "LabelRef"; 29, "IntLiteral"; 30, "FloatLiteral"; 31, "BoolLiteral"; 32, "CharLiteral"; 33, "StringLiteral"; 34, "CastExpr"; 35, "RefExpr"; 36, "MutExpr"; 37, "DerefExpr"; 38, "BinaryExpr"; 39, "UnaryExpr"; 40, "Binding"; 41, "VarDef"; 42, "Assign"; 43, "ExprStmt"; 44, "ReturnStmt"; 45, "BreakStmt"; 46, "ContinueStmt"; 47, "DeferStmt"; 48, "Lambda"; 49, "ParamList"; 50, "Param"; 51, "StructDecl"; 52, "MemberDecl"; 53, "StructLiteral"; 54, "MemberLiteral"; 55, "EnumDecl"; 56, "VariantDecl"; 57, "Discriminant"; 58, "OptionalDecl"; 59, "ErrorTy"; 60, "PayloadTy"; 61, "ErrorUnionDecl"; 62, "PropagateExpr"; 63, "Ty"; 64, "Path" ]
let text_class = function "rawptr" -> 1 | "import" -> 2 | "mod" -> 3 | "_" -> 4 | _ -> 0

(* "G <S|R> <bump:u|f> <loops:u|f> | tok:len[:text] ..." -> "<status> | <events> | <errs>" *)
let grammar_line (line : string) : string =
  match String.split_on_char '|' line with
  | head :: toks :: _ ->
    let hw = List.filter (fun w -> w <> "") (String.split_on_char ' ' head) in
    let repl, fb, fl = match hw with
      | [_; m; b; l] -> m = "R", b = "f", l = "f"
      | _ -> failwith "bad G header" in
    let words = List.filter (fun w -> w <> "") (String.split_on_char ' ' toks) in
    let parsed = List.map (fun w ->
      match String.split_on_char ':' w with
      | k :: len :: rest ->
        let kind = match k with
          | "Whitespace" -> ParserCore.KWs | "CommentLeader" -> ParserCore.KCLead | "CommentContents" -> ParserCore.KCCont
          | _ -> ParserCore.KTok (n_of_int (match List.assoc_opt k tok_codes with Some c -> c | None -> 0)) in
        ((kind, nat_of_int (int_of_string len)), n_of_int (match rest with [t] -> text_class t | _ -> 0))
      | _ -> failwith "bad token") words in
    let tokens = List.map fst parsed and tx = List.map snd parsed in
    let cfg = { Grammar.fix_bump = fb; Grammar.fix_loops = fl } in
    let buf = Buffer.create 256 in
    (match Grammar.parse_top cfg tx repl (Grammar.grammar_fuel tokens) tokens with
     | Util.Ok s ->
       let all = List.for_all (fun e -> e <> None) s.ParserCore.evs in
       Buffer.add_string buf (if all then "ok | " else "UNCOMPLETED | ");
       List.iter (fun e -> match e with
         | Some (ParserCore.EStart k) ->
           Buffer.add_string buf ("S" ^ (match List.assoc_opt (int_of_n k) node_names with Some n -> n | None -> "?") ^ " ")
         | Some ParserCore.EFinish -> Buffer.add_string buf "F "
         | Some ParserCore.EAdd -> Buffer.add_string buf "A "
         | None -> Buffer.add_string buf "NONE ") s.ParserCore.evs;
       Buffer.add_string buf "| ";
       List.iter (fun e -> match e with
         | ParserCore.Missing o -> Buffer.add_string buf (Printf.sprintf "%d-%d," (int_of_nat o) (int_of_nat o))
         | ParserCore.UnexpectedTok (a, b) | ParserCore.UnexpectedNode (a, b) ->
           Buffer.add_string buf (Printf.sprintf "%d-%d," (int_of_nat a) (int_of_nat b))) s.ParserCore.errs;
       Buffer.contents buf
     | Util.Crash n -> Printf.sprintf "CRASH%d | | " (int_of_n n)
     | Util.OutOfFuel -> "FUEL | | ")
  | _ -> "BAD"

let () =
  iter_lines (fun line ->
    if String.length line > 1 && line.[0] = 'G' && line.[1] = ' ' then print_endline (try grammar_line line with Failure m -> "BAD " ^ m) else
    match String.split_on_char '|' line with
    | evs :: toks :: _ ->
      let words s = List.filter (fun w -> w <> "") (String.split_on_char ' ' s) in
      let events = List.map (fun w ->
        if w = "F" then EFinish else if w = "A" then EAdd
        else EStart (n_of_int (intern (String.sub w 1 (String.length w - 1))))) (words evs) in
      let tnames = ref [] in
      let tokens = List.map (fun w ->
        let k, len = match String.split_on_char ':' w with
          | k :: l :: _ -> k, int_of_string l | _ -> failwith "bad token" in
        tnames := k :: !tnames;
        let kind = match k with
          | "Whitespace" -> KWs | "CommentLeader" -> KCLead | "CommentContents" -> KCCont
          | _ -> KTok (n_of_int (intern ("tok:" ^ k))) in
        (kind, nat_of_int len)) (words toks) in
      let tnames = Array.of_list (List.rev !tnames) in
      let lens = Array.of_list (List.map (fun (_, l) -> int_of_nat l) tokens) in
      let starts = Array.make (Array.length lens + 1) 0 in
      Array.iteri (fun i l -> starts.(i + 1) <- starts.(i) + l) lens;
      let bal = balanced events in
      let ca = int_of_nat (count_add events) and cn = int_of_nat (count_nt (List.map fst tokens)) in
      let buf = Buffer.create 256 in
      let rec show t = match t with
        | STok i -> let i = int_of_nat i in
          Buffer.add_string buf (Printf.sprintf " [%s %d %d]" tnames.(i) starts.(i) starts.(i + 1))
        | SNode (k, kids) ->
          Buffer.add_string buf (Printf.sprintf " (%s" (name_of (int_of_n k)));
          List.iter show kids; Buffer.add_char buf ')' in
      (match finish events tokens with
       | Util.Ok t ->
         show t;
         print_endline (Printf.sprintf "%b %d %d %b |%s" bal ca cn
           (tree_lossless t (nat_of_int (Array.length lens))) (Buffer.contents buf))
       | Util.Crash n -> print_endline (Printf.sprintf "%b %d %d false | CRASH%d" bal ca cn (int_of_n n))
       | Util.OutOfFuel -> print_endline (Printf.sprintf "%b %d %d false | FUEL" bal ca cn))
    | _ -> print_endline "BAD")
