(* stdin: "<consumer> <expr>" with consumer in {A (array length), D (discriminant), C (comptime
   argument), G (global body)} and expr in prefix tokens:
     I n | F | B | S | H (char) | T (type literal) | L (lambda) | M (import) | X (missing)
     | K safe res | Y isarray k e*k | G ext fin e | V mu 1 e | V mu 0 | O (member other) | P res | E ty
   res: i<n> | f | t | d
   stdout: "<outcome> <get_const> <wf> <has_char> <has_data>", outcome = ACC:<res> | NOTCONST | SILENT | CRASH<site> *)
open Conv
open Constness

let toks = ref [||]
let pos = ref 0
let next () = let t = !toks.(!pos) in incr pos; t
let flag () = next () = "1"
let res () = let t = next () in
  match t.[0] with
  | 'i' -> DInt (n_of_int (int_of_string (String.sub t 1 (String.length t - 1))))
  | 'f' -> DFloat | 't' -> DType | _ -> DData

let rec expr () : cexpr =
  match next () with
  | "I" -> CLit (LInt (n_of_int (int_of_string (next ()))))
  | "F" -> CLit LFloat | "B" -> CLit LBool | "S" -> CLit LString | "H" -> CLit LChar
  | "T" -> CTypeLit | "L" -> CLambda | "M" -> CImport | "X" -> CMissing
  | "K" -> let s = flag () in let r = res () in CComptime (s, r)
  | "Y" -> let a = flag () in let k = int_of_string (next ()) in
    let rec items k = if k = 0 then [] else let e = expr () in e :: items (k - 1) in
    CArrayLit (a, items k)
  | "G" -> let e = flag () in let f = flag () in let b = expr () in CGlobal (e, f, b)
  | "V" -> let mu = flag () in if flag () then (let v = expr () in CLocal (mu, Some v)) else CLocal (mu, None)
  | "O" -> CMemberOther
  | "P" -> CComptimeParam (res ())
  | "E" -> COther (flag ())
  | t -> failwith ("bad token " ^ t)

let data_str = function
  | DInt n -> Printf.sprintf "i%d" (int_of_n n) | DFloat -> "f" | DType -> "t" | DData -> "d"
let out_str = function
  | Util.Ok (Accepted d) -> "ACC:" ^ data_str d
  | Util.Ok NotConst -> "NOTCONST"
  | Util.Ok Silent -> "SILENT"
  | Util.Crash s -> Printf.sprintf "CRASH%d" (int_of_n s)
  | Util.OutOfFuel -> "FUEL"
let v_str = function
  | Util.Ok Const -> "Const" | Util.Ok Runtime -> "Runtime" | Util.Ok Unknown -> "Unknown"
  | Util.Crash s -> Printf.sprintf "CRASH%d" (int_of_n s) | Util.OutOfFuel -> "FUEL"
let b2s b = if b then "1" else "0"

(* world form:  "W <consumer A|D|C> <nfiles> { <file> <nglobals> { <name> <ext> <fin> <wexpr> } } <cur> <wexpr>"
   wexpr := I n | R g (global of the same file) | Q f g (file.name) | V mu 1 e | V mu 0 | K safe res | P res | E ty
   stdout: "<outcome>" *)
let rec wexpr () : wexpr =
  match next () with
  | "I" -> WInt (n_of_int (int_of_string (next ())))
  | "R" -> WGlobal (n_of_int (int_of_string (next ())))
  | "Q" -> let f = n_of_int (int_of_string (next ())) in let g = n_of_int (int_of_string (next ())) in WMember (f, g)
  | "V" -> let mu = flag () in if flag () then (let v = wexpr () in WLocal (mu, Some v)) else WLocal (mu, None)
  | "K" -> let s = flag () in let r = res () in WComptime (s, r)
  | "P" -> WParam (res ())
  | "E" -> WOther (flag ())
  | t -> failwith ("bad wexpr token " ^ t)

let world_case () =
  let c = next () in
  let nfiles = int_of_string (next ()) in
  let tbl = ref [] in
  for _ = 1 to nfiles do
    let f = int_of_string (next ()) in
    let ng = int_of_string (next ()) in
    for _ = 1 to ng do
      let g = int_of_string (next ()) in
      let ext = flag () in let fin = flag () in let b = wexpr () in
      tbl := ((f, g), { wg_extern = ext; wg_finished = fin; wg_body = b }) :: !tbl
    done
  done;
  let cur = n_of_int (int_of_string (next ())) in
  let e = wexpr () in
  let t = !tbl in
  let w f g = List.assoc_opt (int_of_n f, int_of_n g) t in
  let fuel = nat_of_int 64 in
  let o = match c with
    | "A" -> array_len_w w fuel cur e | "D" -> discriminant_w w fuel cur e | _ -> comptime_arg_w w fuel cur e in
  print_endline (out_str o)

let () =
  iter_lines (fun line ->
    toks := Array.of_list (List.filter (fun s -> s <> "") (split_on ' ' (String.trim line)));
    pos := 0;
    if !toks.(0) = "W" then (incr pos; world_case ()) else
    let c = next () in
    let e = expr () in
    let o = match c with
      | "A" -> array_len e | "D" -> discriminant e | "C" -> comptime_arg e | _ -> global_body e in
    print_endline (String.concat " " [ out_str o; v_str (get_const e); b2s (ConstSpec.wf e);
                                       b2s (ConstSpec.has_char e); b2s (ConstSpec.has_data e) ]))
