From Capy Require Import Common.Util Model.Constness Spec.ConstSpec.
Require Extraction.
Require Import ExtrOcamlBasic.
Extraction Language OCaml.
Separate Extraction nat positive N Z get_const const_data array_len discriminant comptime_arg global_body wf has_char has_data array_len_w discriminant_w comptime_arg_w.
