(* C27 model driver.  One case per line, tab separated; strings and paths are hex
   encoded UTF-8; a path is split at '/' into its non-empty components (glue).
     D <mod_dir> <cwd> <file> G <name> - <generic|-> <tail> [<impl mangled hex>]
     D <mod_dir> <cwd> <file> L <idx> <-|ownerfile:ownername> <generic|-> <tail> [<impl hex>]
         tail: - | Z:<idx> | I:<idx>:<name>
       -> "<mangled hex | CRASH<n>>\t<Safe 0/1>\t<WF 0/1>\t<decode(model string)=Some d: 0/1/->\t<decode(impl string)=Some d: 0/1/->"
     X <mod_dir> <cwd> <9 fields of d1: file..tail> <9.. of d2>   (fields 3..7 of a D line)
       -> mechanisms "1,2" (empty = none) and whether entity d1 = entity d2: "<list>\t<same 0/1>"
     N <name> -> mangle_internal *)
open Conv
open Mangle

let bytes s = bytes_of_hex s
let path s =
  let b = bytes s in
  let rec go cur acc = function
    | [] -> List.rev (if cur = [] then acc else List.rev cur :: acc)
    | c :: r -> if int_of_n c = 47 then go [] (if cur = [] then acc else List.rev cur :: acc) r
                else go (c :: cur) acc r in
  go [] [] b

let num s = n_of_int (int_of_string s)

let desc file b v owner generic tail =
  let f = path file in
  let base = match b with
    | "G" -> BGlobal (f, bytes v)
    | "L" ->
      let o = if owner = "-" then None else
          (match split_on ':' owner with
           | [of_; on] -> Some (path of_, bytes on)
           | _ -> failwith "owner") in
      BLambda (f, num v, o)
    | _ -> failwith "base" in
  let g = if generic = "-" then None else Some (num generic) in
  let t = match split_on ':' tail with
    | ["-"] -> TNone
    | ["Z"; i] -> TComptime (num i)
    | ["I"; i; nm] -> TData (num i, bytes nm)
    | _ -> failwith "tail" in
  { d_base = base; d_generic = g; d_tail = t }

let b2s b = if b then "1" else "0"

let () =
  iter_lines (fun line ->
    let f = Array.of_list (split_on '\t' line) in
    match f.(0) with
    | "N" -> print_endline (hex_of_bytes (mangle_internal (bytes f.(1))))
    | "D" ->
      let e = { mod_dir = path f.(1); cur_dir = path f.(2) } in
      let d = desc f.(3) f.(4) f.(5) f.(6) f.(7) f.(8) in
      let safe = MangleSpec.coq_Safe e d and wf = MangleSpec.coq_WF e d in
      let impl_dec =
        if Array.length f > 9 && f.(9) <> "" && f.(9).[0] <> 'P' && f.(9).[0] <> 'M' && f.(9).[0] <> '!' then
          b2s (MangleSpec.decode e (bytes f.(9)) = Some d)
        else "-" in
      (match mangle e d with
       | Util.Ok s ->
         Printf.printf "%s\t%s\t%s\t%s\t%s\n" (hex_of_bytes s) (b2s safe) (b2s wf)
           (b2s (MangleSpec.decode e s = Some d)) impl_dec
       | Util.Crash n -> Printf.printf "CRASH%d\t%s\t%s\t-\t%s\n" (int_of_n n) (b2s safe) (b2s wf) impl_dec
       | Util.OutOfFuel -> Printf.printf "FUEL\t%s\t%s\t-\t%s\n" (b2s safe) (b2s wf) impl_dec)
    | "X" ->
      let e = { mod_dir = path f.(1); cur_dir = path f.(2) } in
      let d1 = desc f.(3) f.(4) f.(5) f.(6) f.(7) f.(8) in
      let d2 = desc f.(9) f.(10) f.(11) f.(12) f.(13) f.(14) in
      let l = MangleSpec.explain_collision e d1 d2 in
      let l = List.sort_uniq compare (List.map int_of_n l) in
      Printf.printf "%s\t%s\n" (String.concat "," (List.map string_of_int l))
        (b2s (MangleSpec.entity d1 = MangleSpec.entity d2))
    | _ -> print_endline "?")
