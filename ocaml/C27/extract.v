From Capy Require Import Common.Util Model.Mangle Spec.MangleSpec.
Require Extraction.
Require Import ExtrOcamlBasic.
Extraction Language OCaml.
Separate Extraction mangle decode Safe WF explain_collision mangle_internal entity parts_of.
