From Capy Require Import Common.CapyCore Model.Generics.
Require Extraction.
Require Import ExtrOcamlBasic.
Extraction Language OCaml.
Separate Extraction eval_prog well_typed subst_fun cresolve find_or_add.
