(* stdin line: <fuel> <main> <nfuns> fun*        (whitespace separated prefix tokens)
     fun   ::= fun <ntparams> <ncparams> ty* <nparams> (<x> ty)* ty(ret) expr(body)
     ty    ::= i8|i16|i32|i64|i128|isize|u8|u16|u32|u64|u128|usize|bool|void
             | A <n> ty | S <id> <k> ty*k | V <n> | E <id> <k> ty*k | O ty | R ty ty
     expr  ::= int ty <hexz> | true | false | unit | cp <n> | var <x> | bin <op> e e | cmp <op> e e
             | un <op> e | land e e | lor e e | cast ty e | if e e e | while <l> e e | loop <l> e
             | block <l|-> ty <n> e*n e | break <l> e | continue <l> | return e
             | call <f> <nt> ty* <nc> cval* <na> e* | arr ty <n> e* | index e e | struct ty <n> e*
             | field e <k> | let <x> ty <0|1> e | assign e e | print e | defer e | inject ty <k> e
             | switch ty e <x> <n> e*n (0 | 1 e) | isvar e <k> | unwrap e <k> | try e
     cval  ::= clit ty <hexz> | cref <n>
   optionally followed by:  check <k> then k times: <f> <g> <nt> ty.. <nc> cval..
     = "function g of the table is subst_fun (targs, cargs) of function f" (Model/Generics.v), answered by SUBST=<1|0>
   stdout line: WT=<0|1> SUBST=<1|0|-> DONE <status> ev* | FAULT <kind> <fn> ev* | TRAP ev* | STUCK | FUEL
     ev ::= I<tyname>=<hexz> | B=<0|1>                                   (parsing / printing only) *)
open Conv
open Convz
open CapyCore
open Generics

let ity_of_string = function
  | "i8" -> Some { isg = true; iw = W8 } | "i16" -> Some { isg = true; iw = W16 }
  | "i32" -> Some { isg = true; iw = W32 } | "i64" -> Some { isg = true; iw = W64 }
  | "i128" -> Some { isg = true; iw = W128 } | "isize" -> Some { isg = true; iw = WPtr }
  | "u8" -> Some { isg = false; iw = W8 } | "u16" -> Some { isg = false; iw = W16 }
  | "u32" -> Some { isg = false; iw = W32 } | "u64" -> Some { isg = false; iw = W64 }
  | "u128" -> Some { isg = false; iw = W128 } | "usize" -> Some { isg = false; iw = WPtr }
  | _ -> None

let string_of_ity (i : ity) =
  (if i.isg then "i" else "u") ^
  (match i.iw with W8 -> "8" | W16 -> "16" | W32 -> "32" | W64 -> "64" | W128 -> "128" | WPtr -> "size")

let parse_prog (toks : string list) =
  let rest = ref toks in
  let adv () = match !rest with [] -> failwith "eof" | t :: r -> rest := r; t in
  let num () = int_of_string (adv ()) in
  let nat () = nat_of_int (num ()) in
  let rec times n f = if n <= 0 then [] else let x = f () in x :: times (n - 1) f in
  let rec ty () =
    let t = adv () in
    match ity_of_string t with
    | Some i -> TInt i
    | None ->
      (match t with
       | "bool" -> TBool | "void" -> TVoid
       | "A" -> let n = nat () in let u = ty () in TArr (n, u)
       | "S" -> let id = nat () in let k = num () in let fs = times k ty in TStruct (id, fs)
       | "V" -> TVar (nat ())
       | "E" -> let id = nat () in let k = num () in let vs = times k ty in TEnum (id, vs)
       | "O" -> let u = ty () in TOpt u
       | "R" -> let e = ty () in let u = ty () in TErr (e, u)
       | _ -> failwith ("bad type " ^ t)) in
  let binop () = match adv () with
    | "add" -> OAdd | "sub" -> OSub | "mul" -> OMul | "div" -> ODiv | "rem" -> ORem
    | "shl" -> OShl | "shr" -> OShr | "and" -> OAnd | "or" -> OOr | "xor" -> OXor
    | t -> failwith ("bad binop " ^ t) in
  let cmpop () = match adv () with
    | "eq" -> CEq | "ne" -> CNe | "lt" -> CLt | "le" -> CLe | "gt" -> CGt | "ge" -> CGe
    | t -> failwith ("bad cmpop " ^ t) in
  let unop () = match adv () with
    | "neg" -> UNeg | "not" -> UNot | "bnot" -> UBNot | t -> failwith ("bad unop " ^ t) in
  let cval () = match adv () with
    | "clit" -> let t = ty () in let z = z_of_hex (adv ()) in CLit (t, z)
    | "cref" -> CRef (nat ())
    | t -> failwith ("bad cval " ^ t) in
  let rec expr () =
    match adv () with
    | "int" -> let t = ty () in let z = z_of_hex (adv ()) in EInt (t, z)
    | "true" -> EBool true | "false" -> EBool false | "unit" -> EUnit
    | "cp" -> ECParam (nat ())
    | "var" -> EVar (nat ())
    | "bin" -> let o = binop () in let a = expr () in let b = expr () in EBin (o, a, b)
    | "cmp" -> let o = cmpop () in let a = expr () in let b = expr () in ECmp (o, a, b)
    | "un" -> let o = unop () in let a = expr () in EUn (o, a)
    | "land" -> let a = expr () in let b = expr () in EAnd (a, b)
    | "lor" -> let a = expr () in let b = expr () in EOr (a, b)
    | "cast" -> let t = ty () in let a = expr () in ECast (t, a)
    | "if" -> let c = expr () in let a = expr () in let b = expr () in EIf (c, a, b)
    | "while" -> let l = nat () in let c = expr () in let b = expr () in EWhile (l, c, b)
    | "loop" -> let l = nat () in let b = expr () in ELoop (l, b)
    | "block" ->
      let l = (match adv () with "-" -> None | t -> Some (nat_of_int (int_of_string t))) in
      let t = ty () in let n = num () in let ss = times n expr in let tl = expr () in
      EBlock (l, t, ss, tl)
    | "break" -> let l = nat () in let v = expr () in EBreak (l, v)
    | "continue" -> EContinue (nat ())
    | "return" -> EReturn (expr ())
    | "call" ->
      let f = nat () in
      let nt = num () in let ts = times nt ty in
      let nc = num () in let cs = times nc cval in
      let na = num () in let args = times na expr in
      ECall (f, ts, cs, args)
    | "arr" -> let t = ty () in let n = num () in let es = times n expr in EArr (t, es)
    | "index" -> let a = expr () in let i = expr () in EIndex (a, i)
    | "struct" -> let t = ty () in let n = num () in let es = times n expr in EStruct (t, es)
    | "field" -> let a = expr () in let k = nat () in EField (a, k)
    | "let" -> let x = nat () in let t = ty () in let m = adv () = "1" in let e = expr () in ELet (x, t, m, e)
    | "assign" -> let a = expr () in let b = expr () in EAssign (a, b)
    | "print" -> EPrint (expr ())
    | "defer" -> EDefer (expr ())
    | "inject" -> let t = ty () in let k = nat () in let e = expr () in EInject (t, k, e)
    | "switch" ->
      let t = ty () in let e = expr () in let x = nat () in
      let n = num () in let arms = times n expr in
      let d = (match adv () with "0" -> None | _ -> Some (expr ())) in
      ESwitch (t, e, x, arms, d)
    | "isvar" -> let e = expr () in let k = nat () in EIsVariant (e, k)
    | "unwrap" -> let e = expr () in let k = nat () in EUnwrap (e, k)
    | "try" -> ETry (expr ())
    | t -> failwith ("bad expr token " ^ t) in
  let func () =
    (if adv () <> "fun" then failwith "expected fun");
    let ntp = nat () in
    let ncp = num () in let cps = times ncp ty in
    let np = num () in
    let ps = times np (fun () -> let x = nat () in let t = ty () in (x, t)) in
    let ret = ty () in
    let body = expr () in
    { f_tparams = ntp; f_cparams = cps; f_params = ps; f_ret = ret; f_body = body } in
  let fuel = num () in
  let main = nat () in
  let nf = num () in
  let fs = times nf func in
  let checks =
    if !rest = [] then None else begin
      (if adv () <> "check" then failwith "expected check");
      let k = num () in
      let cs = times k (fun () ->
        let f = num () in let g = num () in
        let nt = num () in let ts = times nt ty in
        let nc = num () in let cs = times nc cval in
        (f, g, ts, cs)) in
      if !rest <> [] then failwith "trailing tokens";
      Some cs end in
  (fuel, { funs = fs; main = main }, checks)

let show_events evs =
  String.concat "" (List.map (function
    | EvInt (i, z) -> " I" ^ string_of_ity i ^ "=" ^ hex_of_z z
    | EvBool b -> if b then " B=1" else " B=0") evs)

let () =
  iter_lines (fun line ->
    try
      let toks = List.filter (fun s -> s <> "") (split_on ' ' (String.trim line)) in
      let (fuel, p, checks) = parse_prog toks in
      let wt = if well_typed p then "1" else "0" in
      let sub = match checks with
        | None -> "-"
        | Some cs ->
          if List.for_all (fun (f, g, ts, cvs) ->
            let vals = List.map (fun c -> cresolve ([], []) c) cvs in
            if List.exists (fun v -> v = None) vals then false else
            let vs = List.map (function Some v -> v | None -> assert false) vals in
            match List.nth_opt p.funs f, List.nth_opt p.funs g with
            | Some fd, Some gd -> Generics.subst_fun (ts, vs) fd = gd
            | _, _ -> false) cs then "1" else "0" in
      let r = match eval_prog (nat_of_int fuel) p with
        | Done (out, st) -> "DONE " ^ string_of_int (int_of_z st) ^ show_events out
        | Fault (out, k, f) -> Printf.sprintf "FAULT %d %d%s" (int_of_nat k) (int_of_nat f) (show_events out)
        | Trap out -> "TRAP" ^ show_events out
        | Stuck -> "STUCK"
        | OutOfFuel -> "FUEL" in
      print_endline ("WT=" ^ wt ^ " SUBST=" ^ sub ^ " " ^ r)
    with e -> print_endline ("ERROR " ^ Printexc.to_string e))
