From Capy Require Import Common.Util Model.Lexer Spec.LexSpec.
Require Extraction.
Require Import ExtrOcamlBasic.
Extraction Language OCaml.
Separate Extraction lex lex_ok keywords bools puncts.
