(* stdin: one hex-encoded UTF-8 text per line.
   mode "lex"  : prints the model's tokens "Kind@start ... END@end".
   mode "check": line = "<hex text>|k1@s1 k2@s2 ...|end" (the implementation's tokens);
                 prints "ok" / "bad" = extracted lex_ok on them.
   mode "tables": prints the literal tables of the model. *)
open Conv

let utf8_decode (s : string) : int list =
  let n = String.length s in
  let rec go i acc =
    if i >= n then List.rev acc else
    let c = Char.code s.[i] in
    if c < 0x80 then go (i+1) (c :: acc)
    else if c < 0xE0 then go (i+2) ((((c land 0x1F) lsl 6) lor (Char.code s.[i+1] land 0x3F)) :: acc)
    else if c < 0xF0 then go (i+3) ((((c land 0x0F) lsl 12) lor ((Char.code s.[i+1] land 0x3F) lsl 6) lor (Char.code s.[i+2] land 0x3F)) :: acc)
    else go (i+4) ((((c land 0x07) lsl 18) lor ((Char.code s.[i+1] land 0x3F) lsl 12) lor ((Char.code s.[i+2] land 0x3F) lsl 6) lor (Char.code s.[i+3] land 0x3F)) :: acc)
  in go 0 []

let bytes_to_string (l : BinNums.coq_N list) = String.concat "" (List.map (fun b -> String.make 1 (Char.chr (int_of_n b))) l)
let text_of_hex hex = List.map n_of_int (utf8_decode (bytes_to_string (bytes_of_hex hex)))
let str_of_cps l = String.concat "" (List.map (fun c -> String.make 1 (Char.chr (int_of_n c))) l)
let cps_of_str s = List.init (String.length s) (fun i -> n_of_int (Char.code s.[i]))

let punct_names = [
  "+","Plus"; "-","Hyphen"; "*","Asterisk"; "/","Slash"; "%","Percent"; "<","Left"; "<<","DoubleLeft";
  "<=","LeftEquals"; ">","Right"; ">>","DoubleRight"; ">=","RightEquals"; "!","Bang"; "!=","BangEquals";
  "&","And"; "&&","DoubleAnd"; "|","Pipe"; "||","DoublePipe"; "=","Equals"; "==","DoubleEquals";
  "~","Tilde"; ",","Comma"; ".","Dot"; "...","Ellipsis"; "?","Question"; "->","Arrow"; "=>","FatArrow";
  "^","Caret"; "`","Backtick"; "(","LParen"; ")","RParen"; "[","LBrack"; "]","RBrack"; "{","LBrace";
  "}","RBrace"; ":","Colon"; ";","Semicolon"; "#","Hash" ]

let kind_name (k : Lexer.kind) : string =
  match k with
  | Lexer.KWhitespace -> "Whitespace" | Lexer.KNbsp -> "NonBreakingSpace"
  | Lexer.KKeyword t -> String.capitalize_ascii (str_of_cps t)
  | Lexer.KIdent -> "Ident" | Lexer.KFloat -> "Float" | Lexer.KInt -> "Int" | Lexer.KHex -> "Hex"
  | Lexer.KBin -> "Bin" | Lexer.KBool -> "Bool"
  | Lexer.KPunct t -> (try List.assoc (str_of_cps t) punct_names with Not_found -> "Punct?" ^ str_of_cps t)
  | Lexer.KSingleQuote -> "SingleQuote" | Lexer.KDoubleQuote -> "DoubleQuote" | Lexer.KEscape -> "Escape"
  | Lexer.KStringContents -> "StringContents" | Lexer.KCommentLeader -> "CommentLeader"
  | Lexer.KCommentContents -> "CommentContents" | Lexer.KError -> "Error"

let kind_of_name (s : string) : Lexer.kind =
  match s with
  | "Whitespace" -> Lexer.KWhitespace | "NonBreakingSpace" -> Lexer.KNbsp | "Ident" -> Lexer.KIdent
  | "Float" -> Lexer.KFloat | "Int" -> Lexer.KInt | "Hex" -> Lexer.KHex | "Bin" -> Lexer.KBin | "Bool" -> Lexer.KBool
  | "SingleQuote" -> Lexer.KSingleQuote | "DoubleQuote" -> Lexer.KDoubleQuote | "Escape" -> Lexer.KEscape
  | "StringContents" -> Lexer.KStringContents | "CommentLeader" -> Lexer.KCommentLeader
  | "CommentContents" -> Lexer.KCommentContents | "Error" -> Lexer.KError
  | _ ->
    (match List.find_opt (fun (_, n) -> n = s) punct_names with
     | Some (t, _) -> Lexer.KPunct (cps_of_str t)
     | None -> Lexer.KKeyword (cps_of_str (String.uncapitalize_ascii s)))

let () =
  let mode = if Array.length Sys.argv > 1 then Sys.argv.(1) else "lex" in
  if mode = "tables" then begin
    List.iter (fun t -> print_endline ("kw " ^ str_of_cps t)) Lexer.keywords;
    List.iter (fun t -> print_endline ("bool " ^ str_of_cps t)) Lexer.bools;
    List.iter (fun t -> print_endline ("punct " ^ str_of_cps t)) Lexer.puncts
  end else
  iter_lines (fun line ->
    match mode with
    | "lex" ->
      let txt = text_of_hex (String.trim line) in
      (match Lexer.lex txt with
       | Util.Ok (toks, e) ->
         let b = Buffer.create 64 in
         List.iter (fun (k, s) -> Buffer.add_string b (Printf.sprintf "%s@%d " (kind_name k) (int_of_n s))) toks;
         Buffer.add_string b (Printf.sprintf "END@%d" (int_of_n e));
         print_endline (Buffer.contents b)
       | Util.Crash s -> print_endline (Printf.sprintf "CRASH%d" (int_of_n s))
       | Util.OutOfFuel -> print_endline "FUEL")
    | _ ->
      (match split_on '|' line with
       | [hex; toks; e] ->
         let txt = text_of_hex hex in
         let toks = List.filter (fun s -> s <> "") (split_on ' ' toks) in
         let toks = List.map (fun t -> match split_on '@' t with
             | [k; s] -> (kind_of_name k, n_of_int (int_of_string s)) | _ -> failwith "tok") toks in
         print_endline (if LexSpec.lex_ok txt toks (n_of_int (int_of_string e)) then "ok" else "bad")
       | _ -> print_endline "PARSE"))
